#!/bin/bash
# developer tool: ./trymutant.sh <dir with patch.diff> <ID> [more IDs]  — applies the patch to /repo, runs the quick checks, reverts
set -u
d=$1; shift
git -C /repo status --short | grep -v '^??' | grep . && { echo "/repo dirty"; exit 2; }
git -C /repo apply "$d/patch.diff" || { echo "patch does not apply"; exit 2; }
for id in "$@"; do
  # evidence committed under /verif must describe runs on the unchanged tree: keep it aside
  cp /verif/evidence/$id.json /tmp/evidence_$id.bak 2>/dev/null
  /verif/check "$id" --tier quick 2>&1 | grep -a "VIOLATION\|quick:\|INCONCLUSIVE\|HARNESS" | head -5
  cp /tmp/evidence_$id.bak /verif/evidence/$id.json 2>/dev/null
done
git -C /repo checkout -- .
