#!/bin/bash
# developer tool: ./trymutant.sh <dir with patch.diff> <ID> [more IDs]  — applies the patch to /repo, runs the quick checks, reverts
set -u
d=$1; shift
git -C /repo status --short | grep -v '^??' | grep . && { echo "/repo dirty"; exit 2; }
git -C /repo apply "$d/patch.diff" || { echo "patch does not apply"; exit 2; }
for id in "$@"; do
  /verif/check "$id" --tier quick 2>&1 | grep -a "VIOLATION\|quick:\|INCONCLUSIVE\|HARNESS" | head -5
done
git -C /repo checkout -- .
