#!/usr/bin/env python3
"""usage: addfinding.py <id> <property> <signature-pattern> <failfile> <what...>  (developer tool; never run by checks)"""
import json, sys, shutil
fid, prop, sig, src = sys.argv[1:5]
what = " ".join(sys.argv[5:])
shutil.copy(src, f"/verif/findings/{fid}.json")
d = json.load(open("/verif/known_findings.json"))
d["findings"] = [f for f in d["findings"] if f["id"] != fid]
d["findings"].append({"id": fid, "property": prop, "status": "known", "signature": sig, "replay": f"findings/{fid}.json", "what": what})
json.dump(d, open("/verif/known_findings.json", "w"), indent=1)
print("recorded", fid)
