#!/usr/bin/env python3
"""Regenerates MANIFEST.json from checks_config.py (single source of truth)."""
import json, os, subprocess
from checks_config import CHECKS, NOT_APPLICABLE
ROOT = os.path.dirname(os.path.abspath(__file__))
props = [json.loads(l)["id"] for l in open(os.path.join(ROOT, "properties.jsonl"))]
hooks_commits = []
hp = os.path.join(ROOT, "hooks_commits.txt")
if os.path.exists(hp):
    hooks_commits = [l.split()[0] for l in open(hp) if l.strip()]
checks = []
for pid in props:
    if pid not in CHECKS:
        continue
    c = CHECKS[pid]
    checks.append({
        "property_id": pid,
        "quick_cmd": f"./check {pid} --tier quick",
        "thorough_cmd": f"./check {pid} --tier thorough",
        "evidence_file": f"/verif/evidence/{pid}.json",
        "replay_cmd_template": f"./check {pid} --replay {{path}}",
        "engine": "rapid-harness",
        "level_claimed": {"category": c["level"], "text": c["level_text"], "design_ref": c["design_ref"]},
        "level_note": c["level_note"],
        "technique": c["technique"],
    })
na = [{"property_id": p, "reason": NOT_APPLICABLE.get(p, "check not built yet in this session; planned per DESIGN.md §10")} for p in props if p not in CHECKS]
m = {
    "version": 1,
    "setup_cmd": "./check --setup",
    "hooks": {
        "guard": "verif",
        "enable": "go test -tags verif (the harness module /verif/harness replaces github.com/parquet-go/parquet-go with /repo, so every build compiles /repo's working tree)",
        "baseline_off_cmd": "cd /repo && go test -mod=mod -json -vet=off -count=1 -timeout 25m ./...",
        "source_commits": hooks_commits,
        "add_only": True,
    },
    "engines": [{"name": "rapid-harness", "path": "/verif/harness", "serves_properties": [c["property_id"] for c in checks],
                 "kind_free_text": "Go module with one package per property: pgregory.net/rapid v1.3.0 generators, JSON cases, pure runCase oracles against reference code in harness/ref, sharded by the ./check driver; native go fuzzing in some thorough tiers"}],
    "checks": checks,
    "not_applicable": na,
    "notes": "Known findings protocol: /verif/known_findings.json (committed, never written at run time). See DESIGN.md.",
}
json.dump(m, open(os.path.join(ROOT, "MANIFEST.json"), "w"), indent=1)
print("MANIFEST.json:", len(checks), "checks,", len(na), "not applicable")
