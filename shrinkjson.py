#!/usr/bin/env python3
"""Developer tool: greedy structural shrinking of a replay file (delete dict keys / list items, zero ints)
   usage: shrinkjson.py <ID> <replay.json> [variant]   -> writes <replay>.min.json"""
import json, subprocess, sys, os, copy, tempfile
pid, path = sys.argv[1], sys.argv[2]
variant = sys.argv[3] if len(sys.argv) > 3 else "asm"
sys.path.insert(0, "/verif")
from checks_config import CHECKS
binary = f"/verif/.build/{CHECKS[pid]['pkg']}.{variant}.test"
doc = json.load(open(path))
sig0 = doc["sig"]
env = dict(os.environ, VERIF_KNOWN="/verif/empty_findings.json")
def digest(case, var):
    d = dict(doc); d["case"] = case
    f = tempfile.mktemp(suffix=".json"); json.dump(d, open(f, "w"))
    dg = tempfile.mktemp()
    e = dict(env, VERIF_REPLAY=f, VERIF_DIGESTS=dg)
    b = f"/verif/.build/{CHECKS[pid]['pkg']}.{var}.test"
    subprocess.run([b, "-test.run", "^Test", "-test.timeout", "60s"], env=e, capture_output=True, text=True, timeout=90, cwd="/tmp")
    os.unlink(f)
    out = open(dg).read().split()[-1] if os.path.exists(dg) and open(dg).read().strip() else None
    if os.path.exists(dg): os.unlink(dg)
    return out
def fails_xbuild(case):
    a, b = digest(case, "asm"), digest(case, variant)
    return a is not None and b is not None and a != b
def fails(case):
    if sig0.startswith("cross-build"):
        return fails_xbuild(case)
    return fails_sig(case)
def fails_sig(case):
    d = dict(doc); d["case"] = case
    f = tempfile.mktemp(suffix=".json"); json.dump(d, open(f, "w"))
    env["VERIF_REPLAY"] = f
    try:
        p = subprocess.run([binary, "-test.run", "^Test", "-test.timeout", "60s"], env=env, capture_output=True, text=True, timeout=90, cwd="/tmp")
    except subprocess.TimeoutExpired:
        return False
    finally:
        pass
    os.unlink(f)
    return ("sig=" + sig0) in p.stdout
def paths(node, pre=()):
    if isinstance(node, dict):
        for k in list(node):
            yield pre + (k,)
            yield from paths(node[k], pre + (k,))
    elif isinstance(node, list):
        for i in range(len(node) - 1, -1, -1):
            yield pre + (i,)
            yield from paths(node[i], pre + (i,))
def delete(case, p):
    c = copy.deepcopy(case); n = c
    for k in p[:-1]: n = n[k]
    if isinstance(n, dict) and p[-1] in ("schema", "ch", "plan", "pool", "runs", "f", "name", "rep", "kind", "leaf", "type", "map", "from", "target"): return None
    if isinstance(n, list) and len(p) >= 2 and p[-2] in ("ch", "f", "pool"): return None
    try:
        del n[p[-1]]
    except Exception: return None
    return c
case = doc["case"]
assert fails(case), "does not fail to begin with"
changed = True
while changed:
    changed = False
    for p in list(paths(case)):
        c = delete(case, p)
        if c is not None and fails(c):
            case = c; changed = True; break
doc["case"] = case
out = path.replace(".json", ".min.json")
json.dump(doc, open(out, "w"), indent=1)
print(json.dumps(case))
