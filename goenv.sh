# source me: environment for ad-hoc go commands in /verif/harness
export GO=/root/go/pkg/mod/golang.org/toolchain@v0.0.1-go1.24.9.linux-amd64/bin/go GOTOOLCHAIN=local GOFLAGS=-mod=mod GOPROXY=off GOSUMDB=off
