#!/bin/bash
# developer tool: ./verifymutant.sh <ID e.g. C08a>  — confirms a sub-agent's seeded change in its scratch worktree, stores it under /verif/seeded/<ID>/, removes the worktree
set -u
id=$1; w=/tmp/mut_$id; o=/tmp/mutout/$id
export GOFLAGS=-mod=mod GOPROXY=off
cd $w || exit 2
# start from a clean checkout and the agent's patch.diff (worktrees share refs/stash, agents may have collided)
git checkout -q -- . ; git clean -fdq
git apply $o/patch.diff || { echo "patch.diff does not apply to the base commit"; exit 2; }
git diff > /tmp/verify_$id.diff
cp $o/demo_test.go $w/demo_${id,,}_test.go
name=$(grep -o 'func Test[A-Za-z0-9_]*' $o/demo_test.go | head -1 | sed 's/func //')
echo "demo test: $name"
go test -count=1 -run "^$name\$" . > /tmp/verify_$id.with.log 2>&1; with=$?
git apply -R /tmp/verify_$id.diff
go test -count=1 -run "^$name\$" . > /tmp/verify_$id.without.log 2>&1; without=$?
git apply /tmp/verify_$id.diff
rm -f $w/demo_${id,,}_test.go
echo "with patch exit=$with (want !=0), without exit=$without (want 0)"
go build ./... || { echo "build fails"; exit 1; }
go test -count=1 ./... 2>&1 | grep -a "^--- FAIL\|^FAIL\|^ok" | grep -v "^ok" > /tmp/verify_$id.suite.log
cat /tmp/verify_$id.suite.log
newfail=$(grep -a "^--- FAIL" /tmp/verify_$id.suite.log | grep -v "TestOpenFile \|TestOpenFileWithoutPageIndex " | wc -l)
echo "new suite failures: $newfail"
if [ $with -ne 0 ] && [ $without -eq 0 ] && [ $newfail -eq 0 ]; then
  mkdir -p /verif/seeded/$id
  cp /tmp/verify_$id.diff /verif/seeded/$id/patch.diff
  cp $o/demo_test.go /verif/seeded/$id/demo_test.go
  python3 - <<PY
import json
m=json.load(open("$o/meta.json"))
m["confirmed_by_me"]={"demo_with_patch":"fails (exit $with)","demo_without_patch":"passes","suite_with_patch":"go test ./... : only the two pre-existing trace.snappy.parquet failures","base_commit":"$(git -C $w rev-parse --short HEAD)"}
json.dump(m,open("/verif/seeded/$id/meta.json","w"),indent=1)
PY
  echo "KEPT -> /verif/seeded/$id"
  cd /; git -C /repo worktree remove --force $w && echo "worktree removed"
else
  echo "NOT KEPT"
fi
