#!/bin/bash
# developer tool: ./trymutant2.sh <dir with patch.diff> <ID> [more IDs] — like trymutant.sh but never touches /repo:
# the patch is applied in a scratch worktree and the checks run from a scratch copy of /verif whose harness points at it
set -u
d=$1; shift
run=/tmp/mutrun.$$; vr=/tmp/verifrun.$$
git -C /repo worktree add --detach -q $run HEAD || exit 2
git -C $run apply "$d/patch.diff" || { echo "patch does not apply"; git -C /repo worktree remove --force $run; exit 2; }
mkdir -p $vr; rsync -a --exclude .build --exclude replays --exclude .git /verif/ $vr/
sed -i "s#=> /repo#=> $run#" $vr/harness/go.mod
for id in "$@"; do
  $vr/check "$id" --tier quick 2>&1 | grep -a "VIOLATION\|quick:\|INCONCLUSIVE\|HARNESS" | head -5
done
rm -rf $vr; git -C /repo worktree remove --force $run
