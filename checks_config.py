# Per-property configuration of the driver: harness package, level and the
# case counts / shards / build variants of each tier. mkmanifest.py turns the
# descriptive fields into MANIFEST.json.
CHECKS = {
    "C06": {
        "pkg": "c06", "level": "exploration",
        "quick": {"shards": 8, "checks": 20000, "timeout": 600},
        "thorough": {"shards": 16, "checks": 400000, "timeout": 3000},
        "technique": "property-based testing (rapid): generated page plans and probes against a linear reference model of page membership and recorded bounds",
        "level_text": "Random search over column indexes built the way the writer builds them (Type.NewColumnIndexer/IndexPage and real one-column files) with null pages aimed at the positions where the zero placeholder keeps an ASCENDING/DESCENDING claim; every present value and generated absent values are probed through Search and Find and compared with a model that knows which page holds which value. Exploration is the right level: the domain is infinite but the interesting region (ordered index x null page position x truncated/overlapping bounds) is small and hit in >40% of cases.",
        "level_note": "Trusts the reference comparators of harness/ref (written from LogicalTypes.md sort orders). NaN excluded. Find with CompareNullsFirst asserted only when all null pages come first.",
        "design_ref": "DESIGN.md §4 C06",
    },
}

NOT_APPLICABLE = {
}
