# Per-property configuration of the driver: harness package, level and the
# case counts / shards / build variants of each tier. mkmanifest.py turns the
# descriptive fields into MANIFEST.json.
CHECKS = {
    "C06": {
        "pkg": "c06", "level": "exploration",
        "quick": {"shards": 8, "checks": 20000, "timeout": 600},
        "thorough": {"shards": 16, "checks": 400000, "timeout": 3000},
        "technique": "property-based testing (rapid): generated page plans and probes against a linear reference model of page membership and recorded bounds",
        "level_text": "Random search over column indexes built the way the writer builds them (Type.NewColumnIndexer/IndexPage and real one-column files) with null pages aimed at the positions where the zero placeholder keeps an ASCENDING/DESCENDING claim; every present value and generated absent values are probed through Search and Find and compared with a model that knows which page holds which value. Exploration is the right level: the domain is infinite but the interesting region (ordered index x null page position x truncated/overlapping bounds) is small and hit in >40% of cases.",
        "level_note": "Trusts the reference comparators of harness/ref (written from LogicalTypes.md sort orders). NaN excluded. Find with CompareNullsFirst asserted only when all null pages come first.",
        "design_ref": "DESIGN.md §4 C06",
    },
    "C01": {
        "pkg": "c01", "level": "exploration",
        "quick": {"shards": 8, "checks": 400, "timeout": 900},
        "thorough": {"shards": 16, "checks": 6000, "timeout": 5000},
        "technique": "property-based testing (rapid): generated schema x rows x writer options x Write/Flush history, round trip compared leaf-by-leaf with a reference Dremel shredder and, for typed structs, with the original Go values",
        "level_text": "Random search over the product the property quantifies over: schema trees of every node kind over 37 leaf types, boundary-biased values (min/max, NaN payloads, -0, empty/long/0xFF byte strings, nil pointers, empty lists), every writer option, and write histories; the oracle is a reference shredder independent of the library plus Go-value equality after the documented normalisation for the typed front ends. Exploration with measured non-trivial rate is what PBT can give for an unbounded input space.",
        "level_note": "Trusts harness/ref Dremel model (self-tested: Assemble∘Shred = id). File sizes are bounded (a few thousand rows). A Write/Flush/Close error is a rejection (the property speaks of accepted rows), counted and limited to 5%.",
        "design_ref": "DESIGN.md §4 C01",
    },
    "C03": {
        "pkg": "c03", "level": "exploration",
        "quick": {"shards": 8, "checks": 600, "timeout": 900},
        "thorough": {"shards": 16, "checks": 12000, "timeout": 5000},
        "technique": "property-based differential testing (rapid): the same generated Go values through 8 ingestion paths, each compared level-by-level with a reference shredder and with each other",
        "level_text": "Random search over a catalogue of struct types covering the documented tags and over row plans whose null/non-null runs are aimed at the 64-row bitmap words and batch boundaries; eight ingestion paths are compared with the reference Dremel streams of the documented Go mapping (so they are also compared with each other), and Reconstruct(Deconstruct(v)) with v.",
        "level_note": "The catalogue is finite (13 struct types); types outside it are not covered. Lists of pointers are excluded while finding F05 is open. Trusts harness/ref and the harness's reading of the documented Go mapping (typed/walk.go, self-tested against SchemaOf).",
        "design_ref": "DESIGN.md §4 C03",
    },
    "C17": {
        "pkg": "c17", "level": "exploration",
        "quick": {"checks": 300, "timeout": 900, "digests": True,
                  "stages": [{"variant": "asm", "shards": 6}, {"variant": "purego", "shards": 6}]},
        "thorough": {"checks": 4000, "timeout": 5000, "digests": True,
                     "stages": [{"variant": "asm", "shards": 8}, {"variant": "purego", "shards": 8}, {"variant": "simd", "shards": 8}]},
        "technique": "property-based metamorphic testing (rapid): same rows+options through fresh writers, a writer reused via Reset after a generated prior history (closed / abandoned / failed), and other builds; sha256 equality",
        "level_text": "Random search over (rows, options, write history) x prior history on the same writer instance x build variant; the oracle is byte equality of the produced files, within one process (fresh vs fresh vs reused-after-Reset) and across the asm / purego / GOEXPERIMENT=simd builds by joining per-case digests produced from identical rapid seeds.",
        "level_note": "Go map-typed values and encryption excluded (as the property states). One AVX-512 CPU: run-time kernel selection is covered only as build variants. Buffers (GenericBuffer.Reset) are exercised by C10.",
        "design_ref": "DESIGN.md §4 C17",
    },
    "C08": {
        "pkg": "c08", "level": "exploration",
        "quick": {"shards": 8, "checks": 600, "timeout": 900},
        "thorough": {"shards": 16, "checks": 15000, "timeout": 5000},
        "technique": "stateful property-based testing (rapid): generated SeekToRow/ReadRows/ReadPage histories against a cursor over reference rows",
        "level_text": "Random search over files (nested schemas, tiny pages, several row groups, both page versions, with/without page index, sync/async) and operation histories on five reader kinds; the model is the row list from the reference shredder plus a cursor, compared after every read. Consecutive seeks, backward seeks and seeks to page boundaries ±1 are generated deliberately.",
        "level_note": "Seeks beyond NumRows and use after Close are outside the asserted domain. Async mode explores only the schedules the runtime happens to produce.",
        "design_ref": "DESIGN.md §4 C08",
    },
    "C07": {
        "pkg": "c07", "level": "exploration",
        "quick": {"shards": 8, "checks": 500, "timeout": 900},
        "thorough": {"shards": 16, "checks": 8000, "timeout": 5000},
        "technique": "property-based testing (rapid): generated files with bloom filters over all physical types and producer paths; every written value must be reported present (membership oracle from the reference rows)",
        "level_text": "Random search over column type x encoding x dictionary limit (fallback) x bits-per-value x row-group split x gzip/deferred filter x producer path (WriteRows, Reset+WriteRows, WriteRowGroup from buffer / from a file with same or different configuration, CopyRows); row plans can be made fully distinct per row so dictionaries overflow and filters carry hundreds of values. The oracle needs no expected value: every written non-null value of a chunk must Check() true.",
        "level_note": "Chunk membership is derived from reference rows and row-group row counts. False-positive rate is not a property and is not measured.",
        "design_ref": "DESIGN.md §4 C07",
    },
    "C02": {
        "pkg": "c02", "level": "exploration", "selftest": True,
        "quick": {"shards": 8, "checks": 400, "timeout": 900},
        "thorough": {"shards": 16, "checks": 6000, "timeout": 5000},
        "technique": "property-based testing (rapid) with an independent decoder as oracle: generated files are parsed and decoded by a from-the-spec reader and compared with the reference Dremel streams",
        "level_text": "Random search over every file the writer can emit in the C01 domain; the oracle is a reader that shares no code with the library (own thrift compact parser, page walker, level/value decoders for all encodings, snappy and LZ4 block decoders) checking ~30 structural consistency rules and value equality. This is the only way to see writer bugs that the library's own reader tolerates.",
        "level_note": "The decoder is my reading of the format documents (self-tested on /repo/testdata third-party files). zstd/brotli decompression and gzip come from upstream packages / the standard library. WriteRowGroup-produced files are verified by the same walker from C11; SortingWriter files from C10.",
        "design_ref": "DESIGN.md §4 C02",
    },
    "C05": {
        "pkg": "c05", "level": "exploration",
        "quick": {"shards": 8, "checks": 400, "timeout": 900},
        "thorough": {"shards": 16, "checks": 6000, "timeout": 5000},
        "technique": "property-based testing (rapid): recorded statistics and page indexes checked against truth recomputed by an independent decoder, with reference comparators per sort order",
        "level_text": "Random search over column type/order x page layout x size limit x statistics options x producer path; the independent decoder of C02 gives the true per-page values, and every recorded bound, count, histogram, null-page flag, boundary order and sorting column is compared with the recount under comparators written from LogicalTypes.md.",
        "level_note": "Trusts harness/ref comparators and decoder. Pages are small (≤ a few thousand values), so kernels that only run on very large pages (≥256k values) are not reached in the quick tier. Deprecated min/max and INT96 order are not asserted.",
        "design_ref": "DESIGN.md §4 C05",
    },
}

NOT_APPLICABLE = {
}
