package c09

import (
	"bytes"
	"fmt"
	"io"
	"sort"
	"testing"

	"github.com/parquet-go/parquet-go"
	"pgregory.net/rapid"

	"verifharness/kit"
)

// EvolveCase: the inputs of a merge were written at different stages of a
// schema's life: the payload column v is required in one, optional in another,
// absent from a third. Merged (schema derived by the library, or given), every
// row must come out with its own value of v — present values present, at the
// definition level of the merged schema, nulls null.
type EvolveCase struct {
	Inputs []EvolveIn `json:"inputs"`
	Sorted bool       `json:"sorted"` // the merge is given k as sorting column (else plain concatenation)
	Target string     `json:"target"` // "" (derived) | opt | req : the schema given to the merge declares v so
	Via    string     `json:"via"`    // rows | write (WriteRowGroup into a file, read back)
	Batch  int        `json:"batch"`
}

type EvolveIn struct {
	V    string `json:"v"`    // req | opt | none
	Keys []int  `json:"keys"` // ascending, unique across inputs (key = 10*x + input index)
	Null []bool `json:"null"` // opt: the row's v is null
}

func genEvolveCase(t *rapid.T) EvolveCase {
	var c EvolveCase
	n := rapid.IntRange(2, 3).Draw(t, "ninputs")
	for i := 0; i < n; i++ {
		in := EvolveIn{V: []string{"req", "opt", "none"}[rapid.IntRange(0, 2).Draw(t, "v")]}
		k := []int{0, 0, 500, 1500, 3000}[rapid.IntRange(0, 4).Draw(t, "base")] // partially overlapping key ranges
		nrows := rapid.IntRange(1, 12).Draw(t, "rows")
		if rapid.IntRange(0, 5).Draw(t, "long") == 0 {
			nrows = rapid.IntRange(1024, 2600).Draw(t, "nlong") // a lone stretch of 1024+ rows: the sorted merge slices row ranges off its inputs
		}
		for j := nrows; j > 0; j-- {
			k += rapid.IntRange(1, 4).Draw(t, "step")
			in.Keys = append(in.Keys, 10*k+i)
			in.Null = append(in.Null, rapid.IntRange(0, 2).Draw(t, "null") == 0)
		}
		c.Inputs = append(c.Inputs, in)
	}
	c.Sorted = rapid.Bool().Draw(t, "sorted")
	c.Target = []string{"", "", "opt", "req"}[rapid.IntRange(0, 3).Draw(t, "target")]
	c.Via = []string{"rows", "write"}[rapid.IntRange(0, 1).Draw(t, "via")]
	c.Batch = []int{1, 3, 64}[rapid.IntRange(0, 2).Draw(t, "batch")]
	return c
}

func runEvolveCase(c EvolveCase, o *kit.Obs) (fl *kit.Failure) {
	defer func() {
		if r := recover(); r != nil {
			fl = kit.Failf("c09/evolved/panic", "%v", r)
		}
	}()
	sortingCols := parquet.SortingColumns(parquet.Ascending("k"))
	type want struct {
		has bool
		v   int64
	}
	model := map[int64]want{}
	var order []int64
	var rgs []parquet.RowGroup
	shapes := map[string]bool{}
	for i, in := range c.Inputs {
		shapes[in.V] = true
		g := parquet.Group{"k": parquet.Int(64)}
		switch in.V {
		case "req":
			g["v"] = parquet.Int(64)
		case "opt":
			g["v"] = parquet.Optional(parquet.Int(64))
		}
		schema := parquet.NewSchema("t", g)
		var rows []parquet.Row
		for j, k := range in.Keys {
			row := parquet.Row{parquet.Int64Value(int64(k)).Level(0, 0, 0)}
			w := want{}
			switch {
			case in.V == "req":
				w = want{true, int64(1000*i + j + 1)}
				row = append(row, parquet.Int64Value(w.v).Level(0, 0, 1))
			case in.V == "opt" && !in.Null[j]:
				w = want{true, int64(1000*i + j + 1)}
				row = append(row, parquet.Int64Value(w.v).Level(0, 1, 1))
			case in.V == "opt":
				row = append(row, parquet.NullValue().Level(0, 0, 1))
			}
			model[int64(k)] = w
			order = append(order, int64(k))
			rows = append(rows, row)
		}
		var out bytes.Buffer
		wo := []parquet.WriterOption{schema, parquet.PageBufferSize(512)} // several pages: range cuts are page-granular
		if c.Sorted {
			wo = append(wo, parquet.SortingWriterConfig(sortingCols)) // else no declared order: the merge concatenates
		}
		w := parquet.NewWriter(&out, wo...)
		if _, err := w.WriteRows(rows); err != nil {
			return kit.Failf("c09/evolved/input", "%v", err)
		}
		if err := w.Close(); err != nil {
			return kit.Failf("c09/evolved/input", "%v", err)
		}
		f, err := parquet.OpenFile(bytes.NewReader(out.Bytes()), int64(out.Len()))
		if err != nil {
			return kit.Failf("c09/evolved/input", "%v", err)
		}
		rgs = append(rgs, f.RowGroups()...)
	}
	var opts []parquet.RowGroupOption
	switch c.Target {
	case "opt":
		opts = append(opts, parquet.NewSchema("t", parquet.Group{"k": parquet.Int(64), "v": parquet.Optional(parquet.Int(64))}))
	case "req":
		opts = append(opts, parquet.NewSchema("t", parquet.Group{"k": parquet.Int(64), "v": parquet.Int(64)}))
	}
	if c.Sorted {
		opts = append(opts, parquet.SortingRowGroupConfig(sortingCols))
		sort.Slice(order, func(a, b int) bool { return order[a] < order[b] })
	}
	feat := fmt.Sprintf("{sorted=%v,target=%s,via=%s}", c.Sorted, c.Target, c.Via)
	m, err := parquet.MergeRowGroups(rgs, opts...)
	if err != nil {
		o.Class("merge-rejected")
		return nil // the library may refuse to merge these schemas
	}
	leaf, ok := m.Schema().Lookup("v")
	if !ok {
		if shapes["req"] || shapes["opt"] {
			return kit.Failf("c09/evolved/column-dropped"+feat, "the merged schema has no column v:\n%s", m.Schema())
		}
		o.Class("no-v-anywhere")
		return nil
	}
	kcol, _ := m.Schema().Lookup("k")
	var rows parquet.Rows
	if c.Via == "write" {
		var out bytes.Buffer
		w := parquet.NewWriter(&out, m.Schema())
		if _, err := w.WriteRowGroup(m); err != nil {
			return kit.Failf("c09/evolved/write-error"+feat, "%v", err)
		}
		if err := w.Close(); err != nil {
			return kit.Failf("c09/evolved/write-error"+feat, "%v", err)
		}
		f, err := parquet.OpenFile(bytes.NewReader(out.Bytes()), int64(out.Len()))
		if err != nil {
			return kit.Failf("c09/evolved/copy-does-not-open"+feat, "%v", err)
		}
		rows = parquet.NewReader(f)
	} else {
		rows = m.Rows()
	}
	defer rows.Close()
	var got []parquet.Row
	buf := make([]parquet.Row, c.Batch)
	for {
		n, err := rows.ReadRows(buf)
		for _, r := range buf[:n] {
			got = append(got, r.Clone())
		}
		if err != nil {
			if err != io.EOF {
				return kit.Failf("c09/evolved/read-error"+feat, "%v", err)
			}
			break
		}
		if n == 0 {
			return kit.Failf("c09/evolved/no-progress"+feat, "ReadRows returned 0, nil")
		}
	}
	if len(got) != len(order) {
		return kit.Failf("c09/evolved/count"+feat, "%d rows out, %d in", len(got), len(order))
	}
	for i, row := range got {
		var k, v *parquet.Value
		for j := range row {
			switch row[j].Column() {
			case kcol.ColumnIndex:
				k = &row[j]
			case leaf.ColumnIndex:
				v = &row[j]
			}
		}
		if k == nil || v == nil || len(row) != 2 {
			return kit.Failf("c09/evolved/malformed-row"+feat, "row %d is %+v", i, row)
		}
		if k.Int64() != order[i] {
			return kit.Failf("c09/evolved/order"+feat, "row %d has key %d, expected %d", i, k.Int64(), order[i])
		}
		w := model[k.Int64()]
		switch {
		case w.has:
			if v.IsNull() || v.Int64() != w.v || v.DefinitionLevel() != leaf.MaxDefinitionLevel {
				return kit.Failf("c09/evolved/value"+feat, "row %d (key %d) was written with v=%d and comes out as %+v (max definition level of the merged column: %d; inputs %+v)", i, k.Int64(), w.v, *v, leaf.MaxDefinitionLevel, c.Inputs)
			}
		case leaf.MaxDefinitionLevel > 0:
			if !v.IsNull() || v.DefinitionLevel() != 0 {
				return kit.Failf("c09/evolved/value"+feat, "row %d (key %d) had no v and comes out as %+v", i, k.Int64(), *v)
			}
		default:
			if v.IsNull() || v.Int64() != 0 {
				return kit.Failf("c09/evolved/value"+feat, "row %d (key %d) had no v, the merged column is required, and it comes out as %+v", i, k.Int64(), *v)
			}
		}
	}
	o.Class(feat)
	if len(shapes) > 1 {
		o.NonTrivial()
	}
	return nil
}

var evolveSpec = &kit.Spec[EvolveCase]{
	Property: "C09",
	Name:     "evolved-schemas",
	Rule: "2-3 sorted input files (1-12 rows, or 1024-2600 so that the sorted merge cuts row ranges off its inputs; unique keys) in which the payload column v is required, optional (with nulls) or absent, merged by MergeRowGroups with the schema the library derives or one declaring v optional / required, with k as sorting column or without any (concatenation), read through Rows() or written with WriteRowGroup and read back: " +
		"all rows come out, in key order (resp. input order), each with its own v: written values present at the maximum definition level of the merged column, nulls and absent values null (zero when the merged column is required). Non-trivial = inputs disagree on v.",
	Assumptions: []string{"a merge the library rejects is not a violation"},
	Gen:         genEvolveCase,
	Run:         runEvolveCase,
}

func TestPropEvolved(t *testing.T) { kit.Both(t, evolveSpec) }
