package c09

import (
	"bytes"
	"crypto/sha256"
	"encoding/hex"
	"errors"
	"fmt"
	"io"
	"sort"
	"strings"
	"testing"

	"github.com/parquet-go/parquet-go"
	"pgregory.net/rapid"

	"verifharness/kit"
	"verifharness/pq"
	"verifharness/ref"
)

func TestMain(m *testing.M) { kit.Main(m) }

// Seg is an arithmetic stretch of first-key values.
type Seg struct {
	Start int `json:"start"`
	N     int `json:"n"`
	Step  int `json:"step"` // key increment every Dup rows
	Dup   int `json:"dup"`
}

type Input struct {
	Segs    []Seg  `json:"segs"`
	Kind    string `json:"kind"` // "file" | "buffer"
	PageBuf int    `json:"pagebuf"`
	Chunk   int    `json:"chunk"`          // ReadRows chunking for the row-reader path
	Perm    bool   `json:"perm,omitempty"` // the input declares its fields in reverse order (the merge converts it to the merged schema)
}

type Case struct {
	Inputs   []Input `json:"inputs"`
	Seed     uint64  `json:"seed"`
	Desc1    bool    `json:"desc1"`
	Desc2    bool    `json:"desc2"`
	Opt2     bool    `json:"opt2"`
	NF2      bool    `json:"nullsfirst2"`
	TwoKeys  bool    `json:"twokeys"`
	K2Range  int     `json:"k2range"`
	Dedup    bool    `json:"dedup"`
	Path     string  `json:"path"` // "rows" | "write" | "readers"
	Batch    int     `json:"batch"`
	MaxRows  int     `json:"maxrows"`
	StrKey   bool    `json:"strkey"`             // first key is a string instead of int64
	Recycle  bool    `json:"recycle,omitempty"`  // row-reader inputs overwrite the byte arrays of the rows they returned at their next call
	NoSchema bool    `json:"noschema,omitempty"` // MergeRowGroups derives the schema from the inputs (MergeNodes) instead of being given one
	Layout   int     `json:"layout,omitempty"`   // position of an extra repeated column "m": 0 none, 1 between the keys, 2 before them, 3 after them
}

func genCase(t *rapid.T) Case {
	var c Case
	k := rapid.IntRange(0, 5).Draw(t, "k")
	big := rapid.IntRange(0, 3).Draw(t, "big") == 0
	for i := 0; i < k; i++ {
		in := Input{Kind: []string{"file", "file", "buffer"}[rapid.IntRange(0, 2).Draw(t, "kind")],
			PageBuf: []int{64, 256, 1024, 0}[rapid.IntRange(0, 3).Draw(t, "pagebuf")],
			Chunk:   []int{1, 7, 64, 1000}[rapid.IntRange(0, 3).Draw(t, "chunk")]}
		ns := rapid.IntRange(0, 3).Draw(t, "nsegs")
		for s := 0; s < ns; s++ {
			n := []int{1, 2, 5, 24, 25, 100, 192, 193}[rapid.IntRange(0, 7).Draw(t, "n")]
			if big {
				n = []int{1023, 1024, 1025, 1500, 2600}[rapid.IntRange(0, 4).Draw(t, "nbig")]
			}
			in.Segs = append(in.Segs, Seg{
				Start: []int{0, 0, 100, 1000, 1024, 2000, 2500, -50}[rapid.IntRange(0, 7).Draw(t, "start")],
				N:     n,
				Step:  []int{0, 1, 1, 2, 10}[rapid.IntRange(0, 4).Draw(t, "step")],
				Dup:   []int{1, 1, 2, 3, 50}[rapid.IntRange(0, 4).Draw(t, "dup")],
			})
		}
		c.Inputs = append(c.Inputs, in)
	}
	// aimed overlap templates on top of (or instead of) the random inputs
	switch rapid.IntRange(0, 7).Draw(t, "template") {
	case 0: // an input sitting in a key gap of another one, both sides of the gap long
		n1 := []int{1024, 1025, 1032, 1500, 2048}[rapid.IntRange(0, 4).Draw(t, "n1")]
		n2 := []int{1024, 1025, 1500, 2048}[rapid.IntRange(0, 3).Draw(t, "n2")]
		g := []int{3, 10, 100, 1500}[rapid.IntRange(0, 3).Draw(t, "gap")]
		d := rapid.IntRange(0, 2).Draw(t, "delta")
		pb := []int{64, 128, 256, 1024}[rapid.IntRange(0, 3).Draw(t, "tpagebuf")]
		m := g - 2*d
		if m < 1 {
			m = 1
		}
		b := Input{Kind: "file", PageBuf: pb, Chunk: 64, Segs: []Seg{{Start: 0, N: n1, Step: 1, Dup: 1}, {Start: n1 + g, N: n2, Step: 1, Dup: 1}}}
		a := Input{Kind: "file", PageBuf: pb, Chunk: 64, Segs: []Seg{{Start: n1 + d, N: m, Step: 1, Dup: 1}}}
		if rapid.Bool().Draw(t, "gaporder") {
			c.Inputs = append([]Input{a, b}, c.Inputs...)
		} else {
			c.Inputs = append([]Input{b, a}, c.Inputs...)
		}
	case 1: // touching / barely overlapping long inputs
		n := []int{1024, 1500, 2048}[rapid.IntRange(0, 2).Draw(t, "tn")]
		ov := rapid.IntRange(-1, 2).Draw(t, "overlap")
		pb := []int{64, 256, 1024, 0}[rapid.IntRange(0, 3).Draw(t, "tpagebuf")]
		dup := []int{1, 2, 3}[rapid.IntRange(0, 2).Draw(t, "tdup")]
		c.Inputs = append([]Input{
			{Kind: "file", PageBuf: pb, Chunk: 64, Segs: []Seg{{Start: 0, N: n, Step: 1, Dup: dup}}},
			{Kind: "file", PageBuf: pb, Chunk: 64, Segs: []Seg{{Start: n/dup - ov, N: n, Step: 1, Dup: dup}}},
		}, c.Inputs...)
	case 2: // a short input nested inside a long one
		pb := []int{64, 256, 1024}[rapid.IntRange(0, 2).Draw(t, "tpagebuf")]
		c.Inputs = append([]Input{
			{Kind: "file", PageBuf: pb, Chunk: 64, Segs: []Seg{{Start: 0, N: 3000, Step: 1, Dup: 1}}},
			{Kind: "file", PageBuf: pb, Chunk: 64, Segs: []Seg{{Start: rapid.IntRange(1000, 1100).Draw(t, "nst"), N: rapid.IntRange(1, 50).Draw(t, "nn"), Step: 1, Dup: 1}}},
		}, c.Inputs...)
	}
	if len(c.Inputs) > 6 {
		c.Inputs = c.Inputs[:6]
	}
	c.Seed = rapid.Uint64().Draw(t, "seed")
	c.Desc1, c.Desc2 = rapid.IntRange(0, 3).Draw(t, "desc1") == 0, rapid.Bool().Draw(t, "desc2")
	c.Opt2, c.NF2 = rapid.Bool().Draw(t, "opt2"), rapid.Bool().Draw(t, "nf2")
	c.TwoKeys = rapid.Bool().Draw(t, "twokeys")
	c.K2Range = []int{1, 2, 5, 200}[rapid.IntRange(0, 3).Draw(t, "k2range")]
	c.Dedup = rapid.IntRange(0, 3).Draw(t, "dedup") == 0
	c.Path = []string{"rows", "rows", "write", "readers"}[rapid.IntRange(0, 3).Draw(t, "path")]
	c.Batch = []int{1, 2, 23, 24, 25, 191, 192, 193, 1000}[rapid.IntRange(0, 8).Draw(t, "batch")]
	c.MaxRows = []int{0, 0, 100, 1000}[rapid.IntRange(0, 3).Draw(t, "maxrows")]
	c.StrKey = rapid.IntRange(0, 3).Draw(t, "strkey") == 0
	c.Layout = []int{0, 0, 0, 1, 1, 2, 3}[rapid.IntRange(0, 6).Draw(t, "layout")]
	c.Recycle = rapid.Bool().Draw(t, "recycle")
	c.NoSchema = rapid.IntRange(0, 4).Draw(t, "noschema") == 0
	if rapid.IntRange(0, 3).Draw(t, "perm") == 0 {
		for i := range c.Inputs {
			c.Inputs[i].Perm = rapid.Bool().Draw(t, "permi")
		}
	}
	return c
}

type mrow struct {
	src, pos int
	k1       int64
	k2       int64
	k2null   bool
	v        ref.V
}

func (c Case) schema() ref.Node {
	rep2 := "req"
	if c.Opt2 {
		rep2 = "opt"
	}
	k1 := "int64"
	if c.StrKey {
		k1 = "string"
	}
	c0 := ref.Node{Name: "c0", Rep: "req", Kind: "leaf", Leaf: "int64"}
	c1 := ref.Node{Name: "c1", Rep: "req", Kind: "leaf", Leaf: k1}
	c2 := ref.Node{Name: "c2", Rep: rep2, Kind: "leaf", Leaf: "int32"}
	m := ref.Node{Name: "m", Rep: "rep", Kind: "leaf", Leaf: "int64"}
	root := ref.Node{Name: "root", Rep: "req", Kind: "group"}
	switch c.Layout {
	case 1:
		root.Children = []ref.Node{c0, c1, m, c2}
	case 2:
		root.Children = []ref.Node{c0, m, c1, c2}
	case 3:
		root.Children = []ref.Node{c0, c1, c2, m}
	default:
		root.Children = []ref.Node{c0, c1, c2}
	}
	return root
}

// fields orders the values of one row like the layout's schema.
func (c Case) fields(tag, k1, k2, m ref.V) []ref.V {
	switch c.Layout {
	case 1:
		return []ref.V{tag, k1, m, k2}
	case 2:
		return []ref.V{tag, m, k1, k2}
	case 3:
		return []ref.V{tag, k1, k2, m}
	}
	return []ref.V{tag, k1, k2}
}

// reversed returns the schema / row with the top-level fields in reverse order.
func reversed(n ref.Node) ref.Node {
	out := n
	out.Children = nil
	for i := len(n.Children) - 1; i >= 0; i-- {
		out.Children = append(out.Children, n.Children[i])
	}
	return out
}

func reversedRow(v ref.V) ref.V {
	out := ref.V{}
	for i := len(v.F) - 1; i >= 0; i-- {
		out.F = append(out.F, v.F[i])
	}
	return out
}

func (c Case) cmp(a, b *mrow) int {
	r := 0
	switch {
	case a.k1 < b.k1:
		r = -1
	case a.k1 > b.k1:
		r = 1
	}
	if c.Desc1 {
		r = -r
	}
	if r != 0 || !c.TwoKeys {
		return r
	}
	switch {
	case a.k2null && b.k2null:
		return 0
	case a.k2null:
		if c.NF2 {
			return -1
		}
		return 1
	case b.k2null:
		if c.NF2 {
			return 1
		}
		return -1
	}
	switch {
	case a.k2 < b.k2:
		r = -1
	case a.k2 > b.k2:
		r = 1
	}
	if c.Desc2 {
		r = -r
	}
	return r
}

func (c Case) keyOf(r *mrow) string {
	if !c.TwoKeys {
		return fmt.Sprint(r.k1)
	}
	if r.k2null {
		return fmt.Sprint(r.k1, "null")
	}
	return fmt.Sprint(r.k1, r.k2)
}

func (c Case) build() [][]mrow {
	x := c.Seed | 1
	next := func() uint64 {
		x ^= x >> 12
		x ^= x << 25
		x ^= x >> 27
		return x * 2685821657736338717
	}
	out := make([][]mrow, len(c.Inputs))
	for si, in := range c.Inputs {
		var rows []mrow
		for _, s := range in.Segs {
			for i := 0; i < s.N; i++ {
				r := next()
				m := mrow{src: si, k1: int64(s.Start + (i/s.Dup)*s.Step), k2: int64(r % uint64(c.K2Range))}
				if c.Opt2 && r>>24%7 == 0 {
					m.k2null = true
				}
				rows = append(rows, m)
			}
		}
		sort.SliceStable(rows, func(i, j int) bool { return c.cmp(&rows[i], &rows[j]) < 0 })
		for i := range rows {
			rows[i].pos = i
			k1 := ref.V{I: rows[i].k1}
			if c.StrKey {
				k1 = ref.V{B: []byte(fmt.Sprintf("k%08d", rows[i].k1+1000))}
			}
			k2 := ref.V{I: rows[i].k2}
			if rows[i].k2null {
				k2 = ref.V{Null: true}
			}
			// the repeated column holds 0, 2, 3 or 1 values (a single value hides index-based comparisons)
			h := (rows[i].k1*31 + rows[i].k2*17 + int64(i)) & 0xffff
			var mv ref.V
			for e := int64(0); e < []int64{0, 2, 3, 1}[h%4]; e++ {
				mv.L = append(mv.L, ref.V{I: (h*7919 + e*104729) % 1000})
			}
			rows[i].v = ref.V{F: c.fields(ref.V{I: int64(si)*10000000 + int64(i)}, k1, k2, mv)}
		}
		out[si] = rows
	}
	return out
}

type chunked struct {
	rows  []parquet.Row
	chunk int
	// recycle: the byte arrays of the rows handed out live in one scratch buffer that
	// is overwritten by the next call (rows are only valid until the next ReadRows)
	recycle bool
	scratch []byte
}

func (r *chunked) ReadRows(dst []parquet.Row) (int, error) {
	n := len(dst)
	if n > r.chunk {
		n = r.chunk
	}
	if n > len(r.rows) {
		n = len(r.rows)
	}
	if r.recycle {
		for i := range r.scratch[:cap(r.scratch)] {
			r.scratch[:cap(r.scratch)][i] = 0xEE
		}
		r.scratch = r.scratch[:0]
	}
	for i := 0; i < n; i++ {
		dst[i] = append(dst[i][:0], r.rows[i]...)
		if r.recycle {
			for k, v := range dst[i] {
				if v.Kind() == parquet.ByteArray && !v.IsNull() {
					b := v.ByteArray()
					if len(r.scratch)+len(b) > cap(r.scratch) {
						continue // (never: the buffer is sized for a full chunk)
					}
					off := len(r.scratch)
					r.scratch = append(r.scratch, b...)
					dst[i][k] = parquet.ByteArrayValue(r.scratch[off:len(r.scratch):len(r.scratch)]).Level(v.RepetitionLevel(), v.DefinitionLevel(), v.Column())
				}
			}
		}
	}
	r.rows = r.rows[n:]
	if len(r.rows) == 0 {
		return n, io.EOF
	}
	return n, nil
}

func runCase(c Case, o *kit.Obs) *kit.Failure {
	root := c.schema()
	cols := ref.Columns(&root)
	schema := pq.BuildSchema(&root)
	inputs := c.build()
	sc := []parquet.SortingColumn{parquet.Ascending("c1")}
	if c.Desc1 {
		sc[0] = parquet.Descending("c1")
	}
	if c.TwoKeys {
		var s2 parquet.SortingColumn = parquet.Ascending("c2")
		if c.Desc2 {
			s2 = parquet.Descending("c2")
		}
		if c.NF2 {
			s2 = parquet.NullsFirst(s2)
		}
		sc = append(sc, s2)
	}
	feat := fmt.Sprintf("{path=%s,dedup=%v}", c.Path, c.Dedup)
	total := 0
	var rgs []parquet.RowGroup
	var readers []parquet.RowReader
	permuted := false
	for si, rows := range inputs {
		total += len(rows)
		vs := make([]ref.V, len(rows))
		for i := range rows {
			vs[i] = rows[i].v
		}
		prows := pq.Rows(&root, cols, vs)
		inSchema := schema
		if c.Inputs[si].Perm && c.Path != "readers" {
			rootIn := reversed(root)
			for i := range vs {
				vs[i] = reversedRow(vs[i])
			}
			prows = pq.Rows(&rootIn, ref.Columns(&rootIn), vs)
			inSchema = pq.BuildSchema(&rootIn)
			permuted = true
		}
		if c.Path == "readers" {
			ch := c.Inputs[si].Chunk
			readers = append(readers, &chunked{rows: prows, chunk: ch, recycle: c.Recycle, scratch: make([]byte, 0, (ch+1)*64)})
			continue
		}
		if c.Inputs[si].Kind == "buffer" {
			b := parquet.NewBuffer(inSchema, parquet.SortingRowGroupConfig(parquet.SortingColumns(sc...)))
			if _, err := b.WriteRows(prows); err != nil {
				o.Rejected()
				return nil
			}
			rgs = append(rgs, b)
			continue
		}
		var buf bytes.Buffer
		wo := []parquet.WriterOption{inSchema, parquet.SortingWriterConfig(parquet.SortingColumns(sc...))}
		if c.Inputs[si].PageBuf > 0 {
			wo = append(wo, parquet.PageBufferSize(c.Inputs[si].PageBuf))
		}
		w := parquet.NewWriter(&buf, wo...)
		if _, err := w.WriteRows(prows); err != nil {
			o.Rejected()
			return nil
		}
		if err := w.Close(); err != nil {
			o.Rejected()
			return nil
		}
		f, err := pq.Open(buf.Bytes())
		if err != nil {
			return kit.Failf("c09/open-input", "%v", err)
		}
		rgs = append(rgs, f.RowGroups()...)
	}
	var got []parquet.Row
	outSchema := schema
	switch c.Path {
	case "readers":
		mr := parquet.MergeRowReaders(readers, schema.Comparator(sc...))
		rows, err := pq.ReadAllRows(mr, c.Batch)
		if err != nil {
			return kit.Failf("c09/read-error"+feat, "%v", err)
		}
		got = rows
	default:
		mopts := []parquet.RowGroupOption{schema, parquet.SortingRowGroupConfig(parquet.SortingColumns(sc...), parquet.DropDuplicatedRows(c.Dedup))}
		if c.NoSchema && len(rgs) > 0 {
			mopts = mopts[1:]
		}
		merged, err := parquet.MergeRowGroups(rgs, mopts...)
		if err != nil {
			return kit.Failf("c09/merge-error"+feat, "MergeRowGroups of %d sorted row groups: %v", len(rgs), err)
		}
		outSchema = merged.Schema()
		if c.Path == "rows" {
			r := merged.Rows()
			rows, err := pq.ReadAllRows(r, c.Batch)
			r.Close()
			if err != nil {
				return kit.Failf("c09/read-error"+feat, "%v", err)
			}
			got = rows
		} else {
			var out bytes.Buffer
			wo := []parquet.WriterOption{outSchema}
			if c.MaxRows > 0 {
				wo = append(wo, parquet.MaxRowsPerRowGroup(int64(c.MaxRows)))
			}
			w := parquet.NewWriter(&out, wo...)
			if _, err := w.WriteRowGroup(merged); err != nil {
				return kit.Failf("c09/write-error"+feat, "WriteRowGroup(merged): %v", err)
			}
			if err := w.Close(); err != nil {
				return kit.Failf("c09/write-error"+feat, "Close: %v", err)
			}
			f, err := pq.Open(out.Bytes())
			if err != nil {
				return kit.Failf("c09/open-error"+feat, "%v", err)
			}
			for _, rg := range f.RowGroups() {
				if c.MaxRows > 0 && rg.NumRows() > int64(c.MaxRows) {
					return kit.Failf("c09/rowgroup-too-large"+feat, "row group of %d rows, MaxRowsPerRowGroup %d", rg.NumRows(), c.MaxRows)
				}
				r := rg.Rows()
				rows, err := pq.ReadAllRows(r, c.Batch)
				r.Close()
				if err != nil {
					return kit.Failf("c09/read-error"+feat, "%v", err)
				}
				got = append(got, rows...)
			}
		}
	}
	// the derived schema may order the fields differently: address the values by column path
	if outSchema != schema {
		mapping := map[int]int{}
		for j, p := range outSchema.Columns() {
			found := false
			for i := range cols {
				if strings.Join(cols[i].Path, "\x00") == strings.Join(p, "\x00") {
					mapping[j], found = i, true
				}
			}
			if !found {
				return kit.Failf("c09/derived-schema"+feat, "the merged schema has a column %v that no input has", p)
			}
		}
		if len(mapping) != len(cols) {
			return kit.Failf("c09/derived-schema"+feat, "the merged schema has %d columns, the inputs %d", len(mapping), len(cols))
		}
		for _, row := range got {
			for k, v := range row {
				row[k] = v.Level(v.RepetitionLevel(), v.DefinitionLevel(), mapping[v.Column()])
			}
		}
		o.Class("derived-schema")
	}
	// oracle
	dedup := c.Dedup && c.Path != "readers"
	seen := make([][]bool, len(inputs))
	for i := range inputs {
		seen[i] = make([]bool, len(inputs[i]))
	}
	lastPos := make([]int, len(inputs))
	for i := range lastPos {
		lastPos[i] = -1
	}
	var prev *mrow
	keys := map[string]bool{}
	order := sha256.New() // the output order of the tags: compared between the assembly and the portable build
	defer func() { o.Digest(hex.EncodeToString(order.Sum(nil)[:8])) }()
	for i, row := range got {
		s, err := pq.Streams(cols, []parquet.Row{row})
		if err != nil {
			return kit.Failf("c09/malformed-row"+feat, "%v", err)
		}
		id := s[0][0].I
		fmt.Fprintf(order, "%d,", id)
		src, pos := int(id/10000000), int(id%10000000)
		if src < 0 || src >= len(inputs) || pos >= len(inputs[src]) || seen[src][pos] {
			return kit.Failf("c09/not-the-union"+feat, "output row %d has tag (%d,%d): unknown or duplicated", i, src, pos)
		}
		seen[src][pos] = true
		m := &inputs[src][pos]
		want := ref.ShredRows(&root, []ref.V{m.v})
		if d := pq.DiffStreams(cols, want, s); d != "" {
			return kit.Failf("c09/row-altered"+feat, "output row %d (input %d position %d): %s", i, src, pos, d)
		}
		if prev != nil && c.cmp(prev, m) > 0 {
			return kit.Failf("c09/not-sorted"+feat, "output rows %d and %d are out of order: input %d pos %d key (%d,%v,%d) before input %d pos %d key (%d,%v,%d)",
				i-1, i, prev.src, prev.pos, prev.k1, prev.k2null, prev.k2, m.src, m.pos, m.k1, m.k2null, m.k2)
		}
		if pos <= lastPos[src] {
			return kit.Failf("c09/not-stable"+feat, "rows of input %d come out of their original order: position %d after %d", src, pos, lastPos[src])
		}
		lastPos[src] = pos
		prev = m
		if dedup {
			k := c.keyOf(m)
			if keys[k] {
				return kit.Failf("c09/duplicate-key-kept"+feat, "key %s appears twice with DropDuplicatedRows", k)
			}
			keys[k] = true
		}
	}
	if !dedup {
		if len(got) != total {
			return kit.Failf("c09/not-the-union"+feat, "%d rows out, inputs hold %d", len(got), total)
		}
	} else {
		distinct := map[string]bool{}
		for _, in := range inputs {
			for i := range in {
				distinct[c.keyOf(&in[i])] = true
			}
		}
		if len(got) != len(distinct) {
			return kit.Failf("c09/dedup-count"+feat, "%d rows out, %d distinct keys in", len(got), len(distinct))
		}
	}
	// classification
	nonEmpty, overlap := 0, false
	type rng struct{ lo, hi int64 }
	var rs []rng
	for _, in := range inputs {
		if len(in) == 0 {
			continue
		}
		nonEmpty++
		lo, hi := in[0].k1, in[0].k1
		for _, r := range in {
			if r.k1 < lo {
				lo = r.k1
			}
			if r.k1 > hi {
				hi = r.k1
			}
		}
		for _, q := range rs {
			if lo <= q.hi && q.lo <= hi {
				overlap = true
			}
		}
		rs = append(rs, rng{lo, hi})
	}
	o.Class("path-" + c.Path)
	o.ClassIf(dedup, "dedup")
	o.ClassIf(overlap, "overlapping-inputs")
	o.ClassIf(total >= 2048, "big")
	o.Class(fmt.Sprintf("layout-%d", c.Layout))
	o.ClassIf(c.Recycle && c.Path == "readers" && c.StrKey, "recycling-row-readers")
	o.ClassIf(permuted, "input-with-reordered-fields")
	if nonEmpty >= 2 && overlap && (c.Batch < total || c.Opt2 || c.TwoKeys) {
		o.NonTrivial()
	}
	return nil
}

var spec = &kit.Spec[Case]{
	Property: "C09",
	Name:     "merge",
	Rule: "0-5 inputs, each the stable sort of 0-3 arithmetic key stretches (start in {-50..2500}, length 1..193 or, in a quarter of the cases, 1023..2600 so lone stretches ≥1024 rows and range refinement occur; step 0/1/2/10; 1-50 duplicates per key), " +
		"first key int64 or string, optional second key (int32, asc/desc, nullable with nulls first/last, 1-200 distinct values), payload = (input, position) tag; inputs are file row groups with declared sorting columns and page buffers 64 B..default, or sorted Buffers; " +
		"merged with MergeRowGroups (with/without DropDuplicatedRows) and read with batch sizes {1,2,23,24,25,191,192,193,1000} or written with WriteRowGroup (MaxRowsPerRowGroup 0/100/1000), or merged as chunked RowReaders with MergeRowReaders + Schema.Comparator. " +
		"The schema is (tag, key1, key2) with, in half of the cases, a repeated int64 column holding 0/2/3/1 values placed between the keys, before them or after them; in a quarter of the cases some inputs declare their fields in reverse order (the merge converts them), and in a fifth MergeRowGroups derives the schema from the inputs instead of being given one (values then addressed by column path). " +
		"Oracle: output = multiset union (tags), rows intact, globally sorted under the reference comparator, each input's rows in increasing position, one row per key with dedup. Three aimed templates (an input inside a key gap of another with ≥1024 rows on both sides and page-aligned or not; touching / barely overlapping long inputs; a short input nested in a long one) are mixed with the random inputs. Non-trivial = ≥2 non-empty inputs with overlapping key ranges and (batch < total rows, or nullable / two keys).",
	Assumptions: []string{"ties across inputs may interleave in any order; only per-input order is asserted", "no NaN keys (integer and string keys only)"},
	Gen:         genCase,
	Run:         runCase,
}

func TestProp(t *testing.T) { kit.Both(t, spec) }

var _ = errors.Is
