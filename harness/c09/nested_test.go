package c09

import (
	"fmt"
	"sort"
	"testing"

	"github.com/parquet-go/parquet-go"
	"pgregory.net/rapid"

	"verifharness/kit"
)

// NestCase: a merge whose inputs are themselves results of MergeRowGroups (and
// plain sorted buffers): the outer merge must still be sorted and complete, and
// so must a conversion of a merged row group to a sub-schema.
type NestCase struct {
	Inputs [][]int `json:"inputs"` // sorted keys per input buffer
	Shape  int     `json:"shape"`  // 0 merge(merge(a,b),c) | 1 merge(a,merge(b,c)) | 2 merge(merge(a,b),merge(c)) | 3 ConvertRowGroup(merge(a,b,c)) dropping the payload
	Batch  int     `json:"batch"`
}

func genNestCase(t *rapid.T) NestCase {
	var c NestCase
	n := rapid.IntRange(3, 4).Draw(t, "ninputs")
	for i := 0; i < n; i++ {
		k := rapid.IntRange(0, 12).Draw(t, "len")
		keys := make([]int, k)
		for j := range keys {
			keys[j] = rapid.IntRange(0, 30).Draw(t, "key")
		}
		sort.Ints(keys)
		c.Inputs = append(c.Inputs, keys)
	}
	c.Shape = rapid.IntRange(0, 3).Draw(t, "shape")
	c.Batch = []int{1, 3, 50}[rapid.IntRange(0, 2).Draw(t, "batch")]
	return c
}

func runNestCase(c NestCase, o *kit.Obs) *kit.Failure {
	type R struct {
		K int64 `parquet:"k"`
		P int64 `parquet:"p"`
	}
	sorting := parquet.SortingRowGroupConfig(parquet.SortingColumns(parquet.Ascending("k")))
	var rgs []parquet.RowGroup
	var want []int
	for i, keys := range c.Inputs {
		b := parquet.NewGenericBuffer[R](sorting)
		rows := make([]R, len(keys))
		for j, k := range keys {
			rows[j] = R{K: int64(k), P: int64(i*1000 + j)}
		}
		if len(rows) > 0 {
			b.Write(rows)
		}
		rgs = append(rgs, b)
		want = append(want, keys...)
	}
	sort.Ints(want)
	if len(want) == 0 {
		o.Class("all-inputs-empty")
		return nil
	}
	merge := func(in ...parquet.RowGroup) (parquet.RowGroup, error) {
		return parquet.MergeRowGroups(in, sorting)
	}
	var out parquet.RowGroup
	var err error
	feat := fmt.Sprintf("{shape=%d}", c.Shape)
	switch c.Shape {
	case 0:
		var m parquet.RowGroup
		if m, err = merge(rgs[0], rgs[1]); err == nil {
			out, err = merge(append([]parquet.RowGroup{m}, rgs[2:]...)...)
		}
	case 1:
		var m parquet.RowGroup
		if m, err = merge(rgs[1:]...); err == nil {
			out, err = merge(rgs[0], m)
		}
	case 2:
		var m1, m2 parquet.RowGroup
		if m1, err = merge(rgs[0], rgs[1]); err == nil {
			if m2, err = merge(rgs[2:]...); err == nil {
				out, err = merge(m1, m2)
			}
		}
	default:
		var m parquet.RowGroup
		if m, err = merge(rgs...); err == nil {
			target := parquet.NewSchema("R", parquet.Group{"k": parquet.Int(64)})
			var conv parquet.Conversion
			if conv, err = parquet.Convert(target, m.Schema()); err == nil {
				out = parquet.ConvertRowGroup(m, conv)
			}
		}
	}
	if err != nil {
		return kit.Failf("c09/nested/merge-error"+feat, "%v", err)
	}
	r := out.Rows()
	defer r.Close()
	var got []int
	buf := make([]parquet.Row, c.Batch)
	for {
		n, err := r.ReadRows(buf)
		for _, row := range buf[:n] {
			got = append(got, int(row[0].Int64()))
		}
		if err != nil {
			break
		}
		if n == 0 {
			return kit.Failf("c09/nested/no-progress"+feat, "ReadRows returned 0, nil")
		}
	}
	if len(got) != len(want) {
		return kit.Failf("c09/nested/count"+feat, "%d rows out, %d in (inputs %v)", len(got), len(want), c.Inputs)
	}
	if !sort.IntsAreSorted(got) {
		return kit.Failf("c09/nested/not-sorted"+feat, "the keys come out as %v (inputs %v)", got, c.Inputs)
	}
	for i := range got {
		if got[i] != want[i] {
			return kit.Failf("c09/nested/not-the-union"+feat, "keys out %v, keys in %v", got, want)
		}
	}
	o.Class(fmt.Sprintf("shape-%d", c.Shape))
	if len(want) >= 4 {
		o.NonTrivial()
	}
	return nil
}

var nestSpec = &kit.Spec[NestCase]{
	Property: "C09",
	Name:     "nested",
	Rule: "3-4 sorted buffers (0-12 keys in 0..30, overlapping) merged in two levels — merge(merge(a,b),c…), merge(a,merge(b,c…)), merge(merge(a,b),merge(c…)) — or merged and then converted to a sub-schema with ConvertRowGroup: " +
		"the rows come out sorted and are exactly the multiset union of the inputs, at read batch sizes 1, 3 and 50. Non-trivial = at least 4 rows.",
	Gen: genNestCase,
	Run: runNestCase,
}

func TestPropNested(t *testing.T) { kit.Both(t, nestSpec) }
