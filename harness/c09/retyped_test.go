package c09

import (
	"bytes"
	"fmt"
	"sort"
	"testing"

	"github.com/parquet-go/parquet-go"
	"pgregory.net/rapid"

	"verifharness/kit"
)

// RetypeCase: sorted inputs whose key column is stored in different units or
// widths (timestamps in milli / micro / nanoseconds, int32 / int64) merged into
// a schema that declares one of them: the conversion changes the stored values
// of the key (not their order), so nothing the merge takes from the inputs
// (page bounds, column indexes) may be compared before it is converted.
type RetypeCase struct {
	Target string     `json:"target"` // ms | us | ns | int32 | int64
	Inputs []RetypeIn `json:"inputs"`
	Batch  int        `json:"batch"`
	Buffer bool       `json:"buffer,omitempty"` // inputs are sorted Buffers (else row groups of files)
}

type RetypeIn struct {
	Unit   string `json:"unit"`
	Start  int    `json:"start"` // first key, in the coarsest unit (milliseconds)
	Step   int    `json:"step"`
	N      int    `json:"n"`
	PageBy int    `json:"pageby"`
}

func genRetypeCase(t *rapid.T) RetypeCase {
	var c RetypeCase
	ints := rapid.IntRange(0, 3).Draw(t, "ints") == 0
	units := []string{"ms", "us", "ns"}
	if ints {
		units = []string{"int32", "int64"}
	}
	c.Target = units[rapid.IntRange(0, len(units)-1).Draw(t, "target")]
	for n := rapid.IntRange(2, 4).Draw(t, "ninputs"); n > 0; n-- {
		in := RetypeIn{
			Unit:   units[rapid.IntRange(0, len(units)-1).Draw(t, "unit")],
			Start:  rapid.IntRange(0, 3000).Draw(t, "start"),
			Step:   rapid.IntRange(0, 3).Draw(t, "step"),
			N:      rapid.IntRange(1, 120).Draw(t, "n"),
			PageBy: []int{0, 7, 50}[rapid.IntRange(0, 2).Draw(t, "pageby")],
		}
		if rapid.IntRange(0, 4).Draw(t, "long") == 0 {
			in.N = rapid.IntRange(1024, 2600).Draw(t, "nlong")
		}
		c.Inputs = append(c.Inputs, in)
	}
	c.Batch = []int{1, 7, 64, 1000}[rapid.IntRange(0, 3).Draw(t, "batch")]
	c.Buffer = rapid.IntRange(0, 3).Draw(t, "buffer") == 0
	return c
}

func retypeNode(unit string) (parquet.Node, int64) {
	switch unit {
	case "ms":
		return parquet.Timestamp(parquet.Millisecond), 1
	case "us":
		return parquet.Timestamp(parquet.Microsecond), 1000
	case "ns":
		return parquet.Timestamp(parquet.Nanosecond), 1000000
	case "int32":
		return parquet.Int(32), 1
	}
	return parquet.Int(64), 1
}

func runRetypeCase(c RetypeCase, o *kit.Obs) (fl *kit.Failure) {
	defer func() {
		if r := recover(); r != nil {
			fl = kit.Failf("c09/retyped/panic", "%v", r)
		}
	}()
	sortingCols := parquet.SortingColumns(parquet.Ascending("k"))
	tnode, _ := retypeNode(c.Target)
	target := parquet.NewSchema("t", parquet.Group{"k": tnode, "p": parquet.Int(64)})
	var rgs []parquet.RowGroup
	var want []int64
	retyped := false
	for i, in := range c.Inputs {
		node, mul := retypeNode(in.Unit)
		if in.Unit != c.Target {
			retyped = true
		}
		schema := parquet.NewSchema("t", parquet.Group{"k": node, "p": parquet.Int(64)})
		rows := make([]parquet.Row, in.N)
		for j := range rows {
			k := int64(in.Start+j*in.Step) * mul
			kv := parquet.Int64Value(k)
			if in.Unit == "int32" {
				kv = parquet.Int32Value(int32(k))
			}
			rows[j] = parquet.Row{kv.Level(0, 0, 0), parquet.Int64Value(int64(i*100000+j)).Level(0, 0, 1)}
		}
		var rg parquet.RowGroup
		if c.Buffer {
			b := parquet.NewBuffer(schema, parquet.SortingRowGroupConfig(sortingCols))
			if _, err := b.WriteRows(rows); err != nil {
				return kit.Failf("c09/retyped/input", "%v", err)
			}
			rg = b
		} else {
			var out bytes.Buffer
			w := parquet.NewWriter(&out, schema, parquet.SortingWriterConfig(sortingCols), parquet.PageBufferSize(64))
			for at := 0; at < len(rows); {
				n := len(rows) - at
				if in.PageBy > 0 && in.PageBy < n {
					n = in.PageBy
				}
				if _, err := w.WriteRows(rows[at : at+n]); err != nil {
					return kit.Failf("c09/retyped/input", "%v", err)
				}
				at += n
			}
			if err := w.Close(); err != nil {
				return kit.Failf("c09/retyped/input", "%v", err)
			}
			f, err := parquet.OpenFile(bytes.NewReader(out.Bytes()), int64(out.Len()))
			if err != nil {
				return kit.Failf("c09/retyped/input", "%v", err)
			}
			if len(f.RowGroups()) != 1 {
				return kit.Failf("c09/retyped/input", "%d row groups", len(f.RowGroups()))
			}
			rg = f.RowGroups()[0]
		}
		// the converted keys of this input, through the row path of the conversion
		conv, err := parquet.Convert(target, schema)
		if err != nil {
			o.Rejected()
			return nil
		}
		keys, err := readKeys(parquet.ConvertRowGroup(rg, conv).Rows(), 64)
		if err != nil {
			o.Rejected()
			return nil
		}
		if len(keys) != in.N {
			return kit.Failf("c09/retyped/oracle", "input %d: %d rows through ConvertRowGroup, %d written", i, len(keys), in.N)
		}
		if !sort.SliceIsSorted(keys, func(a, b int) bool { return keys[a] < keys[b] }) {
			o.Class("conversion-not-monotone")
			return nil
		}
		want = append(want, keys...)
		rgs = append(rgs, rg)
	}
	sort.Slice(want, func(a, b int) bool { return want[a] < want[b] })
	feat := fmt.Sprintf("{target=%s,buffer=%v}", c.Target, c.Buffer)
	m, err := parquet.MergeRowGroups(rgs, target, parquet.SortingRowGroupConfig(sortingCols))
	if err != nil {
		return kit.Failf("c09/retyped/merge-error"+feat, "%v", err)
	}
	got, err := readKeys(m.Rows(), c.Batch)
	if err != nil {
		return kit.Failf("c09/retyped/read-error"+feat, "%v", err)
	}
	if len(got) != len(want) {
		return kit.Failf("c09/retyped/count"+feat, "%d rows out, %d in", len(got), len(want))
	}
	for i := range got {
		if i > 0 && got[i] < got[i-1] {
			return kit.Failf("c09/retyped/not-sorted"+feat, "row %d has key %d after key %d (inputs %+v)", i, got[i], got[i-1], c.Inputs)
		}
	}
	for i := range got {
		if got[i] != want[i] {
			return kit.Failf("c09/retyped/not-the-union"+feat, "row %d has key %d, the sorted union of the converted inputs has %d (inputs %+v)", i, got[i], want[i], c.Inputs)
		}
	}
	o.ClassIf(retyped, "key-retyped")
	o.ClassIf(c.Buffer, "buffers")
	if retyped {
		o.NonTrivial()
	}
	return nil
}

func readKeys(r parquet.Rows, batch int) ([]int64, error) {
	defer r.Close()
	var keys []int64
	buf := make([]parquet.Row, batch)
	for {
		n, err := r.ReadRows(buf)
		for _, row := range buf[:n] {
			for _, v := range row {
				if v.Column() == 0 {
					if v.Kind() == parquet.Int32 {
						keys = append(keys, int64(v.Int32()))
					} else {
						keys = append(keys, v.Int64())
					}
				}
			}
		}
		if err != nil {
			if err.Error() == "EOF" {
				return keys, nil
			}
			return keys, err
		}
		if n == 0 {
			return keys, fmt.Errorf("ReadRows returned 0, nil")
		}
	}
}

var retypeSpec = &kit.Spec[RetypeCase]{
	Property: "C09",
	Name:     "retyped-key",
	Rule: "2-4 inputs (row groups of files written with sorting columns and small pages, or sorted Buffers), each an arithmetic key stretch of 1-120 or 1024-2600 rows whose key is stored as a timestamp in milli / micro / nanoseconds (or as int32 / int64), merged by MergeRowGroups into a schema that declares one of these types with the key as sorting column: " +
		"the merged rows are sorted by the (converted) key and are exactly the sorted union of what ConvertRowGroup(input).Rows() yields for each input. Non-trivial = an input whose key type differs from the target's.",
	Assumptions: []string{"cases where the row-path conversion of an input is not monotone are skipped (none with these types)"},
	Gen:         genRetypeCase,
	Run:         runRetypeCase,
}

func TestPropRetypedKey(t *testing.T) { kit.Both(t, retypeSpec) }
