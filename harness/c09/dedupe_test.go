package c09

import (
	"bytes"
	"fmt"
	"io"
	"testing"

	"github.com/parquet-go/parquet-go"
	"pgregory.net/rapid"

	"verifharness/kit"
)

// DedupeCase: rows sorted by a byte array key, some keys repeated, pushed
// through DedupeRowWriter or pulled through DedupeRowReader in batches whose
// memory is REUSED from one call to the next, as the RowWriter / RowReader
// contracts allow (rows are only valid during the call / until the next call).
type DedupeCase struct {
	Keys    []int  `json:"keys"`    // non-decreasing key numbers
	Batches []int  `json:"batches"` // batch sizes (cycled)
	Side    string `json:"side"`    // writer | reader
}

func genDedupeCase(t *rapid.T) DedupeCase {
	var c DedupeCase
	k := 0
	n := rapid.IntRange(1, 40).Draw(t, "n")
	for i := 0; i < n; i++ {
		if rapid.IntRange(0, 2).Draw(t, "adv") != 0 {
			k++
		}
		c.Keys = append(c.Keys, k)
	}
	nb := rapid.IntRange(1, 4).Draw(t, "nb")
	for i := 0; i < nb; i++ {
		c.Batches = append(c.Batches, rapid.IntRange(1, 5).Draw(t, "b"))
	}
	c.Side = []string{"writer", "reader"}[rapid.IntRange(0, 1).Draw(t, "side")]
	return c
}

type collect struct{ rows []parquet.Row }

func (c *collect) WriteRows(rows []parquet.Row) (int, error) {
	for _, r := range rows {
		c.rows = append(c.rows, r.Clone())
	}
	return len(rows), nil
}

// scratchReader serves the rows in batches out of one scratch buffer that it overwrites at every call.
type scratchReader struct {
	c       DedupeCase
	pos, bi int
	scratch []byte
}

func keyBytes(k int) []byte { return []byte(fmt.Sprintf("key-%03d", k)) }

func (c DedupeCase) fill(scratch []byte, rows []parquet.Row, from, n int) []byte {
	scratch = scratch[:0]
	for i := 0; i < n; i++ {
		off := len(scratch)
		scratch = append(scratch, keyBytes(c.Keys[from+i])...)
		// every batch overwrites the same bytes: the values of the previous batch change under whoever kept them
		rows[i] = append(rows[i][:0], parquet.ByteArrayValue(scratch[off:len(scratch):len(scratch)]).Level(0, 0, 0), parquet.Int64Value(int64(from+i)).Level(0, 0, 1))
	}
	return scratch
}

func (r *scratchReader) ReadRows(rows []parquet.Row) (int, error) {
	if r.pos >= len(r.c.Keys) {
		return 0, io.EOF
	}
	n := min(r.c.Batches[r.bi%len(r.c.Batches)], len(r.c.Keys)-r.pos, len(rows))
	r.bi++
	if cap(r.scratch) < 8*n {
		r.scratch = make([]byte, 0, 64)
	}
	r.scratch = r.c.fill(r.scratch, rows, r.pos, n)
	r.pos += n
	return n, nil
}

func runDedupeCase(c DedupeCase, o *kit.Obs) *kit.Failure {
	schema := parquet.NewSchema("t", parquet.Group{"a_key": parquet.String(), "b_id": parquet.Int(64)})
	cmp := schema.Comparator(parquet.Ascending("a_key"))
	var got []parquet.Row
	feat := "{side=" + c.Side + "}"
	if c.Side == "writer" {
		sink := &collect{}
		w := parquet.DedupeRowWriter(sink, cmp)
		scratch := make([]byte, 0, 64)
		batch := make([]parquet.Row, 5)
		for pos, bi := 0, 0; pos < len(c.Keys); bi++ {
			n := min(c.Batches[bi%len(c.Batches)], len(c.Keys)-pos)
			scratch = c.fill(scratch, batch, pos, n)
			if k, err := w.WriteRows(batch[:n]); err != nil || k != n {
				return kit.Failf("c09/dedupe/write-error"+feat, "WriteRows(%d rows) returned %d, %v", n, k, err)
			}
			pos += n
		}
		got = sink.rows
	} else {
		r := parquet.DedupeRowReader(&scratchReader{c: c}, cmp)
		buf := make([]parquet.Row, 7)
		for {
			n, err := r.ReadRows(buf)
			for _, row := range buf[:n] {
				got = append(got, row.Clone())
			}
			if err != nil {
				break
			}
		}
	}
	var want []int
	for i, k := range c.Keys {
		if i == 0 || k != c.Keys[i-1] {
			want = append(want, k)
		}
	}
	if len(got) != len(want) {
		return kit.Failf("c09/dedupe/count"+feat, "%d rows out, %d distinct keys in (keys %v, batches %v)", len(got), len(want), c.Keys, c.Batches)
	}
	for i, row := range got {
		if !bytes.Equal(row[0].ByteArray(), keyBytes(want[i])) {
			return kit.Failf("c09/dedupe/wrong-row"+feat, "output row %d has key %q, want %q", i, row[0].ByteArray(), keyBytes(want[i]))
		}
	}
	o.Class("side-" + c.Side)
	if len(want) >= 2 && len(c.Keys) > len(want) {
		o.NonTrivial()
	}
	return nil
}

var dedupeSpec = &kit.Spec[DedupeCase]{
	Property: "C09",
	Name:     "dedupe",
	Rule: "1-40 rows sorted by a string key with repeated keys, through DedupeRowWriter (pushed) or DedupeRowReader (pulled) in batches of 1-5 rows whose key bytes live in one scratch buffer overwritten at every call " +
		"(rows passed to WriteRows are only valid during the call, rows returned by ReadRows until the next call): exactly one row per distinct key, in order. Non-trivial = at least two distinct keys and one duplicate.",
	Gen: genDedupeCase,
	Run: runDedupeCase,
}

func TestPropDedupe(t *testing.T) { kit.Both(t, dedupeSpec) }
