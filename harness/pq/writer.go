package pq

import (
	"bytes"
	"errors"
	"fmt"
	"io"
	"os"

	"github.com/parquet-go/parquet-go"

	"verifharness/gen"
	"verifharness/ref"
)

var physKinds = map[string]parquet.Kind{
	"BOOLEAN": parquet.Boolean, "INT32": parquet.Int32, "INT64": parquet.Int64, "INT96": parquet.Int96,
	"FLOAT": parquet.Float, "DOUBLE": parquet.Double, "BYTE_ARRAY": parquet.ByteArray, "FIXED_LEN_BYTE_ARRAY": parquet.FixedLenByteArray,
}

// Options turns the serialisable options into parquet writer options. tmpdir
// is used by file-backed buffer pools.
func Options(o gen.WriterOpts, cols []ref.Column, tmpdir string) []parquet.WriterOption {
	var out []parquet.WriterOption
	if o.PageVersion != 0 {
		out = append(out, parquet.DataPageVersion(o.PageVersion))
	}
	if o.PageBuf != 0 {
		out = append(out, parquet.PageBufferSize(o.PageBuf))
	}
	if o.MaxRows != 0 {
		out = append(out, parquet.MaxRowsPerRowGroup(o.MaxRows))
	}
	switch {
	case o.WriteBuf < 0:
		out = append(out, parquet.WriteBufferSize(0))
	case o.WriteBuf > 0:
		out = append(out, parquet.WriteBufferSize(o.WriteBuf))
	}
	if o.Codec != "" {
		out = append(out, parquet.Compression(Codec(o.Codec)))
	}
	if o.DictMax != 0 {
		out = append(out, parquet.DictionaryMaxBytes(o.DictMax))
	}
	for _, name := range gen.PhysNames { // fixed order
		if e, ok := o.DefaultEnc[name]; ok && e != "" {
			out = append(out, parquet.DefaultEncodingFor(physKinds[name], Encoding(e)))
		}
	}
	switch o.PageStats {
	case 1:
		out = append(out, parquet.DataPageStatistics(true))
	case 2:
		out = append(out, parquet.DataPageStatistics(false))
	}
	if o.DeprecatedStats {
		out = append(out, parquet.DeprecatedDataPageStatistics(true))
	}
	for _, c := range o.SkipBounds {
		if c < len(cols) {
			out = append(out, parquet.SkipPageBounds(cols[c].Path...))
		}
	}
	for _, c := range o.SkipStats {
		if c < len(cols) {
			out = append(out, parquet.SkipPageStatistics(cols[c].Path...))
		}
	}
	if o.IndexLimit != 0 {
		lim := o.IndexLimit
		out = append(out, parquet.ColumnIndexSizeLimit(func([]string) int { return lim }))
	}
	if len(o.Bloom) > 0 {
		var fs []parquet.BloomFilterColumn
		for _, b := range o.Bloom {
			if b.Col < len(cols) {
				fs = append(fs, parquet.SplitBlockFilter(uint(b.Bits), cols[b.Col].Path...))
			}
		}
		out = append(out, parquet.BloomFilters(fs...))
		if o.BloomCodec != "" {
			out = append(out, parquet.BloomFilterCompression(Codec(o.BloomCodec)))
		}
		if o.DeferBloom {
			out = append(out, parquet.DeferBloomFiltersWithBuffers(parquet.NewBufferPool()))
		}
	}
	for _, kv := range o.KV {
		out = append(out, parquet.KeyValueMetadata(kv[0], kv[1]))
	}
	switch o.Pool {
	case "chunk":
		out = append(out, parquet.ColumnPageBuffers(parquet.NewChunkBufferPool(64)))
	case "file":
		out = append(out, parquet.ColumnPageBuffers(parquet.NewFileBufferPool(tmpdir, "verif-*.buf")))
	}
	return out
}

// TempDir returns a scratch directory (under $TMPDIR, which the driver points
// into the shard's work directory) when the options need one.
func TempDir(o gen.WriterOpts) (string, func()) {
	if o.Pool != "file" {
		return "", func() {}
	}
	d, err := os.MkdirTemp("", "verif-pool-")
	if err != nil {
		panic(err)
	}
	return d, func() { os.RemoveAll(d) }
}

// RowWriter is the part of Writer / GenericWriter the histories use.
type RowWriter interface {
	WriteRows([]parquet.Row) (int, error)
	Flush() error
	Close() error
}

// ApplyOps drives a row writer with the history. It fails if a write is short
// without an error.
func ApplyOps(w RowWriter, rows []parquet.Row, ops []gen.Op) error {
	i := 0
	for _, op := range ops {
		switch op.Kind {
		case "w":
			n := op.N
			if i+n > len(rows) {
				n = len(rows) - i
			}
			k, err := w.WriteRows(rows[i : i+n])
			if err != nil {
				return fmt.Errorf("WriteRows(%d rows at %d): %w", n, i, err)
			}
			if k != n {
				return fmt.Errorf("WriteRows(%d rows at %d) returned %d, nil", n, i, k)
			}
			i += n
		case "f":
			if err := w.Flush(); err != nil {
				return fmt.Errorf("Flush: %w", err)
			}
		}
	}
	if i < len(rows) {
		k, err := w.WriteRows(rows[i:])
		if err != nil {
			return fmt.Errorf("WriteRows(tail): %w", err)
		}
		if k != len(rows)-i {
			return fmt.Errorf("WriteRows(tail %d) returned %d, nil", len(rows)-i, k)
		}
	}
	return nil
}

// WriteFile writes rows through parquet.Writer.WriteRows following the history.
func WriteFile(root *ref.Node, cols []ref.Column, rows []ref.V, o gen.WriterOpts, ops []gen.Op) ([]byte, error) {
	return WriteFileWith(root, cols, rows, o, ops)
}

// FooterKeyOnly is a key retriever holding one key used for the footer and every column.
type FooterKeyOnly []byte

func (k FooterKeyOnly) FooterKey([]byte) ([]byte, error)           { return k, nil }
func (k FooterKeyOnly) ColumnKey([]string, []byte) ([]byte, error) { return k, nil }

// WriteFileWith is WriteFile with additional writer options (e.g. encryption).
func WriteFileWith(root *ref.Node, cols []ref.Column, rows []ref.V, o gen.WriterOpts, ops []gen.Op, extra ...parquet.WriterOption) ([]byte, error) {
	tmp, cleanup := TempDir(o)
	defer cleanup()
	schema := BuildSchema(root)
	opts := append([]parquet.WriterOption{schema}, Options(o, cols, tmp)...)
	opts = append(opts, extra...)
	if _, err := parquet.NewWriterConfig(opts...); err != nil {
		return nil, &ConfigError{err}
	}
	var buf bytes.Buffer
	w := parquet.NewWriter(&buf, opts...)
	if err := ApplyOps(w, Rows(root, cols, rows), ops); err != nil {
		return nil, err
	}
	if err := w.Close(); err != nil {
		return nil, fmt.Errorf("Close: %w", err)
	}
	return buf.Bytes(), nil
}

// ConfigError marks a configuration rejected by the library's constructor.
type ConfigError struct{ Err error }

func (e *ConfigError) Error() string { return "config rejected: " + e.Err.Error() }

// Open opens file bytes.
func Open(data []byte, opts ...parquet.FileOption) (*parquet.File, error) {
	return parquet.OpenFile(bytes.NewReader(data), int64(len(data)), opts...)
}

// ReadAllRows drains a Rows reader with the given batch size, cloning rows.
func ReadAllRows(r parquet.RowReader, batch int) ([]parquet.Row, error) {
	if batch <= 0 {
		batch = 17
	}
	var out []parquet.Row
	buf := make([]parquet.Row, batch)
	zero := 0
	for {
		n, err := r.ReadRows(buf)
		for _, row := range buf[:n] {
			out = append(out, row.Clone())
		}
		if err != nil {
			if errors.Is(err, io.EOF) {
				return out, nil
			}
			return out, err
		}
		if n == 0 {
			zero++
			if zero > 3 {
				return out, fmt.Errorf("ReadRows returned 0, nil repeatedly")
			}
		} else {
			zero = 0
		}
	}
}

// FileStreams reads every row group of the file sequentially through
// RowGroup.Rows and returns per-column streams plus the per-row-group row counts.
func FileStreams(f *parquet.File, cols []ref.Column, batch int) ([][]ref.LV, []int64, error) {
	out := make([][]ref.LV, len(cols))
	var counts []int64
	for gi, rg := range f.RowGroups() {
		rows := rg.Rows()
		got, err := ReadAllRows(rows, batch)
		rows.Close()
		if err != nil {
			return nil, nil, fmt.Errorf("row group %d: %w", gi, err)
		}
		if int64(len(got)) != rg.NumRows() {
			return nil, nil, fmt.Errorf("row group %d: NumRows()=%d but %d rows read", gi, rg.NumRows(), len(got))
		}
		counts = append(counts, rg.NumRows())
		s, err := Streams(cols, got)
		if err != nil {
			return nil, nil, fmt.Errorf("row group %d: %w", gi, err)
		}
		for c := range out {
			out[c] = append(out[c], s[c]...)
		}
	}
	return out, counts, nil
}
