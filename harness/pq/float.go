package pq

import "math"

func f32(b uint32) float32     { return math.Float32frombits(b) }
func f64(b uint64) float64     { return math.Float64frombits(b) }
func f32bits(f float32) uint32 { return math.Float32bits(f) }
func f64bits(f float64) uint64 { return math.Float64bits(f) }
