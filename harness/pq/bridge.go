// Package pq bridges the abstract model of package ref to parquet-go's public
// API: schema construction, rows from Dremel streams and back, named
// encodings and codecs.
package pq

import (
	"fmt"
	"strconv"
	"strings"

	"github.com/parquet-go/parquet-go"
	"github.com/parquet-go/parquet-go/compress"
	"github.com/parquet-go/parquet-go/deprecated"
	"github.com/parquet-go/parquet-go/encoding"

	"verifharness/ref"
)

// LeafNode builds the parquet node of a leaf id.
func LeafNode(id string) parquet.Node {
	parts := strings.Split(id, ":")
	atoi := func(i int) int { n, _ := strconv.Atoi(parts[i]); return n }
	switch parts[0] {
	case "bool":
		return parquet.Leaf(parquet.BooleanType)
	case "int32":
		return parquet.Leaf(parquet.Int32Type)
	case "int64":
		return parquet.Leaf(parquet.Int64Type)
	case "int8":
		return parquet.Int(8)
	case "int16":
		return parquet.Int(16)
	case "uint8":
		return parquet.Uint(8)
	case "uint16":
		return parquet.Uint(16)
	case "uint32":
		return parquet.Uint(32)
	case "uint64":
		return parquet.Uint(64)
	case "int96":
		return parquet.Leaf(parquet.Int96Type)
	case "float":
		return parquet.Leaf(parquet.FloatType)
	case "double":
		return parquet.Leaf(parquet.DoubleType)
	case "bytes":
		return parquet.Leaf(parquet.ByteArrayType)
	case "string":
		return parquet.String()
	case "json":
		return parquet.JSON()
	case "bson":
		return parquet.BSON()
	case "enum":
		return parquet.Enum()
	case "flba":
		return parquet.Leaf(parquet.FixedLenByteArrayType(atoi(1)))
	case "uuid":
		return parquet.UUID()
	case "date":
		return parquet.Date()
	case "time":
		switch parts[1] {
		case "ms":
			return parquet.Time(parquet.Millisecond)
		case "us":
			return parquet.Time(parquet.Microsecond)
		default:
			return parquet.Time(parquet.Nanosecond)
		}
	case "ts":
		switch parts[1] {
		case "ms":
			return parquet.Timestamp(parquet.Millisecond)
		case "us":
			return parquet.Timestamp(parquet.Microsecond)
		default:
			return parquet.Timestamp(parquet.Nanosecond)
		}
	case "dec32":
		return parquet.Decimal(atoi(2), atoi(1), parquet.Int32Type)
	case "dec64":
		return parquet.Decimal(atoi(2), atoi(1), parquet.Int64Type)
	case "decflba":
		return parquet.Decimal(atoi(3), atoi(2), parquet.FixedLenByteArrayType(atoi(1)))
	case "decbytes":
		return parquet.Decimal(atoi(2), atoi(1), parquet.ByteArrayType)
	}
	panic("pq: unknown leaf id " + id)
}

// Encoding returns the named encoding ("" → nil).
func Encoding(name string) encoding.Encoding {
	switch name {
	case "":
		return nil
	case "plain":
		return &parquet.Plain
	case "dict":
		return &parquet.RLEDictionary
	case "delta":
		return &parquet.DeltaBinaryPacked
	case "dlba":
		return &parquet.DeltaLengthByteArray
	case "dba":
		return &parquet.DeltaByteArray
	case "bss":
		return &parquet.ByteStreamSplit
	case "rle":
		return &parquet.RLE
	}
	panic("pq: unknown encoding " + name)
}

// EncodingNames lists every encoding name the harness knows.
var EncodingNames = []string{"plain", "dict", "delta", "dlba", "dba", "bss", "rle"}

// CanEncode mirrors the library's documented rule: a dictionary encoding fits
// every type, any other encoding must support the physical type.
func CanEncode(name string, phys int) bool {
	if name == "" || name == "dict" {
		return true
	}
	if name == "rle" && phys != ref.Boolean {
		// the hybrid RLE encoding is a data encoding only for BOOLEAN (spec);
		// the library accepts the option for INT32 but fails at the first page.
		return false
	}
	e := Encoding(name)
	switch phys {
	case ref.Boolean:
		return encoding.CanEncodeBoolean(e)
	case ref.Int32:
		return encoding.CanEncodeInt32(e)
	case ref.Int64:
		return encoding.CanEncodeInt64(e)
	case ref.Int96:
		return encoding.CanEncodeInt96(e)
	case ref.Float:
		return encoding.CanEncodeFloat(e)
	case ref.Double:
		return encoding.CanEncodeDouble(e)
	case ref.ByteArr:
		return encoding.CanEncodeByteArray(e)
	case ref.FLBA:
		return encoding.CanEncodeFixedLenByteArray(e)
	}
	return false
}

// ValidEncodings returns the encoding names usable for a physical type
// (including "" = writer default).
func ValidEncodings(phys int) []string {
	out := []string{""}
	for _, n := range EncodingNames {
		if CanEncode(n, phys) {
			out = append(out, n)
		}
	}
	return out
}

// CodecNames lists the codecs.
var CodecNames = []string{"none", "snappy", "gzip", "zstd", "brotli", "lz4"}

// Codec returns the named codec ("" → nil).
func Codec(name string) compress.Codec {
	switch name {
	case "":
		return nil
	case "none":
		return &parquet.Uncompressed
	case "snappy":
		return &parquet.Snappy
	case "gzip":
		return &parquet.Gzip
	case "zstd":
		return &parquet.Zstd
	case "brotli":
		return &parquet.Brotli
	case "lz4":
		return &parquet.Lz4Raw
	}
	panic("pq: unknown codec " + name)
}

// BuildNode builds the parquet node of an abstract node.
func BuildNode(n *ref.Node) parquet.Node {
	var node parquet.Node
	switch n.Kind {
	case "leaf":
		node = LeafNode(n.Leaf)
		if n.Enc != "" {
			node = parquet.Encoded(node, Encoding(n.Enc))
		}
		if n.Codec != "" {
			node = parquet.Compressed(node, Codec(n.Codec))
		}
	case "group":
		node = buildGroup(n)
	case "list":
		node = parquet.List(BuildNode(&n.Children[0]))
	case "map":
		node = parquet.Map(BuildNode(&n.Children[0]), BuildNode(&n.Children[1]))
	default:
		panic("pq: bad kind " + n.Kind)
	}
	switch n.Rep {
	case "opt":
		node = parquet.Optional(node)
	case "rep":
		node = parquet.Repeated(node)
	case "req":
		if n.Kind != "group" || true {
			node = parquet.Required(node)
		}
	}
	return node
}

// orderedGroup is a group node whose fields keep a declared order (like the
// schema of a Go struct or of an opened file); parquet.Group itself is a map
// and always lists its fields sorted by name.
type orderedGroup struct {
	parquet.Group
	names []string
}

func (g orderedGroup) Fields() []parquet.Field {
	byName := map[string]parquet.Field{}
	for _, f := range g.Group.Fields() {
		byName[f.Name()] = f
	}
	out := make([]parquet.Field, len(g.names))
	for i, n := range g.names {
		out[i] = byName[n]
	}
	return out
}

func (g orderedGroup) String() string { return fmt.Sprint(g.names) }

// buildGroup returns a parquet.Group when the children are declared in name
// order and an orderedGroup otherwise, so the library sees the model's order.
func buildGroup(n *ref.Node) parquet.Node {
	g := parquet.Group{}
	names := make([]string, len(n.Children))
	sorted := true
	for i := range n.Children {
		names[i] = n.Children[i].Name
		g[names[i]] = BuildNode(&n.Children[i])
		if i > 0 && names[i-1] >= names[i] {
			sorted = false
		}
	}
	if sorted {
		return g
	}
	return orderedGroup{Group: g, names: names}
}

// BuildSchema builds the parquet schema of a root group.
func BuildSchema(root *ref.Node) *parquet.Schema {
	g := buildGroup(root)
	name := root.Name
	if name == "" {
		name = "root"
	}
	return parquet.NewSchema(name, g)
}

// ToValue converts a stream entry into a parquet value for column col.
func ToValue(l ref.Leaf, e ref.LV, col int) parquet.Value {
	if e.Null {
		return parquet.NullValue().Level(e.Rep, e.Def, col)
	}
	return Scalar(l, e.I, e.B).Level(e.Rep, e.Def, col)
}

// Scalar builds a level-less parquet value.
func Scalar(l ref.Leaf, i int64, b []byte) parquet.Value {
	switch l.Phys {
	case ref.Boolean:
		return parquet.BooleanValue(i != 0)
	case ref.Int32:
		return parquet.Int32Value(int32(i))
	case ref.Int64:
		return parquet.Int64Value(i)
	case ref.Int96:
		var x deprecated.Int96
		bb := make([]byte, 12)
		copy(bb, b)
		x[0] = le32(bb[0:])
		x[1] = le32(bb[4:])
		x[2] = le32(bb[8:])
		return parquet.Int96Value(x)
	case ref.Float:
		return parquet.FloatValue(f32(uint32(i)))
	case ref.Double:
		return parquet.DoubleValue(f64(uint64(i)))
	case ref.ByteArr:
		if b == nil {
			b = []byte{}
		}
		return parquet.ByteArrayValue(b)
	case ref.FLBA:
		return parquet.FixedLenByteArrayValue(b)
	}
	panic("pq: bad physical type")
}

func le32(b []byte) uint32 {
	return uint32(b[0]) | uint32(b[1])<<8 | uint32(b[2])<<16 | uint32(b[3])<<24
}

// FromValue converts a parquet value read from the library into a stream entry.
func FromValue(l ref.Leaf, v parquet.Value) ref.LV {
	e := ref.LV{Rep: v.RepetitionLevel(), Def: v.DefinitionLevel()}
	if v.IsNull() {
		e.Null = true
		return e
	}
	switch v.Kind() {
	case parquet.Boolean:
		if v.Boolean() {
			e.I = 1
		}
	case parquet.Int32:
		e.I = int64(v.Int32())
	case parquet.Int64:
		e.I = v.Int64()
	case parquet.Int96:
		x := v.Int96()
		b := make([]byte, 12)
		for k := 0; k < 3; k++ {
			b[4*k], b[4*k+1], b[4*k+2], b[4*k+3] = byte(x[k]), byte(x[k]>>8), byte(x[k]>>16), byte(x[k]>>24)
		}
		e.B = b
	case parquet.Float:
		e.I = int64(int32(f32bits(v.Float())))
	case parquet.Double:
		e.I = int64(f64bits(v.Double()))
	case parquet.ByteArray, parquet.FixedLenByteArray:
		e.B = append([]byte{}, v.ByteArray()...)
	default:
		panic(fmt.Sprintf("pq: unexpected value kind %v", v.Kind()))
	}
	return e
}

// Rows shreds value trees into parquet rows (values grouped by column, in
// column order, as Schema.Deconstruct produces them).
func Rows(root *ref.Node, cols []ref.Column, rows []ref.V) []parquet.Row {
	out := make([]parquet.Row, len(rows))
	streams := make([][]ref.LV, len(cols))
	for i, r := range rows {
		for c := range streams {
			streams[c] = streams[c][:0]
		}
		ref.Shred(root, r, streams)
		var row parquet.Row
		for c := range streams {
			for _, e := range streams[c] {
				row = append(row, ToValue(cols[c].Leaf, e, c))
			}
		}
		out[i] = row
	}
	return out
}

// Streams splits parquet rows back into per-column streams.
func Streams(cols []ref.Column, rows []parquet.Row) ([][]ref.LV, error) {
	out := make([][]ref.LV, len(cols))
	for ri, row := range rows {
		for _, v := range row {
			c := v.Column()
			if c < 0 || c >= len(cols) {
				return nil, fmt.Errorf("row %d: value with column index %d (have %d columns)", ri, c, len(cols))
			}
			out[c] = append(out[c], FromValue(cols[c].Leaf, v))
		}
	}
	return out, nil
}

// DiffStreams compares expected and actual per-column streams.
func DiffStreams(cols []ref.Column, want, got [][]ref.LV) string {
	for c := range cols {
		w, g := want[c], got[c]
		n := len(w)
		if len(g) < n {
			n = len(g)
		}
		for i := 0; i < n; i++ {
			if !NormEqual(cols[c].Leaf, w[i], g[i]) {
				return fmt.Sprintf("column %d (%s %s) entry %d: want %v got %v", c, strings.Join(cols[c].Path, "."), cols[c].Leaf.ID, i, w[i], g[i])
			}
		}
		if len(w) != len(g) {
			return fmt.Sprintf("column %d (%s): want %d entries got %d", c, strings.Join(cols[c].Path, "."), len(w), len(g))
		}
	}
	return ""
}

// NormEqual compares two stream entries; INT32-backed values are compared on
// their low 32 bits (the model keeps them sign-extended, unsigned logical
// types may come back zero-extended).
func NormEqual(l ref.Leaf, a, b ref.LV) bool {
	if a.Null != b.Null || a.Rep != b.Rep || a.Def != b.Def {
		return false
	}
	if a.Null {
		return true
	}
	switch l.Phys {
	case ref.Boolean:
		return (a.I != 0) == (b.I != 0)
	case ref.Int32, ref.Float:
		return uint32(a.I) == uint32(b.I)
	case ref.Int64, ref.Double:
		return a.I == b.I
	default:
		return string(a.B) == string(b.B)
	}
}

// RowsToTrees assembles each parquet row back into a value tree.
func RowsToTrees(root *ref.Node, cols []ref.Column, rows []parquet.Row) ([]ref.V, error) {
	out := make([]ref.V, len(rows))
	for i, row := range rows {
		s, err := Streams(cols, []parquet.Row{row})
		if err != nil {
			return nil, fmt.Errorf("row %d: %w", i, err)
		}
		for c := range s {
			if len(s[c]) == 0 {
				return nil, fmt.Errorf("row %d: no value for column %d (%s)", i, c, strings.Join(cols[c].Path, "."))
			}
			if s[c][0].Rep != 0 {
				return nil, fmt.Errorf("row %d column %d: first repetition level is %d", i, c, s[c][0].Rep)
			}
			for k, e := range s[c] {
				if e.Rep > cols[c].MaxRep || e.Def > cols[c].MaxDef || (k > 0 && e.Rep == 0) {
					return nil, fmt.Errorf("row %d column %d entry %d: invalid levels r%d d%d (max r%d d%d)", i, c, k, e.Rep, e.Def, cols[c].MaxRep, cols[c].MaxDef)
				}
				if e.Null != (e.Def < cols[c].MaxDef) {
					return nil, fmt.Errorf("row %d column %d entry %d: null=%v but definition level %d of %d", i, c, k, e.Null, e.Def, cols[c].MaxDef)
				}
			}
		}
		v, err := ref.Assemble(root, s)
		if err != nil {
			return nil, fmt.Errorf("row %d: %w", i, err)
		}
		out[i] = v
	}
	return out, nil
}
