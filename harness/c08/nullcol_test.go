package c08

import (
	"fmt"
	"io"
	"testing"

	"github.com/parquet-go/parquet-go"
	"pgregory.net/rapid"

	"verifharness/kit"
)

// NullColCase: a Buffer holding a column of the NULL type next to a key
// column; seeks and reads on its rows and on the pages of the NULL column.
type NullColCase struct {
	Rows  int      `json:"rows"`
	Opt   bool     `json:"opt"`   // the NULL column is optional (else required)
	Pages bool     `json:"pages"` // read through the pages of the column (else through Rows)
	Ops   [][2]int `json:"ops"`   // (seek target per mille, or -1 for no seek; rows / values to read)
}

func genNullColCase(t *rapid.T) NullColCase {
	c := NullColCase{Rows: rapid.IntRange(1, 60).Draw(t, "rows"), Opt: rapid.Bool().Draw(t, "opt"), Pages: rapid.Bool().Draw(t, "pages")}
	for n := rapid.IntRange(1, 8).Draw(t, "nops"); n > 0; n-- {
		seek := -1
		if rapid.Bool().Draw(t, "seek") {
			seek = rapid.IntRange(0, 1000).Draw(t, "to")
		}
		c.Ops = append(c.Ops, [2]int{seek, []int{1, 2, 5, 17, 100}[rapid.IntRange(0, 4).Draw(t, "n")]})
	}
	return c
}

func runNullColCase(c NullColCase, o *kit.Obs) (fl *kit.Failure) {
	defer func() {
		if r := recover(); r != nil {
			fl = kit.Failf("c08/nullcol/panic", "%v", r)
		}
	}()
	var n parquet.Node = parquet.Leaf(parquet.NullType)
	if c.Opt {
		n = parquet.Optional(n)
	}
	b := parquet.NewBuffer(parquet.NewSchema("t", parquet.Group{"a": parquet.Int(64), "n": n}))
	for i := 0; i < c.Rows; i++ {
		if _, err := b.WriteRows([]parquet.Row{{parquet.Int64Value(int64(i)).Level(0, 0, 0), parquet.NullValue().Level(0, 0, 1)}}); err != nil {
			o.Rejected()
			return nil
		}
	}
	feat := fmt.Sprintf("{pages=%v,opt=%v}", c.Pages, c.Opt)
	cursor := 0
	if c.Pages {
		pages := b.ColumnChunks()[1].Pages()
		defer pages.Close()
		for i, op := range c.Ops {
			if op[0] >= 0 {
				cursor = c.Rows * op[0] / 1000
				if err := pages.SeekToRow(int64(cursor)); err != nil {
					return kit.Failf("c08/nullcol/seek-error"+feat, "op %d: SeekToRow(%d): %v", i, cursor, err)
				}
			}
			p, err := pages.ReadPage()
			if err != nil {
				if err == io.EOF && cursor >= c.Rows {
					continue
				}
				return kit.Failf("c08/nullcol/read-error"+feat, "op %d: ReadPage at row %d of %d: %v", i, cursor, c.Rows, err)
			}
			if cursor >= c.Rows && p.NumRows() > 0 {
				return kit.Failf("c08/nullcol/read-past-end"+feat, "op %d: a page of %d rows at row %d of %d", i, p.NumRows(), cursor, c.Rows)
			}
			count := 0
			vr := p.Values()
			for {
				vals := make([]parquet.Value, op[1])
				k, err := vr.ReadValues(vals)
				for _, v := range vals[:k] {
					if !v.IsNull() || v.Column() != 1 {
						return kit.Failf("c08/nullcol/value"+feat, "op %d: value %+v in the NULL column", i, v)
					}
				}
				count += k
				if err != nil || k == 0 {
					break
				}
			}
			if int64(count) != p.NumRows() || count != c.Rows-cursor {
				return kit.Failf("c08/nullcol/page-rows"+feat, "op %d: the page read at row %d of %d says %d rows and delivered %d values", i, cursor, c.Rows, p.NumRows(), count)
			}
			if p.Type() == nil {
				return kit.Failf("c08/nullcol/page-type"+feat, "op %d: the page read at row %d has no type", i, cursor)
			}
			cursor = c.Rows
		}
	} else {
		rows := b.Rows()
		defer rows.Close()
		for i, op := range c.Ops {
			if op[0] >= 0 {
				cursor = c.Rows * op[0] / 1000
				if err := rows.SeekToRow(int64(cursor)); err != nil {
					return kit.Failf("c08/nullcol/seek-error"+feat, "op %d: SeekToRow(%d): %v", i, cursor, err)
				}
			}
			buf := make([]parquet.Row, op[1])
			k, err := rows.ReadRows(buf)
			if err != nil && err != io.EOF {
				return kit.Failf("c08/nullcol/read-error"+feat, "op %d: ReadRows at row %d of %d: %v", i, cursor, c.Rows, err)
			}
			if want := min(op[1], c.Rows-cursor); k != want && !(k > 0 && k < want && err == nil) {
				return kit.Failf("c08/nullcol/rows-differ"+feat, "op %d: ReadRows(%d) at row %d of %d returned %d rows, %v", i, op[1], cursor, c.Rows, k, err)
			}
			for j, row := range buf[:k] {
				if len(row) != 2 || row[0].Int64() != int64(cursor+j) || !row[1].IsNull() || row[1].Column() != 1 {
					return kit.Failf("c08/nullcol/rows-differ"+feat, "op %d: row %d read as %+v", i, cursor+j, row)
				}
			}
			cursor += k
		}
	}
	o.Class(feat)
	for _, op := range c.Ops {
		if op[0] > 0 {
			o.NonTrivial()
		}
	}
	return nil
}

var nullColSpec = &kit.Spec[NullColCase]{
	Property: "C08",
	Name:     "nullcolumn",
	Rule: "a Buffer of 1-60 rows with an int64 key and a column of the NULL type (required or optional); generated SeekToRow / read histories on Buffer.Rows() and on the pages of the NULL column: " +
		"the rows (key and one null) resp. the page (rows remaining after the seek position, all nulls, typed) are those of a sequential read from that row. Non-trivial = a seek beyond row 0.",
	Gen: genNullColCase,
	Run: runNullColCase,
}

func TestPropNullColumn(t *testing.T) { kit.Both(t, nullColSpec) }
