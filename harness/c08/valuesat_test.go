package c08

import (
	"errors"
	"fmt"
	"io"
	"sort"
	"testing"

	"github.com/parquet-go/parquet-go"
	"pgregory.net/rapid"

	"verifharness/gen"
	"verifharness/kit"
	"verifharness/pq"
	"verifharness/ref"
)

// AtCase: the column buffers of an in-memory Buffer read at arbitrary value
// offsets (ColumnBuffer.ReadValuesAt): the values and levels returned must be
// the ones a sequential read of the column yields from that offset.
type AtCase struct {
	Schema ref.Node    `json:"schema"`
	Plan   gen.RowPlan `json:"plan"`
	Reads  [][2]int    `json:"reads"` // (offset per mille of the column's values, count)
	Keys   []int       `json:"keys,omitempty"` // a leading required key column holding this permutation; the buffer is sorted by it before the reads
	Paged  bool        `json:"paged,omitempty"` // the pages of the columns are read once before ReadValuesAt
}

func genAtCase(t *rapid.T) AtCase {
	var c AtCase
	c.Schema = gen.Schema(t, gen.SchemaOpts{MaxDepth: 2, MaxLeaves: 4})
	if rapid.Bool().Draw(t, "sorted") {
		c.Schema.Children = append([]ref.Node{{Name: "akey", Rep: "req", Kind: "leaf", Leaf: "int64"}}, c.Schema.Children...)
	}
	c.Plan = gen.RowsAtLeast(t, &c.Schema, 6, 1, 80, gen.ValueOpts{Style: gen.SmallDom, Leaf: gen.Opts{MaxBytes: 8}})
	if c.Schema.Children[0].Name == "akey" {
		ids := make([]int, c.Plan.NumRows())
		for i := range ids {
			ids[i] = i
		}
		c.Keys = rapid.Permutation(ids).Draw(t, "keys")
		c.Paged = rapid.Bool().Draw(t, "paged")
	}
	n := rapid.IntRange(1, 8).Draw(t, "nreads")
	for i := 0; i < n; i++ {
		c.Reads = append(c.Reads, [2]int{rapid.IntRange(0, 1000).Draw(t, "off"), []int{1, 2, 3, 7, 50, 500}[rapid.IntRange(0, 5).Draw(t, "n")]})
	}
	return c
}

func runAtCase(c AtCase, o *kit.Obs) (fl *kit.Failure) {
	cols := ref.Columns(&c.Schema)
	rows := c.Plan.Expand()
	var b *parquet.Buffer
	if len(c.Keys) > 0 {
		if len(c.Keys) != len(rows) {
			return kit.Failf("harness/bad-case", "%d keys for %d rows", len(c.Keys), len(rows))
		}
		for i := range rows {
			f := append([]ref.V{}, rows[i].F...)
			f[0] = ref.V{I: int64(c.Keys[i])}
			rows[i] = ref.V{F: f}
		}
		b = parquet.NewBuffer(pq.BuildSchema(&c.Schema), parquet.SortingRowGroupConfig(parquet.SortingColumns(parquet.Ascending("akey"))))
	} else {
		b = parquet.NewBuffer(pq.BuildSchema(&c.Schema))
	}
	if _, err := b.WriteRows(pq.Rows(&c.Schema, cols, rows)); err != nil {
		o.Rejected()
		return nil
	}
	if len(c.Keys) > 0 {
		sort.Sort(b)
		sorted := make([]ref.V, len(rows))
		for i, k := range c.Keys {
			sorted[k] = rows[i]
		}
		rows = sorted
		o.Class("sorted")
		if c.Paged {
			for _, cb := range b.ColumnBuffers() {
				cb.Page()
			}
			o.Class("sorted+paged")
		}
	}
	streams := ref.ShredRows(&c.Schema, rows)
	nulls := false
	for ci, cb := range b.ColumnBuffers() {
		want := streams[ci]
		feat := fmt.Sprintf("{rep=%v,opt=%v}", cols[ci].MaxRep > 0, cols[ci].MaxDef > cols[ci].MaxRep)
		for _, rd := range c.Reads {
			off := len(want) * rd[0] / 1000
			vals := make([]parquet.Value, rd[1])
			var n int
			var err error
			func() {
				defer func() {
					if r := recover(); r != nil {
						fl = kit.Failf("c08/valuesat/panic"+feat, "column %d (%s): ReadValuesAt(%d values, offset %d of %d): panic: %v", ci, cols[ci].Leaf.ID, rd[1], off, len(want), r)
					}
				}()
				n, err = cb.ReadValuesAt(vals, int64(off))
			}()
			if fl != nil {
				return fl
			}
			if err != nil && !errors.Is(err, io.EOF) {
				return kit.Failf("c08/valuesat/error"+feat, "column %d: ReadValuesAt(offset %d of %d): %v", ci, off, len(want), err)
			}
			exp := want[off:min(off+rd[1], len(want))]
			if n != len(exp) {
				return kit.Failf("c08/valuesat/count"+feat, "column %d: ReadValuesAt(%d values, offset %d of %d) returned %d values, want %d", ci, rd[1], off, len(want), n, len(exp))
			}
			for i := range exp {
				g := pq.FromValue(cols[ci].Leaf, vals[i])
				if exp[i].Null {
					nulls = true
				}
				if g.Null != exp[i].Null || vals[i].DefinitionLevel() != exp[i].Def || vals[i].RepetitionLevel() != exp[i].Rep || (!g.Null && !pq.NormEqual(cols[ci].Leaf, exp[i], g)) {
					return kit.Failf("c08/valuesat/differs"+feat, "column %d (%s): ReadValuesAt(offset %d) value %d is %v (r%d,d%d), a sequential read gives %v", ci, cols[ci].Leaf.ID, off, i, vals[i], vals[i].RepetitionLevel(), vals[i].DefinitionLevel(), exp[i])
				}
			}
		}
	}
	if nulls {
		o.NonTrivial()
	}
	return nil
}

var atSpec = &kit.Spec[AtCase]{
	Property: "C08",
	Name:     "valuesat",
	Rule: "a Buffer over a generated schema (required / optional / repeated leaves) filled with 1-80 rows, in half of the cases sorted (sort.Sort) by a leading key column holding a generated permutation, the pages of the columns read once or not; every ColumnBuffer is read with ReadValuesAt at generated value offsets and counts: " +
		"values, definition and repetition levels equal the reference Dremel stream of the column (of the rows in sorted order) from that offset; no panic. Non-trivial = a null was part of a compared window.",
	Gen: genAtCase,
	Run: runAtCase,
}

func TestPropValuesAt(t *testing.T) { kit.Both(t, atSpec) }
