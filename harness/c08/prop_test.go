package c08

import (
	"bytes"
	"errors"
	"fmt"
	"io"
	"sort"
	"strings"
	"testing"

	"github.com/parquet-go/parquet-go"
	"github.com/parquet-go/parquet-go/encoding"
	"pgregory.net/rapid"

	"verifharness/gen"
	"verifharness/kit"
	"verifharness/pq"
	"verifharness/ref"
)

func TestMain(m *testing.M) { kit.Main(m) }

// ROp is one reader operation.
type ROp struct {
	K    string `json:"k"`              // "seek" | "read"
	Mode string `json:"mode,omitempty"` // seek: "abs" (N = per-mille of NumRows), "cur" (N = delta), "page" (N = page number, D = delta)
	N    int    `json:"n,omitempty"`
	D    int    `json:"d,omitempty"`
}

type Case struct {
	Schema    ref.Node       `json:"schema"`
	Plan      gen.RowPlan    `json:"plan"`
	Opts      gen.WriterOpts `json:"opts"`
	Kind      string         `json:"kind"` // "rowgroup.Rows" | "Reader" | "Pages" | "MultiRowGroup" | "Buffer"
	Col       int            `json:"col"`  // column for Pages
	SkipIndex bool           `json:"skipindex,omitempty"`
	Async     bool           `json:"async,omitempty"`
	Ops       []ROp          `json:"ops"`
	Enc       int            `json:"enc,omitempty"`  // file kinds: 1 encrypted footer, 2 plaintext footer (one key for everything): seeks re-synchronise the page ordinal used by the decryptor
	Nest      int            `json:"nest,omitempty"` // MultiRowGroup: 0 flat, 1 Multi(Multi(head), tail...), 2 Multi(first, Multi(rest)), 3 Multi(Multi(a), Multi(b))
}

var kinds = []string{"rowgroup.Rows", "rowgroup.Rows", "Reader", "Pages", "Pages", "MultiRowGroup", "Buffer", "RowBuffer", "RowBuffer.Pages", "Column.Pages", "ConvertRowReader(forward-only)", "MergeRowGroups.Rows(forward-only)"}

// readOnly hides every method of a row reader but ReadRows: ConvertRowReader
// then provides forward seeks by reading and discarding rows.
type readOnly struct{ r parquet.RowReader }

func (o readOnly) ReadRows(rows []parquet.Row) (int, error) { return o.r.ReadRows(rows) }

func genCase(t *rapid.T) Case {
	var c Case
	c.Schema = gen.Schema(t, gen.SchemaOpts{MaxDepth: 3, MaxLeaves: 4, PerLeafEnc: true, EncFor: pq.ValidEncodings})
	cols := ref.Columns(&c.Schema)
	c.Plan = gen.RowsAtLeast(t, &c.Schema, 6, []int{0, 40, 80, 150}[rapid.IntRange(0, 3).Draw(t, "minrows")], kit.Pick(300, 1500), gen.ValueOpts{Style: gen.SmallDom, Leaf: gen.Opts{MaxBytes: 12}})
	c.Opts = gen.WriterOptions(t, cols, gen.OptsBias{SmallPages: true, NoBloom: true, EncFor: pq.ValidEncodings, Codecs: []string{"", "", "snappy", "zstd"}})
	c.Opts.Pool, c.Opts.KV = "", nil
	c.Opts.PageBuf = []int{32, 48, 64, 100, 256}[rapid.IntRange(0, 4).Draw(t, "pb")]
	c.Opts.MaxRows = int64([]int{0, 0, 0, 64, 65, 100, 7}[rapid.IntRange(0, 6).Draw(t, "mr")])
	c.Kind = kinds[rapid.IntRange(0, len(kinds)-1).Draw(t, "kind")]
	c.Col = rapid.IntRange(0, len(cols)-1).Draw(t, "col")
	c.Nest = rapid.IntRange(0, 3).Draw(t, "nest")
	if (c.Kind == "MultiRowGroup" || c.Kind == "Column.Pages" || c.Kind == "MergeRowGroups.Rows(forward-only)") && c.Opts.MaxRows == 0 {
		c.Opts.MaxRows = int64([]int{7, 20, 64}[rapid.IntRange(0, 2).Draw(t, "mmr")])
	}
	c.SkipIndex = rapid.IntRange(0, 3).Draw(t, "skipindex") == 0
	c.Async = rapid.IntRange(0, 3).Draw(t, "async") == 0
	if c.Kind != "Buffer" && c.Kind != "RowBuffer" && c.Kind != "RowBuffer.Pages" && rapid.IntRange(0, 4).Draw(t, "enc") == 0 {
		c.Enc = rapid.IntRange(1, 2).Draw(t, "encmode")
	}
	nops := rapid.IntRange(1, 30).Draw(t, "nops")
	for i := 0; i < nops; i++ {
		if rapid.IntRange(0, 9).Draw(t, "isseek") < 5 {
			op := ROp{K: "seek"}
			switch rapid.IntRange(0, 5).Draw(t, "mode") {
			case 0, 1:
				op.Mode, op.N = "abs", []int{0, 1000, 999, 500, 1, 250, 750}[rapid.IntRange(0, 6).Draw(t, "abs")]
				if rapid.Bool().Draw(t, "absrand") {
					op.N = rapid.IntRange(0, 1000).Draw(t, "absn")
				}
			case 2:
				op.Mode, op.N = "cur", rapid.IntRange(-5, 5).Draw(t, "cur")
			default:
				op.Mode, op.N, op.D = "page", rapid.IntRange(0, 40).Draw(t, "page"), rapid.IntRange(-1, 1).Draw(t, "pd")
			}
			c.Ops = append(c.Ops, op)
		} else if rapid.IntRange(0, 11).Draw(t, "isindex") == 0 {
			// someone asks the chunks of the file for their offset index (loaded lazily when the file was opened without it)
			c.Ops = append(c.Ops, ROp{K: "index"})
		} else if rapid.IntRange(0, 11).Draw(t, "isreset") == 0 {
			// Reset (readers that have it): back to the first row
			c.Ops = append(c.Ops, ROp{K: "reset"})
		} else {
			c.Ops = append(c.Ops, ROp{K: "read", N: []int{1, 1, 2, 3, 5, 17, 64, 200}[rapid.IntRange(0, 7).Draw(t, "rn")]})
		}
	}
	return c
}

// writeSorted writes the rows, sorted by the zkey column (by the library's own
// sorting buffer), with the case's options.
func writeSorted(c Case, cols []ref.Column, prows []parquet.Row) ([]byte, error) {
	schema := pq.BuildSchema(&c.Schema)
	b := parquet.NewBuffer(schema, parquet.SortingRowGroupConfig(parquet.SortingColumns(parquet.Ascending("zkey"))))
	if _, err := b.WriteRows(prows); err != nil {
		return nil, err
	}
	sort.Sort(b)
	r := b.Rows()
	sorted, err := pq.ReadAllRows(r, 64)
	r.Close()
	if err != nil {
		return nil, err
	}
	prows = sorted
	var buf bytes.Buffer
	w := parquet.NewWriter(&buf, append([]parquet.WriterOption{schema}, pq.Options(c.Opts, cols, "")...)...)
	if _, err := w.WriteRows(prows); err != nil {
		return nil, err
	}
	if err := w.Close(); err != nil {
		return nil, err
	}
	return buf.Bytes(), nil
}

// target resolves a seek op to a row number in [0, n].
func target(op ROp, cursor, n int64, firstRows []int64) int64 {
	var k int64
	switch op.Mode {
	case "abs":
		k = n * int64(op.N) / 1000
	case "cur":
		k = cursor + int64(op.N)
	case "page":
		if len(firstRows) == 0 {
			k = 0
		} else {
			k = firstRows[op.N%len(firstRows)] + int64(op.D)
		}
	}
	if k < 0 {
		k = 0
	}
	if k > n {
		k = n
	}
	return k
}

type seekRows interface {
	parquet.RowReader
	SeekToRow(int64) error
}

func runCase(c Case, o *kit.Obs) *kit.Failure {
	rows := c.Plan.Expand()
	if c.Kind == "MergeRowGroups.Rows(forward-only)" {
		// a unique merge key in front of the generated columns: the order of a merge among equal
		// keys of different inputs is not defined (it varies with the read batch size)
		sch := c.Schema
		sch.Children = append([]ref.Node{{Name: "zkey", Rep: "req", Kind: "leaf", Leaf: "int64"}}, sch.Children...)
		c.Schema = sch
		for i := range rows {
			rows[i] = ref.V{F: append([]ref.V{{I: int64(i) * 7919 % 100003}}, rows[i].F...)}
		}
	}
	cols := ref.Columns(&c.Schema)
	feat := fmt.Sprintf("{kind=%s,index=%v,async=%v}", c.Kind, !c.SkipIndex, c.Async)
	prows := pq.Rows(&c.Schema, cols, rows)
	wantRows, err := ref.SplitRows(ref.ShredRows(&c.Schema, rows))
	if err != nil {
		return kit.Failf("harness/split", "%v", err)
	}

	var f, fx *parquet.File
	var rg parquet.RowGroup
	if c.Kind == "Buffer" {
		b := parquet.NewBuffer(pq.BuildSchema(&c.Schema))
		if _, err := b.WriteRows(prows); err != nil {
			o.Rejected()
			return nil
		}
		rg = b
	} else if c.Kind == "RowBuffer" || c.Kind == "RowBuffer.Pages" {
		b := parquet.NewRowBuffer[any](pq.BuildSchema(&c.Schema))
		if _, err := b.WriteRows(prows); err != nil {
			o.Rejected()
			return nil
		}
		rg = b
	} else {
		var wo []parquet.WriterOption
		var fo []parquet.FileOption
		if c.Enc > 0 {
			k := pq.FooterKeyOnly("0123456789abcdef")
			wo = append(wo, parquet.WithEncryption(&parquet.EncryptionConfig{FooterKey: k, EncryptedFooter: c.Enc == 1}))
			fo = append(fo, parquet.WithDecryption(k))
			feat = strings.Replace(feat, "}", ",encrypted}", 1)
			o.Class("encrypted")
		}
		var data []byte
		var err error
		if c.Kind == "MergeRowGroups.Rows(forward-only)" {
			// the rows sorted by the merge key (the first non-repeated leaf), so that every row group is
			data, err = writeSorted(c, cols, prows)
		} else {
			data, err = pq.WriteFileWith(&c.Schema, cols, rows, c.Opts, nil, wo...)
		}
		if err != nil {
			o.Rejected()
			return nil
		}
		if c.SkipIndex {
			fo = append(fo, parquet.SkipPageIndex(true))
		}
		if c.Async {
			fo = append(fo, parquet.FileReadMode(parquet.ReadModeAsync))
		}
		f, err = pq.Open(data, fo...)
		if err != nil {
			return kit.Failf("c08/open-error", "%v", err)
		}
		// a second handle of the same bytes, opened with its page index: the harness takes the page
		// boundaries from it, so that the handle under test is not made to load its index lazily
		var fxo []parquet.FileOption
		if c.Enc > 0 {
			fxo = append(fxo, parquet.WithDecryption(pq.FooterKeyOnly("0123456789abcdef")))
		}
		if fx, err = pq.Open(data, fxo...); err != nil {
			return kit.Failf("c08/open-error", "%v", err)
		}
	}

	// choose the reader and the slice of the model it covers
	lo, hi := int64(0), int64(len(rows))
	var rr seekRows
	var pages parquet.Pages
	var firstRows []int64
	forwardOnly := false
	maxPages := 0
	pageStarts := func(gi int, base int64) {
		for ci, cc := range fx.RowGroups()[gi].ColumnChunks() {
			if oi, err := cc.OffsetIndex(); err == nil && oi != nil {
				if oi.NumPages() > maxPages {
					maxPages = oi.NumPages()
				}
				if c.Kind != "Pages" || ci == c.Col {
					for p := 0; p < oi.NumPages(); p++ {
						firstRows = append(firstRows, base+oi.FirstRowIndex(p))
					}
				}
			}
		}
	}
	switch c.Kind {
	case "RowBuffer.Pages":
		pages = rg.ColumnChunks()[c.Col].Pages()
		defer pages.Close()
	case "Buffer", "RowBuffer":
		r := rg.Rows()
		defer r.Close()
		rr = r
	case "Reader":
		r := parquet.NewReader(f)
		defer r.Close()
		rr = r
		base := int64(0)
		for gi, g := range f.RowGroups() {
			pageStarts(gi, base)
			base += g.NumRows()
		}
	case "MultiRowGroup":
		if len(f.RowGroups()) == 0 {
			o.Class("no-rowgroup")
			return nil
		}
		gs := f.RowGroups()
		m := parquet.MultiRowGroup(gs...)
		if h := len(gs) / 2; c.Nest > 0 && len(gs) >= 3 {
			switch c.Nest {
			case 1:
				m = parquet.MultiRowGroup(append([]parquet.RowGroup{parquet.MultiRowGroup(gs[:h]...)}, gs[h:]...)...)
			case 2:
				m = parquet.MultiRowGroup(gs[0], parquet.MultiRowGroup(gs[1:]...))
			default:
				m = parquet.MultiRowGroup(parquet.MultiRowGroup(gs[:h]...), parquet.MultiRowGroup(gs[h:]...))
			}
			o.Class("nested-multi-rowgroup")
		}
		r := m.Rows()
		defer r.Close()
		rr = r
		base := int64(0)
		for gi, g := range f.RowGroups() {
			pageStarts(gi, base)
			base += g.NumRows()
		}
	case "Column.Pages":
		// the pages of one leaf column of the file, across all its row groups
		col := f.Root()
		for _, name := range cols[c.Col].Path {
			if col = col.Column(name); col == nil {
				return kit.Failf("harness/column", "column %v not found under the file root", cols[c.Col].Path)
			}
		}
		pages = col.Pages()
		defer pages.Close()
		base := int64(0)
		for gi, g := range f.RowGroups() {
			if oi, err := fx.RowGroups()[gi].ColumnChunks()[c.Col].OffsetIndex(); err == nil && oi != nil {
				for p := 0; p < oi.NumPages(); p++ {
					firstRows = append(firstRows, base+oi.FirstRowIndex(p))
				}
				maxPages = max(maxPages, oi.NumPages())
			}
			base += g.NumRows()
		}
	case "ConvertRowReader(forward-only)":
		// the rows of the whole file behind a reader that cannot seek, converted to the same schema
		conv, err := parquet.Convert(f.Schema(), f.Schema())
		if err != nil {
			return kit.Failf("c08/convert-error", "%v", err)
		}
		src := parquet.NewReader(f)
		defer src.Close()
		sk, ok := parquet.ConvertRowReader(readOnly{src}, conv).(seekRows)
		if !ok {
			o.Class("not-seekable")
			return nil
		}
		rr = sk
		forwardOnly = true
		base := int64(0)
		for gi, g := range f.RowGroups() {
			pageStarts(gi, base)
			base += g.NumRows()
		}
	case "MergeRowGroups.Rows(forward-only)":
		// the row groups of the file merged without sorting columns; the model is a
		// sequential read of a fresh reader of the same merged row group
		if len(f.RowGroups()) == 0 {
			o.Class("no-rowgroup")
			return nil
		}
		// a sorting column makes it a k-way merge (without one the row groups are concatenated)
		sorting := []parquet.SortingColumn{parquet.Ascending("zkey")}
		merged, err := parquet.MergeRowGroups(f.RowGroups(), parquet.SortingRowGroupConfig(parquet.SortingColumns(sorting...)))
		if err != nil {
			return kit.Failf("c08/merge-error", "%v", err)
		}
		fresh := merged.Rows()
		all, err := pq.ReadAllRows(fresh, 50)
		fresh.Close()
		if err != nil || len(all) != len(rows) {
			return kit.Failf("c08/merge-read"+feat, "sequential read of the merged row group: %d rows of %d, %v", len(all), len(rows), err)
		}
		streams, err := pq.Streams(cols, all)
		if err != nil {
			return kit.Failf("c08/merge-read"+feat, "%v", err)
		}
		if wantRows, err = ref.SplitRows(streams); err != nil {
			return kit.Failf("harness/split", "%v", err)
		}
		r := merged.Rows()
		defer r.Close()
		rr = r
		forwardOnly = true
		o.ClassIf(len(f.RowGroups()) >= 2, "merged>=2-rowgroups")
	default: // one row group: the last one (so its model slice does not start at 0 when there are several)
		gs := f.RowGroups()
		if len(gs) == 0 {
			o.Class("no-rowgroup")
			return nil
		}
		gi := len(gs) - 1
		for i := 0; i < gi; i++ {
			lo += gs[i].NumRows()
		}
		hi = lo + gs[gi].NumRows()
		pageStarts(gi, 0)
		if c.Kind == "Pages" {
			pages = gs[gi].ColumnChunks()[c.Col].Pages()
			defer pages.Close()
		} else {
			r := gs[gi].Rows()
			defer r.Close()
			rr = r
		}
	}
	model := wantRows[lo:hi]
	n := int64(len(model))
	cursor := int64(0)
	seeks, backward, seekSeek, resets, indexLoads := 0, 0, 0, 0, 0
	lastWasSeek := false
	for i, op := range c.Ops {
		switch op.K {
		case "seek":
			k := target(op, cursor, n, firstRows)
			if forwardOnly && k < cursor {
				k = cursor // backward seeks are refused by design: only forward ones are exercised
			}
			var err error
			if pages != nil {
				err = pages.SeekToRow(k)
			} else {
				err = rr.SeekToRow(k)
			}
			if err != nil {
				if k == n && errors.Is(err, parquet.ErrSeekOutOfRange) {
					// seeking to the end may be refused; the reader state after a
					// rejected seek is not defined by the property: stop here.
					o.Class("seek-to-end-refused")
					goto done
				}
				return kit.Failf("c08/seek-error"+feat, "op %d: SeekToRow(%d) with %d rows: %v", i, k, n, err)
			}
			seeks++
			if k < cursor {
				backward++
			}
			if lastWasSeek {
				seekSeek++
			}
			lastWasSeek = true
			cursor = k
		case "index":
			if f != nil {
				for _, g := range f.RowGroups() {
					for _, cc := range g.ColumnChunks() {
						cc.OffsetIndex()
						cc.ColumnIndex()
					}
				}
				indexLoads++
			}
		case "reset":
			if rs, ok := rr.(interface{ Reset() }); ok && rr != nil {
				rs.Reset()
				cursor = 0
				lastWasSeek = false
				resets++
			}
		case "read":
			lastWasSeek = false
			if pages != nil {
				p, err := pages.ReadPage()
				if err != nil {
					if errors.Is(err, io.EOF) && cursor == n {
						continue
					}
					return kit.Failf("c08/read-error"+feat, "op %d: ReadPage at row %d of %d: %v", i, cursor, n, err)
				}
				if cursor >= n {
					return kit.Failf("c08/read-past-end"+feat, "op %d: ReadPage returned a page at row %d of %d", i, cursor, n)
				}
				// the values of the page, read at once or in small batches (op.N selects the batch size)
				var vals []parquet.Value
				err = nil
				vr, batch := p.Values(), op.N%4
				if batch == 0 {
					batch = 97
				}
				for err == nil {
					chunk := make([]parquet.Value, batch)
					var k int
					k, err = vr.ReadValues(chunk)
					vals = append(vals, chunk[:k]...)
					if k == 0 && err == nil {
						break
					}
				}
				if err != nil && !errors.Is(err, io.EOF) {
					parquet.Release(p)
					return kit.Failf("c08/read-error"+feat, "op %d: ReadValues: %v", i, err)
				}
				nr := p.NumRows()
				// expected values: column Col of rows cursor..cursor+nr
				if cursor+nr > n {
					parquet.Release(p)
					return kit.Failf("c08/page-rows"+feat, "op %d: page at row %d has %d rows, only %d remain", i, cursor, nr, n-cursor)
				}
				var want []ref.LV
				for _, r := range model[cursor : cursor+nr] {
					want = append(want, r[c.Col]...)
				}
				if len(want) != len(vals) {
					parquet.Release(p)
					return kit.Failf("c08/values-differ"+feat, "op %d: page at row %d (%d rows): %d values, want %d", i, cursor, nr, len(vals), len(want))
				}
				for j := range want {
					if g := pq.FromValue(cols[c.Col].Leaf, vals[j]); !pq.NormEqual(cols[c.Col].Leaf, want[j], g) {
						parquet.Release(p)
						return kit.Failf("c08/values-differ"+feat, "op %d: page at row %d value %d: want %v got %v (history: %s)", i, cursor, j, want[j], g, hist(c.Ops[:i+1]))
					}
				}
				// what the page says about itself agrees with the values it delivered
				if fl := pageSelfCheck(p, vals, cols[c.Col], feat, fmt.Sprintf("op %d: page at row %d (history: %s)", i, cursor, hist(c.Ops[:i+1]))); fl != nil {
					parquet.Release(p)
					return fl
				}
				parquet.Release(p)
				cursor += nr
				continue
			}
			buf := make([]parquet.Row, op.N)
			m, err := rr.ReadRows(buf)
			if err != nil && !errors.Is(err, io.EOF) {
				return kit.Failf("c08/read-error"+feat, "op %d: ReadRows(%d) at row %d of %d: %v", i, op.N, cursor, n, err)
			}
			if int64(m) > n-cursor {
				return kit.Failf("c08/read-past-end"+feat, "op %d: ReadRows returned %d rows at row %d of %d", i, m, cursor, n)
			}
			if m == 0 && err == nil && cursor < n {
				return kit.Failf("c08/no-progress"+feat, "op %d: ReadRows(%d) = 0, nil at row %d of %d", i, op.N, cursor, n)
			}
			if errors.Is(err, io.EOF) && cursor+int64(m) != n {
				return kit.Failf("c08/early-eof"+feat, "op %d: io.EOF after row %d of %d (history: %s)", i, cursor+int64(m), n, hist(c.Ops[:i+1]))
			}
			for j := 0; j < m; j++ {
				got, err := pq.Streams(cols, []parquet.Row{buf[j]})
				if err != nil {
					return kit.Failf("c08/malformed-row"+feat, "op %d: %v", i, err)
				}
				if d := pq.DiffStreams(cols, model[cursor+int64(j)], got); d != "" {
					return kit.Failf("c08/rows-differ"+feat, "op %d: row %d after history %s: %s", i, cursor+int64(j), hist(c.Ops[:i+1]), d)
				}
			}
			cursor += int64(m)
		}
	}
done:
	o.Class("kind-" + c.Kind)
	switch {
	case len(rows) < 10:
		o.Class("rows<10")
	case len(rows) < 100:
		o.Class("rows<100")
	default:
		o.Class("rows>=100")
	}
	o.ClassIf(seekSeek > 0, "seek-seek")
	o.ClassIf(resets > 0, "reset")
	o.ClassIf(indexLoads > 0 && c.SkipIndex, "index-loaded-lazily-mid-history")
	o.ClassIf(backward > 0, "backward")
	o.ClassIf(c.Async, "async")
	o.ClassIf(c.SkipIndex, "no-page-index")
	o.ClassIf(maxPages >= 3, "pages>=3")
	if seeks >= 2 && (backward > 0 || seekSeek > 0) && (maxPages >= 3 || c.Kind == "Buffer" || c.Kind == "RowBuffer") {
		o.NonTrivial()
	}
	return nil
}

func hist(ops []ROp) string {
	s := ""
	for _, op := range ops {
		if op.K == "seek" {
			s += fmt.Sprintf("seek(%s,%d,%d) ", op.Mode, op.N, op.D)
		} else {
			s += fmt.Sprintf("read(%d) ", op.N)
		}
	}
	return s
}

var spec = &kit.Spec[Case]{
	Property: "C08",
	Name:     "seek",
	Rule: "a generated file (random nested schema ≤4 leaves, small-domain rows, tiny page buffers so chunks have many pages, 1-n row groups, v1/v2 pages, dictionary and plain columns) or an in-memory Buffer, " +
		"opened with/without page index and in sync/async read mode, and a history of 1-30 operations SeekToRow(k)/ReadRows(n) (or ReadPage) on RowGroup.Rows, Reader, ColumnChunk.Pages, MultiRowGroup.Rows or Buffer.Rows; " +
		"seek targets are absolute fractions, cursor±δ, and page first rows ±1; consecutive seeks with no read in between are generated on purpose. Oracle: a cursor over the model rows from the reference shredder. " +
		"Non-trivial = ≥2 seeks, at least one backward or seek-after-seek, over a chunk with ≥3 pages (or a Buffer).",
	Assumptions: []string{
		"seeks are within [0, NumRows]; a refused seek to exactly NumRows ends the history (reader state after a rejected seek is undefined)",
		"short reads are allowed (0 < m ≤ n) as long as the rows are the right ones; (0, nil) before the end is a violation",
	},
	Gen: genCase,
	Run: runCase,
}

func TestProp(t *testing.T) { kit.Both(t, spec) }

// pageSelfCheck: the counts and levels a page reports are those of the values
// it delivered (a page read after a seek is a slice: it must describe itself,
// not the page it was cut from), and Data() can be taken.
func pageSelfCheck(p parquet.Page, vals []parquet.Value, col ref.Column, feat, where string) (fl *kit.Failure) {
	defer func() {
		if r := recover(); r != nil {
			fl = kit.Failf("c08/page-panic"+feat, "%s: %v", where, r)
		}
	}()
	nulls := 0
	for _, v := range vals {
		if v.IsNull() {
			nulls++
		}
	}
	if p.NumValues() != int64(len(vals)) {
		return kit.Failf("c08/page-numvalues"+feat, "%s: NumValues is %d, the page delivered %d values (%d nulls)", where, p.NumValues(), len(vals), nulls)
	}
	if p.NumNulls() != int64(nulls) {
		return kit.Failf("c08/page-numnulls"+feat, "%s: NumNulls is %d, the page delivered %d nulls", where, p.NumNulls(), nulls)
	}
	if col.MaxDef > 0 {
		dl := p.DefinitionLevels()
		if len(dl) != len(vals) {
			return kit.Failf("c08/page-levels"+feat, "%s: %d definition levels for %d values of a column with max definition level %d", where, len(dl), len(vals), col.MaxDef)
		}
		for i := range dl {
			if int(dl[i]) != vals[i].DefinitionLevel() {
				return kit.Failf("c08/page-levels"+feat, "%s: definition level %d is %d, the value delivered has %d", where, i, dl[i], vals[i].DefinitionLevel())
			}
		}
	}
	if col.MaxRep > 0 {
		rl := p.RepetitionLevels()
		if len(rl) != len(vals) {
			return kit.Failf("c08/page-levels"+feat, "%s: %d repetition levels for %d values of a column with max repetition level %d", where, len(rl), len(vals), col.MaxRep)
		}
		for i := range rl {
			if int(rl[i]) != vals[i].RepetitionLevel() {
				return kit.Failf("c08/page-levels"+feat, "%s: repetition level %d is %d, the value delivered has %d", where, i, rl[i], vals[i].RepetitionLevel())
			}
		}
	}
	data := p.Data()
	if p.Dictionary() != nil {
		return nil // the data of an indexed page are dictionary indexes
	}
	// Data() is what Type.Encode is given: it must hold the non-null values of THIS page, in order
	var nonNull []parquet.Value
	for _, v := range vals {
		if !v.IsNull() {
			nonNull = append(nonNull, v)
		}
	}
	mismatch := func(i int, got any) *kit.Failure {
		return kit.Failf("c08/page-data"+feat, "%s: Data() holds %v at position %d, the page delivered %v (of %d non-null values)", where, got, i, nonNull[i], len(nonNull))
	}
	short := func(n int) *kit.Failure {
		return kit.Failf("c08/page-data"+feat, "%s: Data() holds %d values, the page delivered %d non-null values", where, n, len(nonNull))
	}
	switch data.Kind() {
	case encoding.Boolean:
		bits := data.Boolean()
		if len(bits)*8 < len(nonNull) {
			return short(len(bits) * 8)
		}
		for i, v := range nonNull {
			if b := bits[i/8]>>(uint(i)%8)&1 == 1; b != v.Boolean() {
				return mismatch(i, b)
			}
		}
	case encoding.Int32:
		xs := data.Int32()
		if len(xs) != len(nonNull) {
			return short(len(xs))
		}
		for i, v := range nonNull {
			if v.Kind() == parquet.Int32 && xs[i] != v.Int32() {
				return mismatch(i, xs[i])
			}
		}
	case encoding.Int64:
		xs := data.Int64()
		if len(xs) != len(nonNull) {
			return short(len(xs))
		}
		for i, v := range nonNull {
			if v.Kind() == parquet.Int64 && xs[i] != v.Int64() {
				return mismatch(i, xs[i])
			}
		}
	case encoding.ByteArray:
		b, offsets := data.ByteArray()
		if len(offsets) != len(nonNull)+1 && !(len(offsets) == 0 && len(nonNull) == 0) {
			return short(len(offsets) - 1)
		}
		for i, v := range nonNull {
			if x := b[offsets[i]:offsets[i+1]]; !bytes.Equal(x, v.ByteArray()) {
				return mismatch(i, x)
			}
		}
	case encoding.FixedLenByteArray:
		b, size := data.FixedLenByteArray()
		if size <= 0 || len(b) != size*len(nonNull) {
			return short(len(b) / max(size, 1))
		}
		for i, v := range nonNull {
			if x := b[i*size : (i+1)*size]; !bytes.Equal(x, v.ByteArray()) {
				return mismatch(i, x)
			}
		}
	}
	return nil
}
