package c08

import (
	"bytes"
	"errors"
	"fmt"
	"io"
	"testing"

	"github.com/parquet-go/parquet-go"
	"github.com/parquet-go/parquet-go/variant"
	"pgregory.net/rapid"

	"verifharness/kit"
)

// VCase: the columnar VariantReader (shared row window, cursors created lazily
// per path). A history of cursor creations, seeks and Next calls is compared
// with a fresh reader that creates every cursor first and reaches each window
// by reading sequentially from row 0.
type VOp struct {
	K string `json:"k"` // "path" | "seek" | "next"
	N int    `json:"n"`
}

type VCase struct {
	Rows   []int `json:"rows"`  // per row: a small shape code (see vvalue)
	Shred  int   `json:"shred"` // 0 unshredded, 1 {a:int64,b:string}, 2 {a:int64,c:list<int64>}, 3 {a:{x:int64}}
	Ops    []VOp `json:"ops"`
	PageSz int   `json:"pagesz"`
	// DictMax > 0: the typed leaves are dictionary-encoded and the writer falls back to PLAIN once a
	// dictionary exceeds DictMax bytes (dictionary pages followed by plain pages in one chunk)
	DictMax int `json:"dictmax,omitempty"`
}

var vpaths = [][]string{{"a"}, {"b"}, {"c"}, {"a", "x"}, {"zz"}}

// vvalue builds the variant value of a row from its shape code and index.
func vvalue(code, i int) variant.Value {
	f := func(name string, v variant.Value) variant.Field { return variant.Field{Name: name, Value: v} }
	switch code % 8 {
	case 0:
		return variant.MakeObject([]variant.Field{f("a", variant.Int64(int64(1000+i))), f("b", variant.String(fmt.Sprintf("s%d", i)))})
	case 1:
		return variant.MakeObject([]variant.Field{f("a", variant.String("text")), f("c", variant.MakeArray([]variant.Value{variant.Int64(int64(i)), variant.Int64(7)}))})
	case 2:
		return variant.MakeObject([]variant.Field{f("a", variant.MakeObject([]variant.Field{f("x", variant.Int64(int64(i)))})), f("zz", variant.Bool(i%2 == 0))})
	case 3:
		return variant.MakeObject([]variant.Field{f("b", variant.String(""))})
	case 4:
		return variant.Null()
	case 5:
		return variant.Int64(int64(i))
	case 6:
		return variant.MakeObject([]variant.Field{f("a", variant.Int64(int64(-i))), f("c", variant.MakeArray(nil)), f("b", variant.Null())})
	default:
		return variant.MakeObject([]variant.Field{f("a", variant.MakeObject([]variant.Field{f("x", variant.String("not an int")), f("y", variant.Double(1.5))}))})
	}
}

func genV(t *rapid.T) VCase {
	var c VCase
	n := rapid.IntRange(1, 120).Draw(t, "nrows")
	for i := 0; i < n; i++ {
		c.Rows = append(c.Rows, rapid.IntRange(0, 7).Draw(t, "shape"))
	}
	c.Shred = rapid.IntRange(0, 3).Draw(t, "shred")
	c.PageSz = []int{64, 256, 0}[rapid.IntRange(0, 2).Draw(t, "pagesz")]
	if c.Shred > 0 && rapid.IntRange(0, 2).Draw(t, "dict") == 0 {
		c.DictMax = []int{16, 64, 200, 1 << 20}[rapid.IntRange(0, 3).Draw(t, "dictmax")]
		if c.PageSz == 0 {
			c.PageSz = 256
		}
	}
	nops := rapid.IntRange(2, 14).Draw(t, "nops")
	for i := 0; i < nops; i++ {
		switch rapid.IntRange(0, 5).Draw(t, "op") {
		case 0, 1:
			c.Ops = append(c.Ops, VOp{K: "path", N: rapid.IntRange(0, len(vpaths)-1).Draw(t, "p")})
		case 2:
			c.Ops = append(c.Ops, VOp{K: "seek", N: rapid.IntRange(0, 1000).Draw(t, "k")})
		default:
			c.Ops = append(c.Ops, VOp{K: "next", N: []int{1, 2, 7, 33, 200}[rapid.IntRange(0, 4).Draw(t, "n")]})
		}
	}
	c.Ops = append(c.Ops, VOp{K: "path", N: 0}, VOp{K: "next", N: 5})
	return c
}

// snapshot renders the window state of a cursor.
func snapshot(c *parquet.VariantCursor) string {
	var b bytes.Buffer
	fmt.Fprintf(&b, "kind=%v rows=%v locs=%v typedRows=%v residuals=%d listOffsets=%v", c.Kind(), c.Rows(), c.Locs(), c.TypedRows(), c.ResidualCount(), c.ListOffsets())
	if t := c.LeafType(); t != nil {
		switch t.Kind() {
		case parquet.Boolean:
			fmt.Fprintf(&b, " bools=%v", c.Booleans())
		case parquet.Int32:
			fmt.Fprintf(&b, " i32=%v", c.Int32s())
		case parquet.Int64:
			fmt.Fprintf(&b, " i64=%v", c.Int64s())
		case parquet.Float:
			fmt.Fprintf(&b, " f32=%v", c.Floats())
		case parquet.Double:
			fmt.Fprintf(&b, " f64=%v", c.Doubles())
		case parquet.ByteArray:
			slab, offs := c.ByteArrays()
			fmt.Fprintf(&b, " bytes=%x/%v", slab, offs)
		}
	}
	for i := range c.Locs() {
		if v, ok, err := c.Residual(i); err != nil {
			fmt.Fprintf(&b, " res[%d]=err(%v)", i, err)
		} else if ok {
			fmt.Fprintf(&b, " res[%d]=%v", i, v.GoValue())
		}
	}
	return b.String()
}

func runV(c VCase, o *kit.Obs) *kit.Failure {
	var node parquet.Node = parquet.Variant()
	var err error
	i64, str := parquet.Node(parquet.Int(64)), parquet.Node(parquet.String())
	if c.DictMax > 0 {
		i64, str = parquet.Encoded(i64, &parquet.RLEDictionary), parquet.Encoded(str, &parquet.RLEDictionary)
	}
	switch c.Shred {
	case 1:
		node, err = parquet.ShreddedVariant(parquet.Group{"a": i64, "b": str})
	case 2:
		node, err = parquet.ShreddedVariant(parquet.Group{"a": i64, "c": parquet.List(i64)})
	case 3:
		node, err = parquet.ShreddedVariant(parquet.Group{"a": parquet.Group{"x": i64}})
	}
	if err != nil {
		o.Rejected()
		return nil
	}
	schema := parquet.NewSchema("table", parquet.Group{"var": node})
	var buf bytes.Buffer
	wo := []parquet.WriterOption{schema}
	if c.PageSz > 0 {
		wo = append(wo, parquet.PageBufferSize(c.PageSz))
	}
	if c.DictMax > 0 {
		wo = append(wo, parquet.DictionaryMaxBytes(int64(c.DictMax)))
	}
	w := parquet.NewWriter(&buf, wo...)
	vw, err := parquet.NewVariantColumnWriter(w, "var")
	if err != nil {
		o.Rejected()
		return nil
	}
	for i, code := range c.Rows {
		if err := vw.WriteValue(vvalue(code, i)); err != nil {
			o.Rejected()
			return nil
		}
	}
	if err := w.Close(); err != nil {
		o.Rejected()
		return nil
	}
	f, err := parquet.OpenFile(bytes.NewReader(buf.Bytes()), int64(buf.Len()))
	if err != nil || len(f.RowGroups()) != 1 {
		return kit.Failf("c08/variant/open-error", "%v (%d row groups)", err, len(f.RowGroups()))
	}
	rg := f.RowGroups()[0]
	n := int64(len(c.Rows))
	// reference: a fresh reader with every cursor created first, skipping sequentially to the window
	reference := func(pos int64, size int) (map[int]string, int, error) {
		r, err := parquet.NewVariantReader(rg, "var")
		if err != nil {
			return nil, 0, err
		}
		defer r.Close()
		cur := make([]*parquet.VariantCursor, len(vpaths))
		for i, p := range vpaths {
			cur[i] = r.Path(p...)
		}
		for at := int64(0); at < pos; {
			step := int(min(pos-at, 13))
			k, err := r.Next(step)
			if err != nil {
				return nil, 0, err
			}
			at += int64(k)
		}
		k, err := r.Next(size)
		if err != nil && !errors.Is(err, io.EOF) {
			return nil, 0, err
		}
		out := map[int]string{-1: snapshot(r.Root())}
		for i := range vpaths {
			out[i] = snapshot(cur[i])
		}
		return out, k, nil
	}
	r, err := parquet.NewVariantReader(rg, "var")
	if err != nil {
		return kit.Failf("c08/variant/reader-error", "%v", err)
	}
	defer r.Close()
	cursors := map[int]*parquet.VariantCursor{}
	pos := int64(0)
	seeks, lateCursors, windows := 0, 0, 0
	positioned := false
	for oi, op := range c.Ops {
		switch op.K {
		case "path":
			if _, ok := cursors[op.N]; !ok {
				cursors[op.N] = r.Path(vpaths[op.N]...)
				if positioned {
					lateCursors++
				}
			}
		case "seek":
			k := n * int64(op.N) / 1000
			if err := r.SeekToRow(k); err != nil {
				return kit.Failf("c08/variant/seek-error", "op %d: SeekToRow(%d of %d): %v", oi, k, n, err)
			}
			pos, positioned = k, true
			seeks++
		case "next":
			k, err := r.Next(op.N)
			if err != nil && !errors.Is(err, io.EOF) {
				return kit.Failf("c08/variant/next-error", "op %d: Next(%d) at row %d: %v", oi, op.N, pos, err)
			}
			want, wk, rerr := reference(pos, op.N)
			if rerr != nil {
				return kit.Failf("c08/variant/reference-error", "sequential reference read failed: %v", rerr)
			}
			if k != wk {
				return kit.Failf("c08/variant/window-size", "op %d: Next(%d) at row %d returned %d rows, a sequential reader gets %d", oi, op.N, pos, k, wk)
			}
			if k > 0 {
				if got := snapshot(r.Root()); got != want[-1] {
					return kit.Failf("c08/variant/window-differs{cursor=root}", "op %d: window [%d,%d) of the root cursor after history %v:\n got  %s\n want %s", oi, pos, pos+int64(k), c.Ops[:oi+1], got, want[-1])
				}
				for pi, cur := range cursors {
					if got := snapshot(cur); got != want[pi] {
						return kit.Failf("c08/variant/window-differs{cursor=path}", "op %d: window [%d,%d) of cursor %v after history %v:\n got  %s\n want %s", oi, pos, pos+int64(k), vpaths[pi], c.Ops[:oi+1], got, want[pi])
					}
				}
				// truth for the typed int64 vectors (the two readers above share their page decoding):
				// path a under shredding 1/2 holds 1000+i (shape 0) and -i (shape 6); a.x under shredding 3 holds i (shape 2)
				truth := func(pi int, f func(code, i int) (int64, bool)) *kit.Failure {
					cur, ok := cursors[pi]
					if !ok {
						return nil
					}
					var want []int64
					for i := pos; i < pos+int64(k); i++ {
						if v, ok := f(c.Rows[i]%8, int(i)); ok {
							want = append(want, v)
						}
					}
					if got := cur.Int64s(); fmt.Sprint(got) != fmt.Sprint(want) && !(len(got) == 0 && len(want) == 0) {
						return kit.Failf("c08/variant/typed-values-differ", "op %d: window [%d,%d) of cursor %v: typed int64 values %v, written %v", oi, pos, pos+int64(k), vpaths[pi], got, want)
					}
					return nil
				}
				if c.Shred == 1 || c.Shred == 2 {
					if fl := truth(0, func(code, i int) (int64, bool) {
						switch code {
						case 0:
							return int64(1000 + i), true
						case 6:
							return int64(-i), true
						}
						return 0, false
					}); fl != nil {
						return fl
					}
				}
				if c.Shred == 3 {
					if fl := truth(3, func(code, i int) (int64, bool) { return int64(i), code == 2 }); fl != nil {
						return fl
					}
				}
				windows++
			}
			pos += int64(k)
			positioned = true
		}
	}
	o.Class(fmt.Sprintf("shredding-%d", c.Shred))
	o.ClassIf(lateCursors > 0, "cursor-created-after-positioning")
	o.ClassIf(c.DictMax > 0, "dictionary-encoded-typed-leaves")
	if seeks > 0 && windows >= 2 {
		o.NonTrivial()
	}
	return nil
}

var vSpec = &kit.Spec[VCase]{
	Property: "C08",
	Name:     "variantreader",
	Rule: "1-120 variant rows of 8 shapes (objects with typed / mistyped / missing / nested fields, arrays, nulls, scalars) written through VariantColumnWriter into an unshredded or one of three shredded columns; a VariantReader runs a history of cursor creations (5 paths, shredded and virtual), SeekToRow and Next(n) calls. " +
		"After every Next the window state of the root and of every cursor created so far (rows, location tags, typed vectors, list offsets, residual values) is compared with a fresh reader that created every cursor first and reached the same window by reading sequentially from row 0. Non-trivial = at least one seek and two compared windows.",
	Assumptions: []string{"differential within the library (seek vs skip): the window contents themselves are checked by C19 through the row-oriented readers"},
	Scale:       0.5,
	Gen:         genV,
	Run:         runV,
}

func TestPropVariantReader(t *testing.T) { kit.Both(t, vSpec) }
