package c20

import (
	"bytes"
	"fmt"
	"runtime"
	"sync"
	"testing"

	"github.com/parquet-go/parquet-go"
	"github.com/parquet-go/parquet-go/compress"
	"github.com/parquet-go/parquet-go/compress/brotli"
	"github.com/parquet-go/parquet-go/compress/gzip"
	"github.com/parquet-go/parquet-go/compress/lz4"
	"github.com/parquet-go/parquet-go/compress/snappy"
	"github.com/parquet-go/parquet-go/compress/uncompressed"
	"github.com/parquet-go/parquet-go/compress/zstd"
	"pgregory.net/rapid"

	"verifharness/c02"
	"verifharness/kit"
	"verifharness/ref"
)

func TestMain(m *testing.M) { kit.Main(m) }

// Input is a compact description of a byte string.
type Input struct {
	Mode  string `json:"mode"` // "rand" | "repeat" | "mixed" | "zero"
	N     int    `json:"n"`
	Seed  uint64 `json:"seed"`
	Motif []byte `json:"motif,omitempty"`
}

// Step is one call on the shared codec value.
type Step struct {
	Op    string `json:"op"` // "roundtrip" | "baddecode"
	In    Input  `json:"in"`
	Dst   int    `json:"dst"`           // 0 nil, 1 len0 small cap, 2 cap exact, 3 cap large dirty, 4 sub-slice of previous output, 5/6 a little larger, 7 one byte short, 8 two bytes short, 9 one byte more
	Bad   string `json:"bad,omitempty"` // "random" | "truncate" | "flip"
	BadAt int    `json:"badat,omitempty"`
}

type Case struct {
	Codec      string `json:"codec"`
	Steps      []Step `json:"steps"`
	Goroutines int    `json:"goroutines"`      // >1: the same history runs concurrently on the same codec value
	Level      int    `json:"level,omitempty"` // 0: the package-level configuration; 1-3: other levels of the codec
}

// newCodec returns a fresh codec value configured like the package-level one:
// its pools start empty, so a case's history is the whole history of the
// pooled compressors/decompressors and failures replay deterministically.
func newCodec(name string) compress.Codec { return newCodecLevel(name, 0) }

// newCodecLevel: level 0 is the configuration of the package-level codec, 1-3 are
// other documented levels of the same codec (the fastest, a middle one, the densest).
func newCodecLevel(name string, level int) compress.Codec {
	switch name {
	case "uncompressed":
		return &uncompressed.Codec{}
	case "snappy":
		return &snappy.Codec{}
	case "gzip":
		return &gzip.Codec{Level: []int{parquet.Gzip.Level, 1, 6, 9}[level%4]}
	case "brotli":
		return &brotli.Codec{Quality: []int{parquet.Brotli.Quality, 1, 5, 9}[level%4], LGWin: []int{parquet.Brotli.LGWin, 10, 16, 22}[level%4]}
	case "zstd":
		return &zstd.Codec{Level: []zstd.Level{parquet.Zstd.Level, zstd.SpeedFastest, zstd.SpeedBetterCompression, zstd.SpeedBestCompression}[level%4]}
	case "lz4":
		return &lz4.Codec{Level: []lz4.Level{parquet.Lz4Raw.Level, lz4.Fastest, lz4.Level3, lz4.Level9}[level%4]}
	}
	panic("bad codec")
}

var codecNames = []string{"uncompressed", "snappy", "gzip", "brotli", "zstd", "lz4"}

func genInput(t *rapid.T) Input {
	in := Input{Mode: []string{"rand", "repeat", "mixed", "zero"}[rapid.IntRange(0, 3).Draw(t, "mode")], Seed: rapid.Uint64().Draw(t, "seed")}
	in.N = []int{0, 1, 2, 15, 16, 100, 1000, 4096, 65535, 65536, 65537}[rapid.IntRange(0, 10).Draw(t, "nk")]
	if rapid.Bool().Draw(t, "nrand") {
		limit := kit.Pick(70000, 1<<20)
		if kit.RaceEnabled {
			limit = 70000 // histories of several steps replayed on several goroutines: gzip / brotli of 1 MiB under the race detector take minutes
		}
		in.N = rapid.IntRange(0, limit).Draw(t, "n")
	}
	in.Motif = rapid.SliceOfN(rapid.Byte(), 1, 9).Draw(t, "motif")
	return in
}

func (in Input) bytes() []byte {
	out := make([]byte, in.N)
	x := in.Seed | 1
	next := func() uint64 {
		x ^= x >> 12
		x ^= x << 25
		x ^= x >> 27
		return x * 2685821657736338717
	}
	switch in.Mode {
	case "rand":
		for i := range out {
			out[i] = byte(next() >> 33)
		}
	case "repeat":
		for i := range out {
			out[i] = in.Motif[i%len(in.Motif)]
		}
	case "mixed":
		for i := 0; i < len(out); {
			if next()%3 == 0 {
				n := int(next() % 300)
				for k := 0; k < n && i < len(out); k++ {
					out[i] = byte(next() >> 33)
					i++
				}
			} else {
				n := int(next() % 2000)
				for k := 0; k < n && i < len(out); k++ {
					out[i] = in.Motif[k%len(in.Motif)]
					i++
				}
			}
		}
	}
	return out
}

func genCase(t *rapid.T) Case {
	var c Case
	c.Codec = codecNames[rapid.IntRange(0, len(codecNames)-1).Draw(t, "codec")]
	n := rapid.IntRange(1, 7).Draw(t, "nsteps")
	for i := 0; i < n; i++ {
		s := Step{Op: "roundtrip", In: genInput(t), Dst: rapid.IntRange(0, 9).Draw(t, "dst")}
		// LZ4's Decode never returns on invalid input (it doubles its buffer on every
		// error): no failed-decode outcome exists to put in a history, see DESIGN C20.
		if c.Codec != "uncompressed" && rapid.IntRange(0, 3).Draw(t, "bad") == 0 {
			s.Op = "baddecode"
			s.Bad = []string{"random", "truncate", "flip"}[rapid.IntRange(0, 2).Draw(t, "badkind")]
			s.BadAt = rapid.IntRange(0, 999).Draw(t, "badat")
			if s.In.N > 5000 {
				s.In.N = 5000
			}
		}
		c.Steps = append(c.Steps, s)
	}
	c.Goroutines = []int{1, 1, 1, 4, 8}[rapid.IntRange(0, 4).Draw(t, "g")]
	c.Level = []int{0, 0, 1, 2, 3}[rapid.IntRange(0, 4).Draw(t, "level")]
	return c
}

var codecIDs = map[string]int{"uncompressed": ref.CodecNone, "snappy": ref.CodecSnappy, "gzip": ref.CodecGzip, "brotli": ref.CodecBrotli, "zstd": ref.CodecZstd, "lz4": ref.CodecLZ4Raw}

func pickDst(kind, need int, prev []byte) []byte {
	switch kind {
	case 5: // a buffer a little larger than the data (a page buffer reused for the next page)
		return make([]byte, 0, need+1+need/300)
	case 6:
		return make([]byte, 0, need+17)
	case 7, 8: // the output fills the buffer exactly before its last byte(s)
		return make([]byte, 0, max(need-(kind-6), 0))
	case 9:
		return make([]byte, 0, need+1)
	case 1:
		return make([]byte, 0, 3)
	case 2:
		return make([]byte, 0, need)
	case 3:
		b := make([]byte, need*2+100)
		for i := range b {
			b[i] = 0xA5
		}
		return b[:0]
	case 4:
		if len(prev) > 2 {
			return prev[1 : len(prev)/2 : len(prev)/2]
		}
	}
	return nil
}

func history(c Case, codec compress.Codec, feat string) *kit.Failure {
	var prevEnc, prevDec []byte
	for si, s := range c.Steps {
		x := s.In.bytes()
		orig := append([]byte{}, x...)
		switch s.Op {
		case "roundtrip":
			encNeed := len(x)/2 + 64
			if s.Dst >= 5 {
				encNeed = len(x) // capacity just above the input size: below the worst-case bound of most codecs
			}
			enc, err := codec.Encode(pickDst(s.Dst, encNeed, prevEnc), x)
			if err != nil {
				return kit.Failf("c20/encode-error"+feat, "step %d: Encode of %d bytes: %v", si, len(x), err)
			}
			if !bytes.Equal(x, orig) {
				return kit.Failf("c20/input-modified"+feat, "step %d: Encode modified its input", si)
			}
			encCopy := append([]byte{}, enc...)
			dec, err := codec.Decode(pickDst(s.Dst, len(x), prevDec), enc)
			if err != nil {
				return kit.Failf("c20/decode-error"+feat, "step %d: Decode(Encode(x)) of %d bytes (%s): %v", si, len(x), s.In.Mode, err)
			}
			if !bytes.Equal(dec, orig) {
				return kit.Failf("c20/roundtrip"+feat, "step %d (dst kind %d): Decode(Encode(x)) != x for %d bytes (%s): got %d bytes, first difference at %d", si, s.Dst, len(x), s.In.Mode, len(dec), firstDiff(dec, orig))
			}
			if !bytes.Equal(enc, encCopy) {
				return kit.Failf("c20/input-modified"+feat, "step %d: Decode modified its input", si)
			}
			// format conformance through the independent decompressor
			if ind, err := ref.Decompress(codecIDs[c.Codec], encCopy, len(x)); err != nil || !bytes.Equal(ind, orig) {
				return kit.Failf("c20/format"+feat, "step %d: the independent decompressor does not recover the %d input bytes from Encode's output (err=%v, got %d bytes)", si, len(x), err, len(ind))
			}
			prevEnc, prevDec = enc, dec
		case "baddecode":
			var bad []byte
			kind := s.Bad
			headerSafe := c.Codec == "snappy" || c.Codec == "zstd"
			if headerSafe && kind == "random" {
				// snappy / zstd size their output from a length field in the first
				// bytes before validating anything: garbage there makes the upstream
				// decoders allocate gigabytes (memory use is not part of the property,
				// and the sandbox has no memory limit to contain it).
				kind = "flip"
			}
			switch kind {
			case "random":
				bad = x
			default:
				enc, err := codec.Encode(nil, x)
				if err != nil || len(enc) == 0 {
					continue
				}
				bad = append([]byte{}, enc...)
				lo := 0
				if headerSafe {
					lo = 16
					if len(bad) <= lo {
						continue
					}
				}
				if kind == "truncate" {
					bad = bad[:lo+(len(bad)-lo)*s.BadAt/1000]
				} else {
					bad[lo+(len(bad)-1-lo)*s.BadAt/999] ^= 0x5A
				}
			}
			if c.Codec == "lz4" && kind == "random" && s.BadAt%2 == 0 {
				// a tiny block whose match offset is invalid: no buffer size makes it decodable
				bad = [][]byte{{0x10, 'a', 0, 0, 0}, {0x1f, 'a', 0, 0, 0xff, 0xff, 3}, {0xf0}}[s.BadAt/2%3]
			}
			// the outcome (error, or garbage for formats without integrity check) is not asserted;
			// it must return, must not panic, and must not affect later calls. It must return without
			// exhausting memory: a decoder that keeps doubling its buffer on an undecodable block never
			// fails "with an error" (snappy / zstd declare their output size in a header and are given
			// intact headers above; lz4 and the others have no such field).
			var ms0, ms1 runtime.MemStats
			runtime.ReadMemStats(&ms0)
			codec.Decode(pickDst(s.Dst, len(x), nil), bad)
			runtime.ReadMemStats(&ms1)
			if grown := ms1.TotalAlloc - ms0.TotalAlloc; grown > 1<<30 {
				return kit.Failf("c20/bad-decode-allocation"+feat, "step %d: Decode of %d undecodable bytes allocated %d MiB", si, len(bad), grown>>20)
			}
		}
	}
	return nil
}

func runCase(c Case, o *kit.Obs) *kit.Failure {
	codec := newCodecLevel(c.Codec, c.Level)
	feat := fmt.Sprintf("{codec=%s}", c.Codec)
	o.Class(fmt.Sprintf("level-%d", c.Level))
	hasBad, alias := false, false
	for i, s := range c.Steps {
		if s.Op == "baddecode" && i+1 < len(c.Steps) {
			hasBad = true
		}
		if s.Dst == 4 && i > 0 {
			alias = true
		}
	}
	if c.Goroutines <= 1 {
		if fl := history(c, codec, feat); fl != nil {
			return fl
		}
	} else {
		var wg sync.WaitGroup
		fails := make([]*kit.Failure, c.Goroutines)
		panics := make([]any, c.Goroutines)
		for g := 0; g < c.Goroutines; g++ {
			wg.Add(1)
			go func(g int) {
				defer wg.Done()
				defer func() {
					if r := recover(); r != nil {
						panics[g] = r
					}
				}()
				fails[g] = history(c, codec, feat+"{concurrent}")
			}(g)
		}
		wg.Wait()
		for g := range fails {
			if panics[g] != nil {
				return kit.Failf("c20/panic"+feat+"{concurrent}", "goroutine %d: %v", g, panics[g])
			}
			if fails[g] != nil {
				return fails[g]
			}
		}
	}
	o.Class("codec-" + c.Codec)
	o.ClassIf(hasBad, "after-failed-decode")
	o.ClassIf(alias, "aliased-dst")
	o.ClassIf(c.Goroutines > 1, "concurrent")
	if hasBad || alias || c.Goroutines > 1 {
		o.NonTrivial()
	}
	return nil
}

func firstDiff(a, b []byte) int {
	n := len(a)
	if len(b) < n {
		n = len(b)
	}
	for i := 0; i < n; i++ {
		if a[i] != b[i] {
			return i
		}
	}
	return n
}

var spec = &kit.Spec[Case]{
	Property: "C20",
	Name:     "codecs",
	Rule: "a fresh codec value per case (so the case's history is the pools' whole history), shared by all calls and goroutines of the case (uncompressed, snappy, gzip, brotli, zstd, lz4 raw) and a history of 1-7 calls: round trips of inputs (empty, 1 byte, incompressible pseudo-random, repetitive, mixed, zeros; sizes 0..70 KiB quick / 1 MiB thorough, boundary sizes around 64 KiB) " +
		"with dst in {nil, len 0 small cap, exact cap, large dirty, a sub-slice of the previous output}, interleaved with failing decodes (random bytes, truncated or bit-flipped valid streams); optionally the same history runs on 4 or 8 goroutines sharing the codec value. " +
		"Oracle: Decode(Encode(x)) == x at every step, inputs unmodified, Encode's output is decoded to x by the independent decompressor of harness/ref, nothing panics, failed decodes leave no trace. Non-trivial = a failed decode precedes a round trip, or dst aliases an earlier output, or the run is concurrent.",
	Assumptions: []string{
		"uncompressed gets no failing-decode steps (every input decodes); LZ4 raw gets them since finding F67 was repaired (before, lz4.Decode never returned on an undecodable block), including crafted blocks with an invalid match offset",
		"snappy and zstd failing decodes keep the first 16 bytes of the stream intact (length fields there make the upstream decoders allocate gigabytes before validating)",
		"the outcome of a failing decode (error or garbage) is not asserted, only that it returns, does not panic and does not affect later calls",
	},
	Gen: genCase,
	Run: runCase,
}

func TestProp(t *testing.T) { kit.Both(t, spec) }

var _ = c02.CodecID
