package c20

import (
	"bytes"
	"fmt"
	"testing"

	"pgregory.net/rapid"

	"verifharness/kit"
)

// LargeCase: one large input (beyond any internal buffer, window or limit of a
// codec wrapper) round-tripped through a fresh codec value.
type LargeCase struct {
	Codec string `json:"codec"`
	MiB   int    `json:"mib"`
	Extra int    `json:"extra"` // bytes beyond the MiB boundary
	In    Input  `json:"in"`    // N is ignored (MiB<<20 + Extra is used)
}

func genLarge(t *rapid.T) LargeCase {
	var c LargeCase
	c.Codec = codecNames[rapid.IntRange(0, len(codecNames)-1).Draw(t, "codec")]
	c.MiB = []int{1, 4, 16, 32, 64, 64, 65}[rapid.IntRange(0, 6).Draw(t, "mib")]
	if kit.RaceEnabled && c.MiB > 4 {
		c.MiB = 4 // the race detector slows the codecs by an order of magnitude; the sizes beyond are covered by the other builds
	}
	c.Extra = []int{0, 1, 4097}[rapid.IntRange(0, 2).Draw(t, "extra")]
	c.In = Input{Mode: []string{"repeat", "zero", "mixed"}[rapid.IntRange(0, 2).Draw(t, "mode")], Seed: rapid.Uint64().Draw(t, "seed"), Motif: []byte("parquet-go verif motif 0123456789")}
	return c
}

func runLarge(c LargeCase, o *kit.Obs) *kit.Failure {
	in := c.In
	in.N = c.MiB<<20 + c.Extra
	x := in.bytes()
	keep := append([]byte{}, x[:1<<16]...)
	codec := newCodec(c.Codec)
	feat := fmt.Sprintf("{codec=%s}{large}", c.Codec)
	enc, err := codec.Encode(nil, x)
	if err != nil {
		return kit.Failf("c20/encode-error"+feat, "Encode of %d bytes: %v", len(x), err)
	}
	dec, err := codec.Decode(nil, enc)
	if err != nil {
		return kit.Failf("c20/decode-error"+feat, "Decode(Encode(x)) of %d bytes (%d MiB + %d): %v", len(x), c.MiB, c.Extra, err)
	}
	if !bytes.Equal(dec, x) {
		return kit.Failf("c20/roundtrip"+feat, "Decode(Encode(x)) != x for %d bytes (got %d bytes)", len(x), len(dec))
	}
	if !bytes.Equal(keep, x[:1<<16]) {
		return kit.Failf("c20/input-modified"+feat, "the input of Encode was modified")
	}
	o.Class("codec-" + c.Codec)
	o.Class(fmt.Sprintf("mib-%d", c.MiB))
	if c.MiB >= 16 {
		o.NonTrivial()
	}
	return nil
}

var largeSpec = &kit.Spec[LargeCase]{
	Property: "C20",
	Name:     "large",
	Rule: "one input of 1/4/16/32/64/65 MiB (+0, +1 or +4097 bytes) of repeated-motif, zero or mixed content round-tripped through a fresh codec value of each codec with nil destinations: Decode(Encode(x)) == x, input untouched. " +
		"A handful of cases per run (sizes, not histories, are the point: block sizes, window sizes and decoder memory limits of the wrapped libraries). Non-trivial = ≥16 MiB.",
	Assumptions: []string{"content is compressible so that the slow codecs stay fast; incompressible large inputs are not explored"},
	Scale:       0.01,
	Gen:         genLarge,
	Run:         runLarge,
}

func TestPropLarge(t *testing.T) { kit.Both(t, largeSpec) }
