package c18

import "io"

var errEOF = io.EOF
