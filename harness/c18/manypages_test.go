package c18

import (
	"bytes"
	"fmt"
	"io"
	"testing"

	"github.com/parquet-go/parquet-go"
	"pgregory.net/rapid"

	"verifharness/kit"
	"verifharness/pq"
)

// PagesCase: an encrypted column chunk with more data pages than a 16-bit page
// ordinal can number (one row per page). The AAD of a page module carries its
// ordinal: either the writer refuses, or every page is authenticated under its
// own ordinal (two pages must not be exchangeable) and the chunk's bloom filter
// knows every value.
type PagesCase struct {
	Pages     int  `json:"pages"`
	EncFooter bool `json:"encfooter"`
	Bloom     bool `json:"bloom"`
}

func genPagesCase(t *rapid.T) PagesCase {
	return PagesCase{
		Pages:     []int{300, 32767, 32768, 32769, 40000, 65537}[rapid.IntRange(0, 5).Draw(t, "pages")],
		EncFooter: rapid.Bool().Draw(t, "encfooter"),
		Bloom:     rapid.Bool().Draw(t, "bloom"),
	}
}

func runPagesCase(c PagesCase, o *kit.Obs) *kit.Failure {
	type Row struct {
		V int64 `parquet:"v,plain"`
	}
	key := pq.FooterKeyOnly("0123456789abcdef")
	feat := fmt.Sprintf("{pages=%d}", c.Pages)
	opts := []parquet.WriterOption{
		parquet.WithEncryption(&parquet.EncryptionConfig{FooterKey: key, EncryptedFooter: c.EncFooter}),
		parquet.PageBufferSize(1), parquet.Compression(&parquet.Uncompressed), parquet.MaxRowsPerRowGroup(1 << 30),
	}
	if c.Bloom {
		opts = append(opts, parquet.BloomFilters(parquet.SplitBlockFilter(10, "v")))
	}
	var buf bytes.Buffer
	w := parquet.NewGenericWriter[Row](&buf, opts...)
	var werr error
	for i := 0; i < c.Pages && werr == nil; i++ {
		_, werr = w.Write([]Row{{V: int64(i)*7 + 1}})
	}
	if werr == nil {
		werr = w.Close()
	}
	if werr != nil {
		// refusing what cannot be numbered is fine
		o.Class("writer-refused")
		if c.Pages <= 32768 {
			return kit.Failf("c18/manypages/refused"+feat, "%d pages fit the 16-bit page ordinal and were refused: %v", c.Pages, werr)
		}
		return nil
	}
	data := buf.Bytes()
	f, err := parquet.OpenFile(bytes.NewReader(data), int64(len(data)), parquet.WithDecryption(key))
	if err != nil {
		return kit.Failf("c18/manypages/open-error"+feat, "%v", err)
	}
	cc := f.RowGroups()[0].ColumnChunks()[0]
	if oi, err := cc.OffsetIndex(); err == nil && oi != nil && oi.NumPages() != c.Pages {
		o.Class("not-one-row-per-page")
		return nil
	}
	read := func(data []byte) ([]Row, error) {
		f, err := parquet.OpenFile(bytes.NewReader(data), int64(len(data)), parquet.WithDecryption(key))
		if err != nil {
			return nil, err
		}
		r := parquet.NewGenericReader[Row](f)
		defer r.Close()
		out := make([]Row, c.Pages+1)
		n, err := r.Read(out)
		if err == io.EOF {
			err = nil
		}
		return out[:n], err
	}
	rows, err := read(data)
	if err != nil || len(rows) != c.Pages {
		return kit.Failf("c18/manypages/roundtrip"+feat, "%d rows of %d read back, err=%v", len(rows), c.Pages, err)
	}
	for i, r := range rows {
		if r.V != int64(i)*7+1 {
			return kit.Failf("c18/manypages/roundtrip"+feat, "row %d reads back as %d", i, r.V)
		}
	}
	if c.Bloom {
		bf := cc.BloomFilter()
		if bf == nil {
			return kit.Failf("c18/manypages/no-filter"+feat, "no bloom filter on the chunk")
		}
		for _, i := range []int{0, 1, c.Pages / 2, c.Pages - 1} {
			if ok, err := bf.Check(parquet.Int64Value(int64(i)*7 + 1)); err != nil || !ok {
				return kit.Failf("c18/manypages/bloom-false-negative"+feat, "the bloom filter of the encrypted chunk of %d pages reports the written value of row %d absent (err=%v)", c.Pages, i, err)
			}
		}
	}
	// exchange the bytes of page 0 and of the page whose ordinal equals 0 modulo 65536 (same length: same module sizes)
	if c.Pages > 65536 {
		oi, err := cc.OffsetIndex()
		if err == nil && oi != nil && oi.CompressedPageSize(0) == oi.CompressedPageSize(65536) {
			bad := append([]byte{}, data...)
			a, b, n := oi.Offset(0), oi.Offset(65536), oi.CompressedPageSize(0)
			copy(bad[a:a+n], data[b:b+n])
			copy(bad[b:b+n], data[a:a+n])
			if got, err := read(bad); err == nil {
				return kit.Failf("c18/manypages/swap-accepted"+feat, "pages 0 and 65536 of the chunk exchanged: the read reported no error (row 0 = %d)", got[0].V)
			}
			o.Class("swap-rejected")
		}
	}
	o.Class(fmt.Sprintf("pages-%d", c.Pages))
	if c.Pages > 32767 {
		o.NonTrivial()
	}
	return nil
}

var pagesSpec = &kit.Spec[PagesCase]{
	Property: "C18",
	Name:     "manypages",
	Rule: "an encrypted INT64 column chunk of 300 / 32767 / 32768 / 32769 / 40000 / 65537 data pages (one row per page), with or without a bloom filter: the writer may refuse more pages than a 16-bit ordinal numbers; " +
		"if it accepts, the rows read back, the bloom filter knows the values, and exchanging the bytes of pages 0 and 65536 is detected. Non-trivial = more than 32767 pages.",
	Scale:       0.05,
	CaseTimeout: 300e9,
	Gen:         genPagesCase,
	Run:         runPagesCase,
}

func TestPropManyPages(t *testing.T) { kit.Both(t, pagesSpec) }
