package c18

import (
	"fmt"
	"testing"

	"pgregory.net/rapid"

	"verifharness/gen"
	"verifharness/kit"
	"verifharness/pq"
	"verifharness/ref"
)

// SweepCase: a tiny encrypted file in which EVERY byte of EVERY encrypted
// module located by the independent reader (footer / footer signature, column
// metadata, page headers, page bodies, dictionary headers and bodies) gets one
// bit flipped, one fault at a time; the complete read has to fail.
type SweepCase struct {
	Schema    ref.Node       `json:"schema"`
	Plan      gen.RowPlan    `json:"plan"`
	Opts      gen.WriterOpts `json:"opts"`
	EncFooter bool           `json:"encfooter"`
	ColKeys   []int          `json:"colkeys,omitempty"`
	Prefix    []byte         `json:"prefix,omitempty"`
	Seed      uint64         `json:"seed"`
	Bit       int            `json:"bit"`
}

func genSweep(t *rapid.T) SweepCase {
	var c SweepCase
	c.Schema = gen.Schema(t, gen.SchemaOpts{MaxDepth: 2, MaxLeaves: 2, LeafIDs: leaves, PerLeafEnc: true, EncFor: pq.ValidEncodings})
	cols := ref.Columns(&c.Schema)
	c.Plan = gen.RowsAtLeast(t, &c.Schema, 4, 5, 40, gen.ValueOpts{Style: gen.SmallDom, Leaf: gen.Opts{MaxBytes: 8}})
	c.Opts = gen.WriterOptions(t, cols, gen.OptsBias{SmallPages: true, NoBloom: true, EncFor: pq.ValidEncodings, Codecs: []string{"", "none", "snappy"}})
	c.Opts.Pool, c.Opts.KV = "", nil
	c.Opts.PageBuf = []int{64, 256}[rapid.IntRange(0, 1).Draw(t, "pb")]
	c.Opts.MaxRows = int64([]int{0, 64}[rapid.IntRange(0, 1).Draw(t, "mr")])
	c.EncFooter = rapid.Bool().Draw(t, "encfooter")
	for i := range cols {
		if rapid.IntRange(0, 2).Draw(t, "colkey") == 0 {
			c.ColKeys = append(c.ColKeys, i)
		}
	}
	if rapid.Bool().Draw(t, "hasprefix") {
		c.Prefix = rapid.SliceOfN(rapid.Byte(), 1, 8).Draw(t, "prefix")
	}
	c.Seed = rapid.Uint64().Draw(t, "seed")
	c.Bit = rapid.IntRange(0, 7).Draw(t, "bit")
	return c
}

func runSweep(sc SweepCase, o *kit.Obs) *kit.Failure {
	c := Case{Schema: sc.Schema, Plan: sc.Plan, Opts: sc.Opts, EncFooter: sc.EncFooter, ColKeys: sc.ColKeys, Prefix: sc.Prefix, Seed: sc.Seed, Missing: -1}
	cols := ref.Columns(&c.Schema)
	rows := c.Plan.ExpandWith(&c.Schema)
	cfg, ring, rk := c.config(cols)
	feat := fmt.Sprintf("{sweep,footer=%s}", map[bool]string{true: "encrypted", false: "plaintext"}[c.EncFooter])
	data, err := write(c, cols, rows, cfg)
	if err != nil {
		o.Rejected()
		return nil
	}
	want, err := ref.SplitRows(ref.ShredRows(&c.Schema, rows))
	if err != nil {
		return kit.Failf("harness/split", "%v", err)
	}
	got, err, p := readAll(data, ring, cols)
	if p != nil || err != nil || len(got) != len(want) {
		return kit.Failf("c18/roundtrip-error"+feat, "reading the untouched file with the right keys: %d of %d rows, err=%v panic=%v", len(got), len(want), err, p)
	}
	ef, err := ref.ParseEncrypted(data, rk, ref.LibModules)
	if err != nil {
		return kit.Failf("c18/independent-reader"+feat, "%v", err)
	}
	for gi := range ef.RowGroups {
		for ci := range ef.RowGroups[gi].Chunks {
			k := rk.Footer
			if ck, ok := rk.Columns[ref.PathString(cols[ci].Path)]; ok {
				k = ck
			}
			if err := ef.WalkEncryptedChunk(gi, ci, k, ref.LibModules); err != nil {
				return kit.Failf("c18/independent-reader"+feat, "row group %d column %d: %v", gi, ci, err)
			}
		}
	}
	bad := append([]byte{}, data...)
	faults := 0
	kinds := map[string]bool{}
	for _, m := range ef.Modules {
		kinds[m.Kind] = true
		// the 4-byte length prefix is framing, not part of the authenticated module: skipped
		for off := 4; off < m.Len; off++ {
			pos := m.Offset + int64(off)
			bad[pos] ^= 1 << uint((sc.Bit+off)%8)
			got, err, p := readAll(bad, ring, cols)
			bad[pos] = data[pos]
			faults++
			where := fmt.Sprintf("bit flipped at byte %d of %d of the %s module of row group %d column %d page %d", off, m.Len, m.Kind, m.RG, m.Col, m.PageIdx)
			if p != nil {
				return kit.Failf("c18/tamper-panic"+feat+"{kind="+m.Kind+"}", "%s: panic: %v", where, p)
			}
			if err == nil {
				return kit.Failf("c18/tamper-accepted"+feat+"{kind="+m.Kind+"}", "%s: the complete read returned no error (%d rows)", where, len(got))
			}
			if d := prefixDiff(cols, want, got); d != "" {
				return kit.Failf("c18/tamper-data"+feat+"{kind="+m.Kind+"}", "%s: rows delivered before the error differ from the written rows: %s", where, d)
			}
		}
	}
	o.Metric("faults_enumerated", faults)
	o.Metric("modules_swept", len(ef.Modules))
	o.Class("footer-" + map[bool]string{true: "encrypted", false: "plaintext"}[c.EncFooter])
	for k := range kinds {
		o.Class("module-" + k)
	}
	if len(ef.Modules) >= 4 && faults >= 100 {
		o.NonTrivial()
	}
	return nil
}

var sweepSpec = &kit.Spec[SweepCase]{
	Property: "C18",
	Name:     "sweep",
	Rule: "a tiny encrypted file (≤2 leaves, 5-40 rows, both footer modes, per-column keys, AAD prefix); the independent reader lists every encrypted module (footer or footer signature, column metadata, page headers, page bodies, dictionary pages) and EVERY byte of each module after its length prefix " +
		"(nonce, ciphertext, tag) gets one bit flipped, one fault at a time; the complete read (all row groups, page indexes) must fail, without panic, and rows delivered before the error must be the written ones. The fault space of the file under this bit pattern is enumerated completely; metrics count the faults. Non-trivial = ≥4 modules and ≥100 faults.",
	Assumptions: []string{"exhaustive over the bytes of the modules of one file and one single-bit pattern per offset; the 4-byte length prefixes are not flipped (framing: a flipped high bit asks the reader for a 2 GiB module)"},
	Scale:       0.15,
	Gen:         genSweep,
	Run:         runSweep,
}

func TestPropSweep(t *testing.T) { kit.Both(t, sweepSpec) }
