package c18

import (
	"bytes"
	"fmt"
	"io"
	"testing"

	"github.com/parquet-go/parquet-go"
	"pgregory.net/rapid"

	"verifharness/kit"
	"verifharness/pq"
)

// BigCase: one encrypted module far larger than any internal read chunk, with
// a length around a multiple of 1 MiB: one row holding one byte array value of
// K MiB + Delta bytes in an uncompressed PLAIN column (the page body module is
// that value plus a few bytes), or an INT64 dictionary of about that size.
type BigCase struct {
	MiB       int    `json:"mib"`
	Delta     int    `json:"delta"` // -64..+16 around the MiB boundary
	Shape     string `json:"shape"` // "value" | "dictionary"
	EncFooter bool   `json:"encfooter"`
	PV        int    `json:"pv"`
}

func genBigCase(t *rapid.T) BigCase {
	return BigCase{
		MiB:       rapid.IntRange(1, 3).Draw(t, "mib"),
		Delta:     rapid.IntRange(-64, 16).Draw(t, "delta"),
		Shape:     []string{"value", "value", "dictionary"}[rapid.IntRange(0, 2).Draw(t, "shape")],
		EncFooter: rapid.Bool().Draw(t, "encfooter"),
		PV:        rapid.IntRange(1, 2).Draw(t, "pv"),
	}
}

func runBigCase(c BigCase, o *kit.Obs) *kit.Failure {
	key := pq.FooterKeyOnly("0123456789abcdef")
	cfg := &parquet.EncryptionConfig{FooterKey: key, EncryptedFooter: c.EncFooter}
	feat := fmt.Sprintf("{shape=%s,footer=%v}", c.Shape, c.EncFooter)
	var buf bytes.Buffer
	var check func(f *parquet.File) *kit.Failure
	opts := []parquet.WriterOption{parquet.WithEncryption(cfg), parquet.DataPageVersion(c.PV), parquet.PageBufferSize(64 << 20), parquet.Compression(&parquet.Uncompressed)}
	switch c.Shape {
	case "value":
		type Row struct {
			B []byte `parquet:"b,plain"`
		}
		n := c.MiB<<20 + c.Delta - 32 // the module adds 28 bytes, the PLAIN value 4
		val := make([]byte, n)
		for i := range val {
			val[i] = byte(i*7 + i>>9)
		}
		w := parquet.NewGenericWriter[Row](&buf, opts...)
		if _, err := w.Write([]Row{{B: val}}); err != nil {
			return kit.Failf("c18/big/write-error"+feat, "%v", err)
		}
		if err := w.Close(); err != nil {
			return kit.Failf("c18/big/write-error"+feat, "%v", err)
		}
		check = func(f *parquet.File) *kit.Failure {
			rows, err := readTyped[Row](buf.Bytes(), key)
			if err != nil {
				return kit.Failf("c18/big/roundtrip-error"+feat, "a %d-byte value (module of about %d MiB%+d): %v", n, c.MiB, c.Delta, err)
			}
			if len(rows) != 1 || !bytes.Equal(rows[0].B, val) {
				return kit.Failf("c18/big/roundtrip-differs"+feat, "a %d-byte value reads back as %d rows", n, len(rows))
			}
			return nil
		}
	default:
		type Row struct {
			V int64 `parquet:"v,dict"`
		}
		n := (c.MiB<<20 + c.Delta - 28) / 8 // the dictionary page body: 8 bytes per distinct value (+28 for the module)
		rows := make([]Row, n)
		for i := range rows {
			rows[i].V = int64(i)*7919 + 1
		}
		w := parquet.NewGenericWriter[Row](&buf, append(opts, parquet.DictionaryMaxBytes(1<<30))...)
		if _, err := w.Write(rows); err != nil {
			return kit.Failf("c18/big/write-error"+feat, "%v", err)
		}
		if err := w.Close(); err != nil {
			return kit.Failf("c18/big/write-error"+feat, "%v", err)
		}
		check = func(f *parquet.File) *kit.Failure {
			got, err := readTyped[Row](buf.Bytes(), key)
			if err != nil {
				return kit.Failf("c18/big/roundtrip-error"+feat, "a dictionary of %d INT64 values (module of about %d MiB%+d): %v", n, c.MiB, c.Delta, err)
			}
			if len(got) != len(rows) {
				return kit.Failf("c18/big/roundtrip-differs"+feat, "%d rows read, %d written", len(got), len(rows))
			}
			for i := range got {
				if got[i] != rows[i] {
					return kit.Failf("c18/big/roundtrip-differs"+feat, "row %d reads back as %d, written %d", i, got[i].V, rows[i].V)
				}
			}
			return nil
		}
	}
	if fl := check(nil); fl != nil {
		return fl
	}
	o.Class("shape-" + c.Shape)
	o.Class(fmt.Sprintf("delta-mod-8=%d", ((c.Delta%8)+8)%8))
	o.NonTrivial()
	return nil
}

func readTyped[T any](data []byte, key parquet.KeyRetriever) ([]T, error) {
	f, err := parquet.OpenFile(bytes.NewReader(data), int64(len(data)), parquet.WithDecryption(key))
	if err != nil {
		return nil, err
	}
	r := parquet.NewGenericReader[T](f)
	defer r.Close()
	out := make([]T, f.NumRows())
	n, err := r.Read(out)
	if err != nil && err != io.EOF {
		return out[:n], err
	}
	return out[:n], nil
}

var bigSpec = &kit.Spec[BigCase]{
	Property: "C18",
	Name:     "bigmodule",
	Rule: "an encrypted file whose single data page (one byte array value) or dictionary page (INT64 dictionary) is a module of 1-3 MiB -64..+16 bytes, uncompressed, both footer modes and page versions: it must read back exactly with the right key. " +
		"Modules beyond 1 MiB are read in several steps; lengths next to the boundary reach every residue of the step size. Non-trivial = every case.",
	Scale: 0.25,
	Gen:   genBigCase,
	Run:   runBigCase,
}

func TestPropBigModule(t *testing.T) { kit.Both(t, bigSpec) }
