package c18

import (
	"bytes"
	"crypto/sha256"
	"encoding/binary"
	"errors"
	"fmt"
	"os"
	"runtime"
	"testing"

	"github.com/parquet-go/parquet-go"
	"pgregory.net/rapid"

	"verifharness/gen"
	"verifharness/kit"
	"verifharness/pq"
	"verifharness/ref"
)

func TestMain(m *testing.M) { kit.Main(m) }

type Tamper struct {
	Kind string `json:"kind"` // flip | swap | transplant
	Mod  int    `json:"mod"`  // module index (mod number of modules)
	Off  int    `json:"off"`  // per-mille offset within the module (flip)
	Mask byte   `json:"mask"`
}

type Case struct {
	Schema    ref.Node       `json:"schema"`
	Plan      gen.RowPlan    `json:"plan"`
	Opts      gen.WriterOpts `json:"opts"`
	Ops       []gen.Op       `json:"ops"`
	EncFooter bool           `json:"encfooter"`
	ColKeys   []int          `json:"colkeys,omitempty"` // leaf columns with their own key
	Prefix    []byte         `json:"prefix,omitempty"`
	Seed      uint64         `json:"seed"`
	Missing   int            `json:"missing"`         // -1, or index into ColKeys of the key the reader lacks
	Wrong     string         `json:"wrong,omitempty"` // "" | "footer" | "column"
	Tampers   []Tamper       `json:"tampers"`
	Seeks     []int          `json:"seeks"`
	SkipIndex bool           `json:"skipindex,omitempty"` // reader: SkipPageIndex(true)
	Async     bool           `json:"async,omitempty"`     // reader: asynchronous read mode
	RowGroups bool           `json:"rowgroups,omitempty"` // the rows are written through BeginRowGroup / Commit (row groups filled independently)
	Reused    bool           `json:"reused,omitempty"`    // the writer wrote (and closed) another encrypted file before, then was Reset
}

var leaves = []string{"string", "bytes", "int64", "flba:16", "uuid", "int32", "double", "bool"}

func genCase(t *rapid.T) Case {
	var c Case
	c.Schema = gen.Schema(t, gen.SchemaOpts{MaxDepth: 2, MaxLeaves: 4, LeafIDs: leaves, PerLeafEnc: true, EncFor: pq.ValidEncodings})
	cols := ref.Columns(&c.Schema)
	c.Plan = gen.RowsAtLeast(t, &c.Schema, 5, []int{5, 40, 120}[rapid.IntRange(0, 2).Draw(t, "min")], 300, gen.ValueOpts{Style: gen.SmallDom, Leaf: gen.Opts{MaxBytes: 8}})
	c.Opts = gen.WriterOptions(t, cols, gen.OptsBias{SmallPages: true, EncFor: pq.ValidEncodings, Codecs: []string{"", "", "none", "snappy"}})
	c.Opts.Pool = ""
	c.Opts.PageBuf = []int{64, 128, 512, 0}[rapid.IntRange(0, 3).Draw(t, "pb")]
	c.Opts.MaxRows = int64([]int{0, 0, 30, 100}[rapid.IntRange(0, 3).Draw(t, "mr")])
	manyPages := false
	// ordinals above 255 (the AAD stores them as little-endian int16): many row groups, or many pages in a chunk
	switch rapid.IntRange(0, 15).Draw(t, "ordinals") {
	case 5:
		c.Plan = gen.RowsAtLeast(t, &c.Schema, 5, 258, 300, gen.ValueOpts{Style: gen.SmallDom, Leaf: gen.Opts{MaxBytes: 8}})
		c.Opts.MaxRows = 1
	case 6:
		// pages are cut every 64 rows at the earliest: 257 pages need 16448 rows in one row group
		c.Plan = gen.RowsAtLeast(t, &c.Schema, 5, 16600, 17000, gen.ValueOpts{Style: gen.SmallDom, Leaf: gen.Opts{MaxBytes: 8}})
		c.Opts.MaxRows, c.Opts.PageBuf = 0, 32
		manyPages = true
	}
	c.Ops = gen.WriteOps(t, c.Plan.NumRows())
	if manyPages {
		c.Ops = nil // one row group
	}
	c.EncFooter = rapid.Bool().Draw(t, "encfooter")
	for i := range cols {
		if rapid.IntRange(0, 2).Draw(t, "colkey") == 0 {
			c.ColKeys = append(c.ColKeys, i)
		}
	}
	if rapid.Bool().Draw(t, "hasprefix") {
		c.Prefix = rapid.SliceOfN(rapid.Byte(), 1, 12).Draw(t, "prefix")
	}
	c.Seed = rapid.Uint64().Draw(t, "seed")
	c.Missing = -1
	if len(c.ColKeys) > 0 && rapid.IntRange(0, 3).Draw(t, "missing") == 0 {
		c.Missing = rapid.IntRange(0, len(c.ColKeys)-1).Draw(t, "missingidx")
	}
	c.Wrong = []string{"", "", "", "footer", "column"}[rapid.IntRange(0, 4).Draw(t, "wrong")]
	nt := rapid.IntRange(0, kit.Pick(10, 60)).Draw(t, "ntampers")
	if manyPages {
		nt = min(nt, 3)
	}
	for i := 0; i < nt; i++ {
		c.Tampers = append(c.Tampers, Tamper{
			Kind: []string{"flip", "flip", "flip", "swap", "transplant", "plaintext", "plaintext"}[rapid.IntRange(0, 6).Draw(t, "tk")],
			Mod:  rapid.IntRange(0, 1000).Draw(t, "tmod"),
			Off:  []int{0, 2, 4, 10, 16, 500, 985, 999}[rapid.IntRange(0, 7).Draw(t, "toffk")],
			Mask: byte(1 << uint(rapid.IntRange(0, 7).Draw(t, "tbit"))),
		})
	}
	c.RowGroups = rapid.IntRange(0, 5).Draw(t, "rowgroups") == 0
	if c.RowGroups && kit.Known("C18", "c18/concurrent-row-group-writers-not-encrypted") {
		kit.Excluded("concurrent-row-group-writers")
		c.RowGroups = false
	}
	c.Reused = rapid.IntRange(0, 3).Draw(t, "reused") == 0
	c.SkipIndex = rapid.IntRange(0, 2).Draw(t, "skipindex") == 0
	c.Async = rapid.IntRange(0, 3).Draw(t, "async") == 0
	ns := rapid.IntRange(0, 4).Draw(t, "nseeks")
	for i := 0; i < ns; i++ {
		c.Seeks = append(c.Seeks, rapid.IntRange(0, 999).Draw(t, "seek"))
	}
	return c
}

func key(seed uint64, what string) []byte {
	h := sha256.Sum256([]byte(fmt.Sprintf("%d/%s", seed, what)))
	return h[:16]
}

type keyRing struct {
	footer  []byte
	columns map[string][]byte
}

func (k keyRing) FooterKey([]byte) ([]byte, error) { return k.footer, nil }
func (k keyRing) ColumnKey(path []string, _ []byte) ([]byte, error) {
	if key, ok := k.columns[ref.PathString(path)]; ok {
		return key, nil
	}
	return nil, fmt.Errorf("no key for %v: %w", path, parquet.ErrKeyNotFound)
}

// markRows replaces leaf values by high-entropy markers derived from (seed, column, row).
func markRows(c Case, cols []ref.Column, rows []ref.V) (marked []ref.V, markers [][]byte) {
	var mark func(n *ref.Node, v ref.V, col *int, row int) ref.V
	mark = func(n *ref.Node, v ref.V, col *int, row int) ref.V {
		if v.Null {
			*col += ref.LeafCount(n)
			return v
		}
		if n.Rep == "rep" {
			out := ref.V{}
			start := *col
			for i := range v.L {
				*col = start
				out.L = append(out.L, markContent(c, n, v.L[i], col, row*131+i, &markers, mark))
			}
			*col = start + ref.LeafCount(n)
			return out
		}
		return markContent(c, n, v, col, row, &markers, mark)
	}
	root := &c.Schema
	for ri, r := range rows {
		col := 0
		out := ref.V{}
		for i := range root.Children {
			var f ref.V
			if i < len(r.F) {
				f = r.F[i]
			}
			out.F = append(out.F, mark(&root.Children[i], f, &col, ri))
		}
		marked = append(marked, out)
	}
	return
}

func markContent(c Case, n *ref.Node, v ref.V, col *int, row int, markers *[][]byte, mark func(*ref.Node, ref.V, *int, int) ref.V) ref.V {
	switch n.Kind {
	case "leaf":
		l := ref.ParseLeaf(n.Leaf)
		h := sha256.Sum256([]byte(fmt.Sprintf("%d/%d/%d", c.Seed, *col, row)))
		*col++
		switch {
		case l.Phys == ref.ByteArr:
			b := append(append([]byte{}, h[:12]...), v.B...)
			*markers = append(*markers, b[:12])
			return ref.V{B: b}
		case l.Phys == ref.FLBA && l.Len >= 12:
			b := make([]byte, l.Len)
			copy(b, h[:])
			*markers = append(*markers, b[:12])
			return ref.V{B: b}
		case l.Phys == ref.Int64, l.Phys == ref.Double:
			x := int64(binary.LittleEndian.Uint64(h[:8])&0x7fefffffffffffff) | 0x4000000000000000
			*markers = append(*markers, binary.LittleEndian.AppendUint64(nil, uint64(x)))
			return ref.V{I: x}
		}
		return v
	case "group":
		out := ref.V{}
		for i := range n.Children {
			var f ref.V
			if i < len(v.F) {
				f = v.F[i]
			}
			out.F = append(out.F, mark(&n.Children[i], f, col, row))
		}
		return out
	case "list":
		out := ref.V{}
		start := *col
		for i := range v.L {
			*col = start
			out.L = append(out.L, mark(&n.Children[0], v.L[i], col, row*131+i))
		}
		*col = start + ref.LeafCount(n)
		return out
	case "map":
		out := ref.V{}
		start := *col
		for i, e := range v.L {
			*col = start
			k := mark(&n.Children[0], e.F[0], col, row*131+i)
			val := mark(&n.Children[1], e.F[1], col, row*131+i)
			out.L = append(out.L, ref.V{F: []ref.V{k, val}})
		}
		*col = start + ref.LeafCount(n)
		return out
	}
	return v
}

func (c Case) config(cols []ref.Column) (*parquet.EncryptionConfig, keyRing, ref.Keys) {
	cfg := &parquet.EncryptionConfig{FooterKey: key(c.Seed, "footer"), EncryptedFooter: c.EncFooter, AadPrefix: c.Prefix, ColumnKeys: map[string][]byte{}}
	ring := keyRing{footer: cfg.FooterKey, columns: map[string][]byte{}}
	rk := ref.Keys{Footer: cfg.FooterKey, Columns: map[string][]byte{}, Prefix: c.Prefix}
	for _, ci := range c.ColKeys {
		if ci < len(cols) {
			p := ref.PathString(cols[ci].Path)
			k := key(c.Seed, "col/"+p)
			cfg.ColumnKeys[p] = k
			ring.columns[p] = k
			rk.Columns[p] = k
		}
	}
	return cfg, ring, rk
}

func write(c Case, cols []ref.Column, rows []ref.V, cfg *parquet.EncryptionConfig) ([]byte, error) {
	schema := pq.BuildSchema(&c.Schema)
	opts := append([]parquet.WriterOption{schema, parquet.WithEncryption(cfg)}, pq.Options(c.Opts, cols, "")...)
	var buf bytes.Buffer
	w := parquet.NewWriter(&buf, opts...)
	prows := pq.Rows(&c.Schema, cols, rows)
	if c.Reused {
		// an earlier file through the same writer: the first two thirds of the rows, several pages
		var prior bytes.Buffer
		w.Reset(&prior)
		if _, err := w.WriteRows(prows[:len(prows)*2/3]); err != nil {
			return nil, err
		}
		if err := w.Close(); err != nil {
			return nil, err
		}
		w.Reset(&buf)
	}
	if c.RowGroups {
		// two row groups filled side by side, committed in order
		half := len(prows) / 2
		a, b := w.BeginRowGroup(), w.BeginRowGroup()
		if _, err := a.WriteRows(prows[:half]); err != nil {
			return nil, err
		}
		if _, err := b.WriteRows(prows[half:]); err != nil {
			return nil, err
		}
		if _, err := a.Commit(); err != nil {
			return nil, err
		}
		if _, err := b.Commit(); err != nil {
			return nil, err
		}
	} else if err := pq.ApplyOps(w, prows, c.Ops); err != nil {
		return nil, err
	}
	if err := w.Close(); err != nil {
		return nil, err
	}
	return buf.Bytes(), nil
}

// readAll opens with the ring and reads every row group; returns rows so far and the first error.
// fileOpts are the reader options of the current case (page index skipped, asynchronous pages).
var fileOpts []parquet.FileOption

func readAll(data []byte, ring parquet.KeyRetriever, cols []ref.Column) (rows []parquet.Row, err error, panicked any) {
	defer func() {
		if r := recover(); r != nil {
			panicked = r
		}
	}()
	f, err := parquet.OpenFile(bytes.NewReader(data), int64(len(data)), append([]parquet.FileOption{parquet.WithDecryption(ring)}, fileOpts...)...)
	if err != nil {
		return nil, err, nil
	}
	for _, rg := range f.RowGroups() {
		r := rg.Rows()
		got, err := pq.ReadAllRows(r, 40)
		r.Close()
		rows = append(rows, got...)
		if err != nil {
			return rows, err, nil
		}
	}
	// page index and bloom filters are modules too
	for _, rg := range f.RowGroups() {
		for _, cc := range rg.ColumnChunks() {
			if _, err := cc.ColumnIndex(); err != nil && !errors.Is(err, parquet.ErrMissingColumnIndex) {
				return rows, err, nil
			}
			if _, err := cc.OffsetIndex(); err != nil && !errors.Is(err, parquet.ErrMissingOffsetIndex) {
				return rows, err, nil
			}
			if bf := cc.BloomFilter(); bf != nil {
				if _, err := bf.Check(parquet.Int32Value(1)); err != nil {
					return rows, err, nil
				}
			}
		}
	}
	return rows, nil, nil
}

// readAllFile reads every row of an opened file through its row groups.
func readAllFile(f *parquet.File) (rows []parquet.Row, err error, panicked any) {
	defer func() {
		if r := recover(); r != nil {
			panicked = r
		}
	}()
	for _, rg := range f.RowGroups() {
		r := rg.Rows()
		got, err := pq.ReadAllRows(r, 40)
		r.Close()
		rows = append(rows, got...)
		if err != nil {
			return rows, err, nil
		}
	}
	return rows, nil, nil
}

func prefixDiff(cols []ref.Column, want [][][]ref.LV, got []parquet.Row) string {
	if len(got) > len(want) {
		return fmt.Sprintf("%d rows delivered, %d written", len(got), len(want))
	}
	for i, row := range got {
		s, err := pq.Streams(cols, []parquet.Row{row})
		if err != nil {
			return err.Error()
		}
		if d := pq.DiffStreams(cols, want[i], s); d != "" {
			return fmt.Sprintf("row %d: %s", i, d)
		}
	}
	return ""
}

// runCase files every failure of a case written through BeginRowGroup under one signature
// (open finding: those row groups are not encrypted at all).
func runCase(c Case, o *kit.Obs) *kit.Failure {
	f := runCaseInner(c, o)
	if f != nil && c.RowGroups {
		f.Msg = "rows written through BeginRowGroup/Commit with encryption configured: " + f.Msg + " [" + f.Sig + "]"
		f.Sig = "c18/concurrent-row-group-writers-not-encrypted"
	}
	return f
}

func runCaseInner(c Case, o *kit.Obs) *kit.Failure {
	fileOpts = nil
	if c.SkipIndex {
		fileOpts = append(fileOpts, parquet.SkipPageIndex(true))
	}
	if c.Async {
		fileOpts = append(fileOpts, parquet.FileReadMode(parquet.ReadModeAsync))
	}
	defer func() { fileOpts = nil }()
	cols := ref.Columns(&c.Schema)
	rows, markers := markRows(c, cols, c.Plan.ExpandWith(&c.Schema))
	cfg, ring, rk := c.config(cols)
	feat := fmt.Sprintf("{footer=%s}", map[bool]string{true: "encrypted", false: "plaintext"}[c.EncFooter])
	data, err := write(c, cols, rows, cfg)
	if os.Getenv("VERIF_DEBUG") != "" && len(rows) > 1000 {
		fmt.Println("DEBUG0 rows", len(rows), err, c.Opts.PageBuf, c.Opts.MaxRows)
	}
	if err != nil {
		o.Rejected()
		o.Class("write-error")
		return nil
	}
	wantStreams := ref.ShredRows(&c.Schema, rows)
	want, err := ref.SplitRows(wantStreams)
	if err != nil {
		return kit.Failf("harness/split", "%v", err)
	}
	// 1. round trip with the right keys, sequential then after seeks
	got, err, p := readAll(data, ring, cols)
	if p != nil || err != nil {
		return kit.Failf("c18/roundtrip-error"+feat, "reading with the right keys failed: err=%v panic=%v", err, p)
	}
	if d := prefixDiff(cols, want, got); d != "" || len(got) != len(want) {
		return kit.Failf("c18/roundtrip-differs"+feat, "%d of %d rows, %s", len(got), len(want), d)
	}
	if len(c.Seeks) > 0 && len(want) > 0 {
		f, err := parquet.OpenFile(bytes.NewReader(data), int64(len(data)), append([]parquet.FileOption{parquet.WithDecryption(ring)}, fileOpts...)...)
		if err != nil {
			return kit.Failf("c18/roundtrip-error"+feat, "%v", err)
		}
		r := parquet.NewReader(f)
		for _, s := range c.Seeks {
			k := int64(len(want)) * int64(s) / 1000
			if err := r.SeekToRow(k); err != nil {
				r.Close()
				return kit.Failf("c18/seek-error"+feat, "SeekToRow(%d): %v", k, err)
			}
			buf := make([]parquet.Row, 5)
			n, err := r.ReadRows(buf)
			if err != nil && n == 0 && k < int64(len(want)) {
				r.Close()
				return kit.Failf("c18/seek-read-error"+feat, "read after SeekToRow(%d): %v", k, err)
			}
			if d := prefixDiff(cols, want[k:], buf[:n]); d != "" {
				r.Close()
				return kit.Failf("c18/seek-rows-differ"+feat, "after SeekToRow(%d): %s", k, d)
			}
		}
		r.Close()
	}
	// 2. independent reader: structure, metadata completeness, values
	ef, err := ref.ParseEncrypted(data, rk, ref.LibModules)
	if err != nil {
		return kit.Failf("c18/independent-reader"+feat, "the reference reader (AES-GCM from the standard library, layout from Encryption.md) cannot open the file: %v", err)
	}
	colKey := func(ci int) []byte {
		if k, ok := rk.Columns[ref.PathString(cols[ci].Path)]; ok {
			return k
		}
		return rk.Footer
	}
	refStreams := make([][]ref.LV, len(cols))
	maxPages := 0
	for gi := range ef.RowGroups {
		for ci := range ef.RowGroups[gi].Chunks {
			ch := &ef.RowGroups[gi].Chunks[ci]
			where := fmt.Sprintf("row group %d column %d (%s)", gi, ci, ref.PathString(cols[ci].Path))
			md := ch.Meta
			var path []string
			for _, pth := range md.List(3) {
				path = append(path, string(pth.B))
			}
			if int(md.Int(1, -1)) != cols[ci].Leaf.Phys || ref.PathString(path) != ref.PathString(cols[ci].Path) || len(md.List(2)) == 0 {
				return kit.Failf("c18/column-metadata-incomplete"+feat, "%s: decrypted column metadata has type %d path %q encodings %d (want type %d path %q)", where, md.Int(1, -1), path, len(md.List(2)), cols[ci].Leaf.Phys, cols[ci].Path)
			}
			if err := ef.WalkEncryptedChunk(gi, ci, colKey(ci), ref.LibModules); err != nil {
				return kit.Failf("c18/independent-reader"+feat, "%s: %v", where, err)
			}
			maxPages = max(maxPages, len(ch.Pages))
			s, err := ef.DecodeChunk(ef.Cols[ci], cols[ci].Leaf, ch)
			if err != nil {
				return kit.Failf("c18/independent-reader"+feat, "%s: %v", where, err)
			}
			refStreams[ci] = append(refStreams[ci], s...)
		}
	}
	if d := pq.DiffStreams(cols, wantStreams, refStreams); d != "" {
		return kit.Failf("c18/independent-reader-differs"+feat, "%s", d)
	}
	// 2b. the offset index describes the encrypted pages as they sit in the file: a reader that fetches a page
	// by (offset, compressed_page_size) must get its header and body modules, no more, no less
	if lf, err := parquet.OpenFile(bytes.NewReader(data), int64(len(data)), parquet.WithDecryption(ring)); err == nil {
		type span struct{ off, size int64 }
		pagesOf := map[[2]int][]span{}
		for _, m := range ef.Modules {
			k := [2]int{m.RG, m.Col}
			switch m.Kind {
			case "page-header":
				pagesOf[k] = append(pagesOf[k], span{m.Offset, int64(m.Len)})
			case "page-body":
				if n := len(pagesOf[k]); n > 0 {
					pagesOf[k][n-1].size += int64(m.Len)
				}
			}
		}
		for gi, rg := range lf.RowGroups() {
			for ci, cc := range rg.ColumnChunks() {
				oi, err := cc.OffsetIndex()
				if err != nil || oi == nil {
					continue
				}
				pages := pagesOf[[2]int{gi, ci}]
				if oi.NumPages() != len(pages) {
					return kit.Failf("c18/offset-index-pages"+feat, "row group %d column %d: the offset index lists %d pages, the file holds %d encrypted data pages", gi, ci, oi.NumPages(), len(pages))
				}
				for pi := range pages {
					if oi.Offset(pi) != pages[pi].off || oi.CompressedPageSize(pi) != pages[pi].size {
						return kit.Failf("c18/offset-index-location"+feat, "row group %d column %d page %d of %d: the offset index says (offset %d, compressed size %d), the page's header and body modules are at offset %d and take %d bytes",
							gi, ci, pi, len(pages), oi.Offset(pi), oi.CompressedPageSize(pi), pages[pi].off, pages[pi].size)
					}
				}
			}
		}
	}
	// 3. no plaintext leak
	for _, m := range markers {
		if i := bytes.Index(data, m); i >= 0 {
			return kit.Failf("c18/plaintext-leak"+feat, "a written value (marker %x) appears in clear at offset %d of the file (%s)", m, i, region(ef, int64(i)))
		}
	}
	// 4. missing / wrong keys
	if c.Missing >= 0 && c.Missing < len(c.ColKeys) && c.ColKeys[c.Missing] < len(cols) {
		mc := c.ColKeys[c.Missing]
		partial := keyRing{footer: ring.footer, columns: map[string][]byte{}}
		for p, k := range ring.columns {
			if p != ref.PathString(cols[mc].Path) {
				partial.columns[p] = k
			}
		}
		f, err := parquet.OpenFile(bytes.NewReader(data), int64(len(data)), parquet.WithDecryption(partial))
		if err != nil {
			return kit.Failf("c18/missing-key-open"+feat, "OpenFile failed although only the key of column %d is missing (ErrKeyNotFound): %v", mc, err)
		}
		for gi, rg := range f.RowGroups() {
			for ci, cc := range rg.ColumnChunks() {
				vals, rerr := readColumn(cc)
				if ci == mc {
					if rerr == nil && len(vals) > 0 {
						return kit.Failf("c18/missing-key-data"+feat, "row group %d: column %d was read (%d values) without its key", gi, ci, len(vals))
					}
					if rerr == nil && rg.NumRows() > 0 {
						return kit.Failf("c18/missing-key-silent"+feat, "row group %d (%d rows): reading column %d without its key ended without an error (no values)", gi, rg.NumRows(), ci)
					}
					continue
				}
				if rerr != nil {
					return kit.Failf("c18/missing-key-other-column"+feat, "row group %d: column %d failed although its key is available: %v", gi, ci, rerr)
				}
			}
		}
		// copying the row groups into another (plain) file needs the missing column too: the copy must fail,
		// not splice the encrypted bytes of the column into the output
		if len(want) > 0 {
			var out bytes.Buffer
			cw := parquet.NewWriter(&out, f.Schema())
			var cerr error
			func() {
				defer func() {
					if r := recover(); r != nil {
						cerr = fmt.Errorf("panic: %v", r)
					}
				}()
				for _, rg := range f.RowGroups() {
					if _, cerr = cw.WriteRowGroup(rg); cerr != nil {
						return
					}
				}
				cerr = cw.Close()
			}()
			if cerr == nil {
				return kit.Failf("c18/missing-key-copy"+feat, "WriteRowGroup of the row groups of a file opened without the key of column %d, into a plain writer, and Close reported no error (%d bytes written)", mc, out.Len())
			}
		}
		// reading whole rows needs the missing column: an error, not a panic and not rows
		if len(want) > 0 {
			got, rerr, p := readAllFile(f)
			if p != nil {
				return kit.Failf("c18/missing-key-panic"+feat, "reading rows with the key of column %d missing: panic: %v", mc, p)
			}
			if rerr == nil {
				return kit.Failf("c18/missing-key-rows"+feat, "reading rows with the key of column %d missing returned no error (%d rows)", mc, len(got))
			}
		}
		o.Class("missing-key")
	}
	// 4b. no decryption configuration at all: an error (encrypted footer), never a panic,
	// whatever the reader is told about the magic bytes and whatever the header claims
	for vi, variant := range []string{"default", "SkipMagicBytes", "header magic PAR1"} {
		in := data
		var fo []parquet.FileOption
		switch vi {
		case 1:
			fo = append(fo, parquet.SkipMagicBytes(true))
		case 2:
			in = append([]byte("PAR1"), data[4:]...)
		}
		var oerr error
		var p any
		func() {
			defer func() { p = recover() }()
			_, oerr = parquet.OpenFile(bytes.NewReader(in), int64(len(in)), fo...)
		}()
		if p != nil {
			return kit.Failf("c18/no-config-panic"+feat, "OpenFile without a decryption configuration (%s): panic: %v", variant, p)
		}
		if c.EncFooter && oerr == nil {
			return kit.Failf("c18/no-config-accepted"+feat, "OpenFile without a decryption configuration (%s) opened a file with an encrypted footer", variant)
		}
	}
	if c.Wrong != "" {
		bad := keyRing{footer: ring.footer, columns: map[string][]byte{}}
		for p, k := range ring.columns {
			bad.columns[p] = k
		}
		applicable := true
		if c.Wrong == "footer" {
			bad.footer = key(c.Seed, "another footer key")
		} else if len(c.ColKeys) > 0 && c.ColKeys[0] < len(cols) {
			bad.columns[ref.PathString(cols[c.ColKeys[0]].Path)] = key(c.Seed, "another column key")
		} else {
			applicable = false
		}
		if applicable && len(want) > 0 {
			got, err, p := readAll(data, bad, cols)
			if p != nil {
				return kit.Failf("c18/wrong-key-panic"+feat, "wrong %s key: panic: %v", c.Wrong, p)
			}
			if err == nil {
				return kit.Failf("c18/wrong-key-accepted"+feat, "a complete read with a wrong %s key returned no error (%d rows)", c.Wrong, len(got))
			}
			if d := prefixDiff(cols, want, got); d != "" {
				return kit.Failf("c18/wrong-key-data"+feat, "wrong %s key: rows delivered before the error differ from the written rows: %s", c.Wrong, d)
			}
			o.Class("wrong-key-" + c.Wrong)
		}
	}
	// 5. tampering
	var other []byte
	var otherMods []ref.Module
	mods := ef.Modules
	swaps := 0
	for ti, tm := range c.Tampers {
		if len(mods) == 0 {
			break
		}
		m := mods[tm.Mod%len(mods)]
		bad := append([]byte{}, data...)
		desc := ""
		switch tm.Kind {
		case "flip":
			pos := m.Offset + int64(tm.Off)*int64(m.Len-1)/999
			bad[pos] ^= tm.Mask
			desc = fmt.Sprintf("bit flipped at byte %d of the %s module of row group %d column %d page %d", pos-m.Offset, m.Kind, m.RG, m.Col, m.PageIdx)
		case "plaintext":
			// the encrypted module replaced by its own content in clear (padded to the same length):
			// an attacker who knows or guesses the content must not be able to strip the authentication
			j := -1
			for k := 0; k < len(mods); k++ {
				x := mods[(tm.Mod+k)%len(mods)]
				// (page-index modules only: their length comes from the footer; the length prefix of a
				// page module would be read from the forged bytes and may ask for gigabytes)
				if (x.Kind == "column-index" || x.Kind == "offset-index") && len(x.Plain) > 0 && len(x.Plain) <= x.Len {
					j = (tm.Mod + k) % len(mods)
					break
				}
			}
			if j < 0 {
				continue
			}
			m = mods[j]
			// exactly the module's length: the thrift struct gets one more (unknown) binary field
			// holding the padding, in front of its STOP byte
			forged := append([]byte{}, m.Plain...)
			if pad := m.Len - len(forged); pad >= 2 && pad < 130 && len(forged) > 0 && forged[len(forged)-1] == 0 {
				forged = forged[:len(forged)-1]
				forged = append(forged, 15<<4|8, byte(pad-2))
				forged = append(forged, make([]byte, pad-2)...)
				forged = append(forged, 0)
			}
			for i := int64(0); i < int64(m.Len); i++ {
				bad[m.Offset+i] = 0
			}
			copy(bad[m.Offset:], forged)
			desc = fmt.Sprintf("%s module of row group %d column %d page %d replaced by its plaintext", m.Kind, m.RG, m.Col, m.PageIdx)
			swaps++
		case "swap":
			// another module of the same kind and length
			j := -1
			for k := 1; k < len(mods); k++ {
				x := mods[(tm.Mod+k)%len(mods)]
				if x.Kind == m.Kind && x.Len == m.Len && x.Offset != m.Offset {
					j = (tm.Mod + k) % len(mods)
					break
				}
			}
			if j < 0 {
				continue
			}
			x := mods[j]
			copy(bad[m.Offset:m.Offset+int64(m.Len)], data[x.Offset:x.Offset+int64(x.Len)])
			copy(bad[x.Offset:x.Offset+int64(x.Len)], data[m.Offset:m.Offset+int64(m.Len)])
			desc = fmt.Sprintf("%s modules of (rg %d col %d page %d) and (rg %d col %d page %d) swapped", m.Kind, m.RG, m.Col, m.PageIdx, x.RG, x.Col, x.PageIdx)
			swaps++
		case "transplant":
			if other == nil {
				// a second file with the same keys and rows (another file identifier)
				o2, err := write(c, cols, rows, cfg)
				if err != nil {
					continue
				}
				e2, err := ref.ParseEncrypted(o2, rk, ref.LibModules)
				if err != nil {
					continue
				}
				for gi := range e2.RowGroups {
					for ci := range e2.RowGroups[gi].Chunks {
						e2.WalkEncryptedChunk(gi, ci, colKey(ci), ref.LibModules)
					}
				}
				other, otherMods = o2, e2.Modules
			}
			j := -1
			for k, x := range otherMods {
				if x.Kind == m.Kind && x.Len == m.Len && x.RG == m.RG && x.Col == m.Col && x.PageIdx == m.PageIdx {
					j = k
					break
				}
			}
			if j < 0 {
				continue
			}
			x := otherMods[j]
			copy(bad[m.Offset:m.Offset+int64(m.Len)], other[x.Offset:x.Offset+int64(x.Len)])
			desc = fmt.Sprintf("%s module of rg %d col %d page %d replaced by the same module of another file written with the same keys", m.Kind, m.RG, m.Col, m.PageIdx)
			swaps++
		}
		var ms0, ms1 runtime.MemStats
		runtime.ReadMemStats(&ms0)
		got, err, p := readAll(bad, ring, cols)
		runtime.ReadMemStats(&ms1)
		tf := fmt.Sprintf("{tamper=%s,module=%s}", tm.Kind, m.Kind)
		// failing "with an error" includes not exhausting memory first: a forged 32-bit module length must not be
		// trusted for an allocation (up to 4 GiB for a file of a few KiB; under a memory limit the process aborts)
		if grown := ms1.TotalAlloc - ms0.TotalAlloc; grown > 256<<20+1000*uint64(len(bad)) {
			return kit.Failf("c18/tamper-allocation"+feat+tf, "tamper %d (%s): reading the %d-byte file allocated %d MiB before failing (%v)", ti, desc, len(bad), grown>>20, err)
		}
		if p != nil {
			return kit.Failf("c18/tamper-panic"+feat+tf, "tamper %d (%s): panic: %v", ti, desc, p)
		}
		if err == nil {
			return kit.Failf("c18/tamper-accepted"+feat+tf, "tamper %d (%s): the complete read returned no error (%d rows)", ti, desc, len(got))
		}
		if d := prefixDiff(cols, want, got); d != "" {
			return kit.Failf("c18/tamper-data"+feat+tf, "tamper %d (%s): rows delivered before the error differ from the written rows: %s", ti, desc, d)
		}
		o.Metric("tampers_tried", 1)
	}
	// 6. plaintext footer: its signature (nonce + tag, 28 bytes) authenticates the metadata. A file whose
	// signature was cut off (footer length adjusted) must not be accepted by a reader holding the keys:
	// otherwise everything in the footer can be rewritten.
	if !c.EncFooter && len(data) > 8+28 {
		n := int(binary.LittleEndian.Uint32(data[len(data)-8:]))
		if n > 28 && n+8 <= len(data) {
			stripped := append([]byte{}, data[:len(data)-8-28]...)
			stripped = binary.LittleEndian.AppendUint32(stripped, uint32(n-28))
			stripped = append(stripped, "PAR1"...)
			if _, err := parquet.OpenFile(bytes.NewReader(stripped), int64(len(stripped)), parquet.WithDecryption(ring)); err == nil {
				return kit.Failf("c18/unsigned-footer-accepted"+feat, "the plaintext footer of the encrypted file was stripped of its signature (28 bytes) and OpenFile with the keys accepted it")
			}
			o.Class("signature-stripped")
		}
	}
	o.Class("footer-" + map[bool]string{true: "encrypted", false: "plaintext"}[c.EncFooter])
	o.ClassIf(len(c.ColKeys) > 0, "column-keys")
	o.ClassIf(c.Reused, "writer-reused-after-reset")
	o.ClassIf(c.RowGroups, "concurrent-row-group-writers")
	o.ClassIf(c.SkipIndex, "reader-without-page-index")
	o.ClassIf(c.Async, "reader-async")
	o.ClassIf(len(ef.RowGroups) >= 2, "multi-rowgroup")
	if os.Getenv("VERIF_DEBUG") != "" && len(rows) > 2000 {
		fmt.Println("DEBUG rows", len(rows), "rowgroups", len(ef.RowGroups), "maxPages", maxPages, "pagebuf", c.Opts.PageBuf)
	}
	o.ClassIf(len(ef.RowGroups) > 256, "row-group-ordinal-above-255")
	o.ClassIf(maxPages > 256, "page-ordinal-above-255")
	if (len(ef.RowGroups) >= 2 && len(c.ColKeys) >= 1) || swaps > 0 {
		o.NonTrivial()
	}
	return nil
}

func readColumn(cc parquet.ColumnChunk) (vals []parquet.Value, err error) {
	defer func() {
		if r := recover(); r != nil {
			err = fmt.Errorf("panic: %v", r)
		}
	}()
	pages := cc.Pages()
	defer pages.Close()
	for {
		p, err := pages.ReadPage()
		if err != nil {
			if errors.Is(err, errEOF) {
				return vals, nil
			}
			return vals, err
		}
		buf := make([]parquet.Value, p.NumValues())
		n, _ := p.Values().ReadValues(buf)
		vals = append(vals, buf[:n]...)
		parquet.Release(p)
	}
}

func region(ef *ref.EncFile, off int64) string {
	for _, m := range ef.Modules {
		if off >= m.Offset && off < m.Offset+int64(m.Len) {
			return "inside the " + m.Kind + " module"
		}
	}
	if off >= ef.FooterPos {
		return "footer region"
	}
	return "outside any module (bloom filter / page index / padding)"
}

var spec = &kit.Spec[Case]{
	Property: "C18",
	Name:     "encryption",
	Rule: "small generated files (≤4 leaves of string/bytes/int64/double/fixed(16)/uuid/int32/bool, nested allowed, 1-n row groups, dictionary/plain, page index, bloom filters, v1/v2) whose values are high-entropy markers derived from (seed, column, row); encrypted footer or signed plaintext footer; footer key only or per-column keys for a generated subset; optional AAD prefix. " +
		"Oracles: (1) the library reads back the rows with the right keys, sequentially and after generated seeks; (2) an independent reader (layout from Encryption.md, AES-GCM from the Go standard library) decrypts footer, every column metadata and every page module and decodes the same values, every row group's column metadata is complete; " +
		"(3) no marker occurs anywhere in the raw bytes; (4) a reader missing one column key opens the file, reads the other columns and gets no data from that column; a wrong footer/column key makes a complete read fail and never yields altered rows; " +
		"(5) up to 10 (thorough 60) generated tampers per file — a bit flipped anywhere in a module located by the independent walk (length prefix, nonce, ciphertext, tag), two same-kind modules swapped, a module replaced by the same module of a second file written with the same keys — each must make the complete read fail, rows delivered before the error being a prefix of the truth. " +
		"Non-trivial = ≥2 row groups with per-column keys, or a swap/transplant tamper was applied.",
	Assumptions: []string{
		"AES-GCM itself (Go standard library) is trusted; only AES_GCM_V1 is exercised",
		"the independent reader uses the library's AAD module-type numbering for the walk (it differs from Encryption.md: finding F40, asserted by the C02 check, which owns conformance to the format documents)",
	},
	Gen: genCase,
	Run: runCase,
}

func TestProp(t *testing.T) { kit.Both(t, spec) }
