package c11

import (
	"bytes"
	"errors"
	"fmt"
	"io"
	"testing"

	"github.com/parquet-go/parquet-go"
	"pgregory.net/rapid"

	"verifharness/c02"
	"verifharness/gen"
	"verifharness/kit"
	"verifharness/pq"
	"verifharness/ref"
)

func TestMain(m *testing.M) { kit.Main(m) }

type Case struct {
	Schema ref.Node       `json:"schema"`
	Plan   gen.RowPlan    `json:"plan"`
	Src    gen.WriterOpts `json:"src"`
	SrcOps []gen.Op       `json:"srcops"`
	Dst    gen.WriterOpts `json:"dst"`
	Kind   string         `json:"kind"` // file | buffer | multi | converted | foreign
	// Lead > 0: that many rows (a copy of the first expected rows) are handed to the destination writer before
	// WriteRowGroup and are still buffered when it is called; LeadVia "rows" = WriteRows, "columns" = ColumnWriters().WriteRowValues
	Lead    int    `json:"lead,omitempty"`
	LeadVia string `json:"leadvia,omitempty"`
}

var kinds = []string{"file", "file", "file", "buffer", "multi", "converted", "foreign"}

func genCase(t *rapid.T) Case {
	var c Case
	perLeaf := rapid.Bool().Draw(t, "perleaf")
	c.Schema = gen.Schema(t, gen.SchemaOpts{MaxDepth: 3, MaxLeaves: 5, PerLeafEnc: perLeaf, PerLeafCodec: perLeaf, EncFor: pq.ValidEncodings, Codecs: pq.CodecNames})
	cols := ref.Columns(&c.Schema)
	st := []gen.Style{gen.Mixed, gen.SmallDom, gen.Wide}[rapid.IntRange(0, 2).Draw(t, "style")]
	c.Plan = gen.RowsAtLeast(t, &c.Schema, 8, []int{0, 30, 100}[rapid.IntRange(0, 2).Draw(t, "min")], kit.Pick(300, 3000), gen.ValueOpts{Style: st, Leaf: gen.Opts{MaxBytes: 30}, LongLists: 6})
	c.Plan.Uniq = rapid.IntRange(0, 2).Draw(t, "uniq") == 0
	bias := gen.OptsBias{SmallPages: rapid.Bool().Draw(t, "small"), EncFor: pq.ValidEncodings}
	c.Src = gen.WriterOptions(t, cols, bias)
	c.Src.Pool = ""
	c.SrcOps = gen.WriteOps(t, c.Plan.NumRows())
	if rapid.Bool().Draw(t, "same") {
		c.Dst = c.Src
	} else {
		c.Dst = gen.WriterOptions(t, cols, bias)
		c.Dst.Pool = ""
		// differ in exactly a few aspects: start from the source and override some
		if rapid.Bool().Draw(t, "few") {
			d := c.Src
			switch rapid.IntRange(0, 6).Draw(t, "aspect") {
			case 0:
				d.Codec = c.Dst.Codec
			case 1:
				d.DefaultEnc = c.Dst.DefaultEnc
			case 2:
				d.PageVersion = c.Dst.PageVersion
			case 3:
				d.PageStats, d.SkipBounds, d.SkipStats = c.Dst.PageStats, c.Dst.SkipBounds, c.Dst.SkipStats
			case 4:
				d.Bloom, d.BloomCodec, d.DeferBloom = c.Dst.Bloom, c.Dst.BloomCodec, c.Dst.DeferBloom
			case 5:
				d.MaxRows = c.Dst.MaxRows
			default:
				d.IndexLimit = c.Dst.IndexLimit
			}
			c.Dst = d
		}
	}
	c.Kind = kinds[rapid.IntRange(0, len(kinds)-1).Draw(t, "kind")]
	if rapid.IntRange(0, 3).Draw(t, "lead") == 0 {
		c.Lead = []int{1, 2, 10, 70}[rapid.IntRange(0, 3).Draw(t, "leadn")]
		c.LeadVia = []string{"rows", "columns"}[rapid.IntRange(0, 1).Draw(t, "leadvia")]
	}
	return c
}

// filterRowGroup is a foreign RowGroup implementation: its rows are the even
// rows of the wrapped row group. Writing it must go through Rows().
type filterRowGroup struct {
	parquet.RowGroup
}

func (f *filterRowGroup) NumRows() int64 { return (f.RowGroup.NumRows() + 1) / 2 }
func (f *filterRowGroup) Rows() parquet.Rows {
	return &filterRows{Rows: f.RowGroup.Rows()}
}

type filterRows struct {
	parquet.Rows
	index int64
}

func (r *filterRows) ReadRows(rows []parquet.Row) (int, error) {
	tmp := make([]parquet.Row, 1)
	n := 0
	for n < len(rows) {
		k, err := r.Rows.ReadRows(tmp)
		if k == 1 {
			if r.index%2 == 0 {
				rows[n] = append(rows[n][:0], tmp[0]...)
				for i := range rows[n] {
					rows[n][i] = rows[n][i].Clone()
				}
				n++
			}
			r.index++
		}
		if err != nil {
			return n, err
		}
		if k == 0 {
			return n, io.EOF
		}
	}
	return n, nil
}

func (r *filterRows) SeekToRow(i int64) error {
	if err := r.Rows.SeekToRow(2 * i); err != nil {
		return err
	}
	r.index = 2 * i
	return nil
}

var encIDs = map[string][]int{"plain": {0}, "dict": {8, 2, 0}, "delta": {5}, "dlba": {6}, "dba": {7}, "bss": {9}, "rle": {3}}

func runCase(c Case, o *kit.Obs) *kit.Failure {
	cols := ref.Columns(&c.Schema)
	rows := c.Plan.ExpandWith(&c.Schema)
	schema := pq.BuildSchema(&c.Schema)
	prows := pq.Rows(&c.Schema, cols, rows)
	feat := fmt.Sprintf("{src=%s}", c.Kind)

	// source row groups and the rows they stand for; troot/tcols describe the
	// destination schema (differs from the source for converted row groups)
	var srcs []parquet.RowGroup
	expected := rows
	troot, tcols, tschema := &c.Schema, cols, schema
	switch c.Kind {
	case "buffer":
		b := parquet.NewBuffer(schema)
		if _, err := b.WriteRows(prows); err != nil {
			o.Rejected()
			return nil
		}
		srcs = []parquet.RowGroup{b}
	default:
		data, err := pq.WriteFile(&c.Schema, cols, rows, c.Src, c.SrcOps)
		if err != nil {
			o.Rejected()
			return nil
		}
		f, err := pq.Open(data)
		if err != nil {
			return kit.Failf("c11/open-source", "%v", err)
		}
		srcs = f.RowGroups()
		switch c.Kind {
		case "multi":
			if len(srcs) == 0 {
				o.Class("empty")
				return nil
			}
			srcs = []parquet.RowGroup{parquet.MultiRowGroup(srcs...)}
		case "converted":
			// convert to the schema without its last top-level field
			if len(c.Schema.Children) < 2 {
				o.Class("converted-needs-2-fields")
				return nil
			}
			tr := c.Schema
			tr.Children = append([]ref.Node{}, c.Schema.Children[:len(c.Schema.Children)-1]...)
			troot = &tr
			tcols = ref.Columns(troot)
			tschema = pq.BuildSchema(troot)
			conv, err := parquet.Convert(tschema, schema)
			if err != nil {
				o.Rejected()
				return nil
			}
			for i := range srcs {
				srcs[i] = parquet.ConvertRowGroup(srcs[i], conv)
			}
			var exp []ref.V
			for _, r := range rows {
				exp = append(exp, ref.V{F: append([]ref.V{}, r.F[:len(tr.Children)]...)})
			}
			expected = exp
		case "foreign":
			// even rows of each source row group
			var exp []ref.V
			base := 0
			for i := range srcs {
				n := int(srcs[i].NumRows())
				for k := 0; k < n; k += 2 {
					exp = append(exp, rows[base+k])
				}
				base += n
				srcs[i] = &filterRowGroup{srcs[i]}
			}
			expected = exp
		}
	}

	cols = tcols
	dst := c.Dst
	var bl []gen.BloomCol
	for _, b := range dst.Bloom {
		if b.Col < len(cols) {
			bl = append(bl, b)
		}
	}
	dst.Bloom = bl
	c.Dst = dst
	dstOpts := append([]parquet.WriterOption{tschema}, pq.Options(c.Dst, cols, "")...)
	if _, err := parquet.NewWriterConfig(dstOpts...); err != nil {
		o.Rejected()
		return nil
	}
	// rows pending in the destination writer when WriteRowGroup is called
	var lead []ref.V
	if c.Lead > 0 && len(expected) > 0 {
		k := min(c.Lead, len(expected))
		if c.LeadVia == "columns" && c.Dst.MaxRows > 0 {
			// the caller of the column writers decides when a row group ends: stay within the limit
			k = min(k, int(c.Dst.MaxRows))
		}
		lead = append(lead, expected[:k]...)
		feat = fmt.Sprintf("{src=%s,pending=%s}", c.Kind, c.LeadVia)
		o.Class("pending-rows-via-" + c.LeadVia)
	}
	writeLead := func(w *parquet.Writer) error {
		if len(lead) == 0 {
			return nil
		}
		if c.LeadVia != "columns" {
			_, err := w.WriteRows(pq.Rows(troot, cols, lead))
			return err
		}
		split, err := ref.SplitRows(ref.ShredRows(troot, lead))
		if err != nil {
			return err
		}
		for ci, cw := range w.ColumnWriters() {
			var vals []parquet.Value
			for _, r := range split {
				for _, lv := range r[ci] {
					vals = append(vals, pq.ToValue(cols[ci].Leaf, lv, ci))
				}
			}
			if _, err := cw.WriteRowValues(vals); err != nil {
				return err
			}
		}
		return nil
	}
	// file A: WriteRowGroup
	copy0, re0 := parquet.VerifCopyPathCount(), parquet.VerifReencodePathCount()
	var a bytes.Buffer
	wa := parquet.NewWriter(&a, dstOpts...)
	if err := writeLead(wa); err != nil {
		return kit.Failf("c11/write-pending-error"+feat, "%v", err)
	}
	for i, rg := range srcs {
		if _, err := wa.WriteRowGroup(rg); err != nil {
			return kit.Failf("c11/write-row-group-error"+feat, "WriteRowGroup(source %d): %v", i, err)
		}
	}
	if err := wa.Close(); err != nil {
		return kit.Failf("c11/write-row-group-error"+feat, "Close: %v", err)
	}
	copied, reenc := parquet.VerifCopyPathCount()-copy0, parquet.VerifReencodePathCount()-re0
	// the same writer, Reset, writes the same sources again: same bytes expected
	var a2 bytes.Buffer
	wa.Reset(&a2)
	if err := writeLead(wa); err != nil {
		return kit.Failf("c11/write-pending-error"+feat, "after Reset: %v", err)
	}
	for i, rg := range srcs {
		if _, err := wa.WriteRowGroup(rg); err != nil {
			return kit.Failf("c11/write-row-group-error"+feat, "after Reset: WriteRowGroup(source %d): %v", i, err)
		}
	}
	if err := wa.Close(); err != nil {
		return kit.Failf("c11/write-row-group-error"+feat, "after Reset: Close: %v", err)
	}
	// file B: the same rows through the row path with fast paths disabled
	var b bytes.Buffer
	restore := parquet.VerifDisableFastPaths()
	wb := parquet.NewWriter(&b, dstOpts...)
	expected = append(append([]ref.V{}, lead...), expected...)
	_, errB := wb.WriteRows(pq.Rows(troot, cols, expected))
	if errB == nil {
		errB = wb.Close()
	}
	restore()
	if errB != nil {
		o.Rejected()
		return nil
	}

	want := ref.ShredRows(troot, expected)
	ex := c02.Expect{Cols: cols, Streams: want, Opts: &c.Dst, MaxRows: c.Dst.MaxRows}
	ex.Codecs = make([]int, len(cols))
	for i, col := range cols {
		name := col.Node.Codec
		if name == "" {
			name = c.Dst.Codec
		}
		ex.Codecs[i] = c02.CodecID(name)
	}
	ia, is := c02.Verify(a.Bytes(), ex)
	if is != nil {
		return kit.Failf("c11/"+is.Rule+feat, "file written by WriteRowGroup (copied %d chunks, %d re-encoded row groups): %s", copied, reenc, is.Msg)
	}
	if !bytes.Equal(a.Bytes(), a2.Bytes()) {
		if _, is2 := c02.Verify(a2.Bytes(), ex); is2 != nil {
			return kit.Failf("c11/after-reset/"+is2.Rule+feat, "the same sources written again by the same writer after Reset: %s", is2.Msg)
		}
		return kit.Failf("c11/after-reset/bytes-differ"+feat, "the same sources written again by the same writer after Reset give different bytes (%d vs %d)", a.Len(), a2.Len())
	}
	ib, is := c02.Verify(b.Bytes(), ex)
	if is != nil {
		return kit.Failf("c11/row-path/"+is.Rule, "file written row by row: %s", is.Msg)
	}
	// library-level read back
	fa, err := pq.Open(a.Bytes())
	if err != nil {
		return kit.Failf("c11/open-error"+feat, "%v", err)
	}
	got, _, err := pq.FileStreams(fa, cols, 37)
	if err != nil {
		return kit.Failf("c11/read-error"+feat, "%v", err)
	}
	if d := pq.DiffStreams(cols, want, got); d != "" {
		return kit.Failf("c11/rows-differ"+feat, "%s", d)
	}
	// destination settings, compared per column between A and the configuration / file B
	knownHits := 0
	wantPV := 3
	if c.Dst.PageVersion == 1 {
		wantPV = 0
	}
	bloom := map[int]bool{}
	for _, bc := range c.Dst.Bloom {
		bloom[bc.Col] = true
	}
	summ := func(info *c02.Info, ci int) (encs map[int]bool, pageStats, hasValues bool, blooms int) {
		encs = map[int]bool{}
		for gi := range info.File.RowGroups {
			ch := &info.File.RowGroups[gi].Chunks[ci]
			for _, p := range ch.Pages {
				if p.Type == 2 {
					continue
				}
				encs[p.Encoding] = true
				if p.Stats != nil && p.Stats.Has(5) {
					pageStats = true
				}
				if len(p.Values) > 0 {
					hasValues = true
				}
			}
			if ch.Meta.Int(14, 0) > 0 {
				blooms++
			}
		}
		return
	}
	for ci, col := range cols {
		where := fmt.Sprintf("column %d (%s %s)", ci, ref.PathString(col.Path), col.Leaf.ID)
		for gi := range ia.File.RowGroups {
			for _, p := range ia.File.RowGroups[gi].Chunks[ci].Pages {
				if p.Type != 2 && p.Type != wantPV {
					return kit.Failf("c11/page-version"+feat, "%s: data page of type %d, destination configured data page version %d (copied %d, re-encoded %d)", where, p.Type, c.Dst.PageVersion, copied, reenc)
				}
			}
		}
		ea, sa, va, ba := summ(ia, ci)
		eb, sb, _, bb := summ(ib, ci)
		encName := col.Node.Enc
		if encName == "" {
			encName = c.Dst.DefaultEnc[gen.PhysNames[col.Leaf.Phys]]
		}
		if encName != "" {
			ok := map[int]bool{}
			for _, id := range encIDs[encName] {
				ok[id] = true
			}
			for e := range ea {
				if !ok[e] {
					return kit.Failf("c11/encoding"+feat, "%s: data pages use encoding %d, destination configured %q (copied %d, re-encoded %d)", where, e, encName, copied, reenc)
				}
			}
		} else if c.Dst.DictMax == 0 && fmt.Sprint(keys(ea)) != fmt.Sprint(keys(eb)) {
			return kit.Failf("c11/encoding"+feat, "%s: data page encodings %v, the row path produces %v (copied %d, re-encoded %d)", where, keys(ea), keys(eb), copied, reenc)
		}
		if va && sa != sb {
			sig := "c11/page-statistics" + feat
			if copied > 0 {
				sig = "c11/verbatim-copy-keeps-source-page-statistics"
			}
			if kit.KnownSig("C11", sig) {
				knownHits++
			} else {
				return kit.Failf(sig, "%s: page min/max present=%v, the row path has present=%v (copied %d, re-encoded %d)", where, sa, sb, copied, reenc)
			}
		}
		// min/max in the chunk statistics: governed by the destination's SkipPageBounds setting
		chunkBounds := func(info *c02.Info) bool {
			for gi := range info.File.RowGroups {
				if st, ok := info.File.RowGroups[gi].Chunks[ci].Meta.Field(12); ok && (st.Has(5) || st.Has(6)) {
					return true
				}
			}
			return false
		}
		if ca, cb := chunkBounds(ia), chunkBounds(ib); va && ca != cb {
			sig := "c11/chunk-bounds" + feat
			if copied > 0 {
				sig = "c11/verbatim-copy-keeps-source-chunk-bounds"
			}
			if kit.KnownSig("C11", sig) {
				knownHits++
			} else {
				return kit.Failf(sig, "%s: chunk statistics min/max present=%v, the row path with the destination's settings has present=%v (copied %d, re-encoded %d)", where, ca, cb, copied, reenc)
			}
		}
		// (the number of chunks carrying a filter is not compared with the row path: row groups
		// may be cut at other rows, and a chunk holding only nulls has no filter; presence is
		// asserted per chunk by the membership loop below)
		_ = bb
		if !bloom[ci] && ba > 0 {
			return kit.Failf("c11/bloom-presence"+feat, "%s: bloom filter present, none configured on the destination", where)
		}
	}
	// bloom membership on A
	wantRows, _ := ref.SplitRows(want)
	base := int64(0)
	for gi, rg := range fa.RowGroups() {
		n := rg.NumRows()
		for ci, cc := range rg.ColumnChunks() {
			if !bloom[ci] {
				continue
			}
			bf := cc.BloomFilter()
			seen := map[string]bool{}
			for _, r := range wantRows[base : base+n] {
				for _, e := range r[ci] {
					k := fmt.Sprint(e.I, e.B)
					if e.Null || seen[k] {
						continue
					}
					seen[k] = true
					if bf == nil {
						return kit.Failf("c11/bloom-missing"+feat, "row group %d column %d has values but no bloom filter (copied %d, re-encoded %d)", gi, ci, copied, reenc)
					}
					if ok, err := bf.Check(pq.Scalar(cols[ci].Leaf, e.I, e.B)); err != nil || !ok {
						return kit.Failf("c11/bloom-false-negative"+feat, "row group %d column %d: written value %v reported absent (err=%v; copied %d, re-encoded %d)", gi, ci, e, err, copied, reenc)
					}
				}
			}
		}
		base += n
	}
	o.Class("src-" + c.Kind)
	o.ClassIf(knownHits > 0, "known-finding-tolerated:copy-keeps-statistics")
	o.ClassIf(copied > 0, "path-copy")
	o.ClassIf(reenc > 0, "path-reencode")
	o.ClassIf(copied == 0 && reenc == 0, "path-rows")
	if copied > 0 || reenc > 0 || c.Kind == "converted" || c.Kind == "foreign" {
		o.NonTrivial()
	}
	return nil
}

func keys(m map[int]bool) []int {
	var out []int
	for k := 0; k < 16; k++ {
		if m[k] {
			out = append(out, k)
		}
	}
	return out
}

var spec = &kit.Spec[Case]{
	Property: "C11",
	Name:     "rowgroup-copy",
	Rule: "a source (file written with generated options S and Write/Flush history, each of its row groups; an in-memory Buffer; a MultiRowGroup of the file's row groups; ConvertRowGroup wrappers; a foreign RowGroup implementation whose Rows() keeps even rows only) " +
		"is written with WriteRowGroup into a writer configured with D (equal to S in half the cases, otherwise different in one or in all aspects: codec, default encodings, page version, statistics options, bloom filters, MaxRowsPerRowGroup, index limit); nested schemas with rows longer than the 1024-value copy batch are included. " +
		"Oracle: file A passes the complete independent walk of C02 and decodes to the source's rows in order; codec, page version and explicitly configured encodings are D's; data-page encodings and page-statistics presence equal those of file B (same rows through the row path with fast paths disabled by the hook); bloom filters exist exactly where D asks and contain every written value; " +
		"row groups respect D.MaxRows; for converted (last top-level field dropped) and foreign sources the rows must be those of the wrapper's Rows(), which is what shows a bypass. Non-trivial = a fast-path counter moved, or the source was a wrapper / foreign implementation.",
	Assumptions: []string{"byte equality between WriteRowGroup output and row-path output is not required (page boundaries and row-group partitioning may differ)", "encoding sets are compared with the row path only when no dictionary limit is configured"},
	Gen:         genCase,
	Run:         runCase,
}

func TestProp(t *testing.T) { kit.Both(t, spec) }

var _ = errors.Is
