package c12

import (
	"bytes"
	"fmt"
	"sort"
	"testing"

	"github.com/parquet-go/parquet-go"
	"pgregory.net/rapid"

	"verifharness/kit"
	"verifharness/pq"
	"verifharness/ref"
)

// SortCase: a source sorted by (a, b[, c]) viewed through a target that drops
// and reorders columns. Whatever sorting columns the converted (or merged)
// row group advertises must hold for the rows it returns.
type SortCase struct {
	N     int    `json:"n"`
	Seed  uint64 `json:"seed"`
	Keys  int    `json:"keys"`  // 1-3 sorting columns declared by the source, in the order a, b, c
	Desc  []bool `json:"desc"`  // direction per key
	Drop  []bool `json:"drop"`  // per column a,b,c,d: dropped by the target
	Rev   bool   `json:"rev"`   // the target lists the remaining fields in reverse order
	Merge bool   `json:"merge"` // two source files merged through the target schema instead of one converted row group
}

func genSort(t *rapid.T) SortCase {
	c := SortCase{N: rapid.IntRange(2, 200).Draw(t, "n"), Seed: rapid.Uint64().Draw(t, "seed"), Keys: rapid.IntRange(1, 3).Draw(t, "keys")}
	for i := 0; i < 3; i++ {
		c.Desc = append(c.Desc, rapid.Bool().Draw(t, "desc"))
	}
	for i := 0; i < 4; i++ {
		c.Drop = append(c.Drop, rapid.IntRange(0, 2).Draw(t, "drop") == 0)
	}
	if c.Drop[0] && c.Drop[1] && c.Drop[2] && c.Drop[3] {
		c.Drop[3] = false
	}
	c.Rev = rapid.Bool().Draw(t, "rev")
	c.Merge = rapid.Bool().Draw(t, "merge")
	return c
}

func runSort(c SortCase, o *kit.Obs) *kit.Failure {
	names := []string{"a", "b", "c", "d"}
	src := ref.Node{Name: "root", Rep: "req", Kind: "group"}
	for _, n := range names {
		src.Children = append(src.Children, ref.Node{Name: n, Rep: "req", Kind: "leaf", Leaf: "int64"})
	}
	tgt := ref.Node{Name: "root", Rep: "req", Kind: "group"}
	for i, n := range names {
		if !c.Drop[i] {
			tgt.Children = append(tgt.Children, ref.Node{Name: n, Rep: "req", Kind: "leaf", Leaf: "int64"})
		}
	}
	if c.Rev {
		for i, j := 0, len(tgt.Children)-1; i < j; i, j = i+1, j-1 {
			tgt.Children[i], tgt.Children[j] = tgt.Children[j], tgt.Children[i]
		}
	}
	var sc []parquet.SortingColumn
	for k := 0; k < c.Keys; k++ {
		if c.Desc[k] {
			sc = append(sc, parquet.Descending(names[k]))
		} else {
			sc = append(sc, parquet.Ascending(names[k]))
		}
	}
	x := c.Seed | 1
	next := func() uint64 {
		x ^= x >> 12
		x ^= x << 25
		x ^= x >> 27
		return x * 2685821657736338717
	}
	mkRows := func(n int) [][4]int64 {
		rows := make([][4]int64, n)
		for i := range rows {
			rows[i] = [4]int64{int64(next() % 4), int64(next() % 5), int64(next() % 7), int64(i)}
		}
		sort.SliceStable(rows, func(i, j int) bool {
			for k := 0; k < c.Keys; k++ {
				if rows[i][k] != rows[j][k] {
					return (rows[i][k] < rows[j][k]) != c.Desc[k]
				}
			}
			return false
		})
		return rows
	}
	scols := ref.Columns(&src)
	sschema, tschema := pq.BuildSchema(&src), pq.BuildSchema(&tgt)
	mkFile := func(rows [][4]int64) (*parquet.File, error) {
		var buf bytes.Buffer
		w := parquet.NewWriter(&buf, sschema, parquet.SortingWriterConfig(parquet.SortingColumns(sc...)), parquet.PageBufferSize(256))
		vs := make([]ref.V, len(rows))
		for i, r := range rows {
			vs[i] = ref.V{F: []ref.V{{I: r[0]}, {I: r[1]}, {I: r[2]}, {I: r[3]}}}
		}
		if _, err := w.WriteRows(pq.Rows(&src, scols, vs)); err != nil {
			return nil, err
		}
		if err := w.Close(); err != nil {
			return nil, err
		}
		return pq.Open(buf.Bytes())
	}
	f1, err := mkFile(mkRows(c.N))
	if err != nil {
		o.Rejected()
		return nil
	}
	var view parquet.RowGroup
	feat := "{entry=ConvertRowGroup}"
	if c.Merge {
		feat = "{entry=MergeRowGroups(schema)}"
		f2, err := mkFile(mkRows(c.N/2 + 1))
		if err != nil {
			o.Rejected()
			return nil
		}
		view, err = parquet.MergeRowGroups(append(f1.RowGroups(), f2.RowGroups()...), tschema)
		if err != nil {
			return kit.Failf("c12/sorting/merge-error", "%v", err)
		}
	} else {
		conv, err := parquet.Convert(tschema, sschema)
		if err != nil {
			return kit.Failf("c12/sorting/convert-error", "%v", err)
		}
		view = parquet.ConvertRowGroup(f1.RowGroups()[0], conv)
	}
	claimed := view.SortingColumns()
	r := view.Rows()
	rows, err := pq.ReadAllRows(r, 33)
	r.Close()
	if err != nil {
		return kit.Failf("c12/sorting/read-error"+feat, "%v", err)
	}
	tcols := ref.Columns(&tgt)
	colOf := map[string]int{}
	for i, tc := range tcols {
		colOf[tc.Path[0]] = i
	}
	for _, cl := range claimed {
		if _, ok := colOf[cl.Path()[0]]; !ok {
			return kit.Failf("c12/sorting/claims-missing-column"+feat, "the view advertises sorting column %v, which its schema does not have", cl.Path())
		}
	}
	key := func(row parquet.Row) []int64 {
		s, _ := pq.Streams(tcols, []parquet.Row{row})
		out := make([]int64, len(claimed))
		for k, cl := range claimed {
			v := s[colOf[cl.Path()[0]]][0].I
			if cl.Descending() {
				v = -v
			}
			out[k] = v
		}
		return out
	}
	for i := 1; i < len(rows); i++ {
		a, b := key(rows[i-1]), key(rows[i])
		for k := range a {
			if a[k] != b[k] {
				if a[k] > b[k] {
					return kit.Failf("c12/sorting/claim-does-not-hold"+feat, "the view advertises sorting columns %v (source declared %d keys, target drops %v) but rows %d and %d are out of that order", describe(claimed), c.Keys, c.Drop, i-1, i)
				}
				break
			}
		}
	}
	o.Class("entry-" + feat)
	o.Class(fmt.Sprintf("claimed-%d-of-%d", len(claimed), c.Keys))
	if c.Keys >= 2 && (c.Drop[0] || c.Drop[1]) {
		o.NonTrivial()
	}
	return nil
}

func describe(sc []parquet.SortingColumn) string {
	s := ""
	for _, c := range sc {
		d := "asc"
		if c.Descending() {
			d = "desc"
		}
		s += fmt.Sprintf("%v(%s) ", c.Path(), d)
	}
	return s
}

var sortSpec = &kit.Spec[SortCase]{
	Property: "C12",
	Name:     "sorting-claims",
	Rule: "a source of four int64 columns sorted by its first 1-3 columns (generated directions, few distinct values so later keys are not monotonic on their own) is viewed through a target that drops and reorders columns, as ConvertRowGroup of one row group or as MergeRowGroups of two files through the target schema; " +
		"oracle: every sorting column the view advertises exists in its schema and the rows it returns are ordered by the advertised columns (an order the view claims is an order downstream merges and writers rely on). Non-trivial = ≥2 source keys and one of the first two dropped.",
	Scale: 1,
	Gen:   genSort,
	Run:   runSort,
}

func TestPropSortingClaims(t *testing.T) { kit.Both(t, sortSpec) }
