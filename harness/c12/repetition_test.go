package c12

import (
	"bytes"
	"fmt"
	"io"
	"strings"
	"testing"

	"github.com/parquet-go/parquet-go"
	"pgregory.net/rapid"

	"verifharness/kit"
)

// RepCase: a target schema that changes the REPETITION of a column (repeated
// to optional / required, or the reverse). Rows holding several (or no)
// elements cannot be represented: the target is incompatible and has to be
// rejected, never answered with another number of rows or with altered values.
type RepCase struct {
	Lists  [][]int `json:"lists"`          // per row the elements of the source column (ToRep: only the first is used)
	Target string  `json:"target"`         // "opt" | "req" (source repeated) | "rep" (source required)
	Entry  string  `json:"entry"`          // Convert+ConvertRowGroup | NewReader(schema) | CopyRows
	NoID   bool    `json:"noid,omitempty"` // the column is the only one of the schema
	Batch  int     `json:"batch"`
}

func genRepCase(t *rapid.T) RepCase {
	var c RepCase
	n := rapid.IntRange(1, 30).Draw(t, "n")
	for i := 0; i < n; i++ {
		k := rapid.IntRange(0, 3).Draw(t, "len")
		l := []int{}
		for j := 0; j < k; j++ {
			l = append(l, rapid.IntRange(0, 9).Draw(t, "e"))
		}
		c.Lists = append(c.Lists, l)
	}
	c.Target = []string{"opt", "req", "rep"}[rapid.IntRange(0, 2).Draw(t, "target")]
	c.Entry = []string{"ConvertRowGroup", "NewReader(schema)", "CopyRows"}[rapid.IntRange(0, 2).Draw(t, "entry")]
	c.NoID = rapid.IntRange(0, 2).Draw(t, "noid") == 0
	c.Batch = []int{1, 2, 7, 64}[rapid.IntRange(0, 3).Draw(t, "batch")]
	return c
}

func runRepCase(c RepCase, o *kit.Obs) *kit.Failure {
	node := func(rep string) parquet.Node {
		switch rep {
		case "opt":
			return parquet.Optional(parquet.Int(64))
		case "rep":
			return parquet.Repeated(parquet.Int(64))
		}
		return parquet.Int(64)
	}
	srcRep := "rep"
	if c.Target == "rep" {
		srcRep = "req"
	}
	src := parquet.NewSchema("t", parquet.Group{"id": parquet.Int(64), "v": node(srcRep)})
	tgt := parquet.NewSchema("t", parquet.Group{"id": parquet.Int(64), "v": node(c.Target)})
	vcol := 1
	if c.NoID {
		src = parquet.NewSchema("t", parquet.Group{"v": node(srcRep)})
		tgt = parquet.NewSchema("t", parquet.Group{"v": node(c.Target)})
		vcol = 0
	}
	if c.Batch <= 0 {
		c.Batch = 7
	}
	var rows []parquet.Row
	lossless := true
	for i, l := range c.Lists {
		row := parquet.Row{}
		if !c.NoID {
			row = append(row, parquet.Int64Value(int64(i)).Level(0, 0, 0))
		}
		if srcRep == "req" {
			v := 0
			if len(l) > 0 {
				v = l[0]
			}
			row = append(row, parquet.Int64Value(int64(v)).Level(0, 0, vcol))
		} else {
			if len(l) == 0 {
				row = append(row, parquet.Value{}.Level(0, 0, vcol))
			}
			for j, e := range l {
				rep := 0
				if j > 0 {
					rep = 1
				}
				row = append(row, parquet.Int64Value(int64(e)).Level(rep, 1, vcol))
			}
			if len(l) > 1 || (len(l) == 0 && c.Target == "req") {
				lossless = false
			}
		}
		rows = append(rows, row)
	}
	var buf bytes.Buffer
	w := parquet.NewWriter(&buf, src)
	if _, err := w.WriteRows(rows); err != nil {
		o.Rejected()
		return nil
	}
	if err := w.Close(); err != nil {
		o.Rejected()
		return nil
	}
	f, err := parquet.OpenFile(bytes.NewReader(buf.Bytes()), int64(buf.Len()))
	if err != nil {
		return kit.Failf("c12/repetition/open", "%v", err)
	}
	feat := fmt.Sprintf("{entry=%s,%s->%s}", c.Entry, srcRep, c.Target)
	var got []parquet.Row
	colMismatch := ""
	read := func(r parquet.RowReader) (err error) {
		defer func() {
			if p := recover(); p != nil {
				err = fmt.Errorf("panic: %v", p)
			}
		}()
		b := make([]parquet.Row, c.Batch)
		for {
			k, rerr := r.ReadRows(b)
			for _, row := range b[:k] {
				got = append(got, row.Clone())
			}
			if rerr != nil {
				if rerr == io.EOF {
					return nil
				}
				return rerr
			}
			if k == 0 {
				return fmt.Errorf("no progress")
			}
			if len(got) > 4*len(rows)+10 {
				return nil
			}
		}
	}
	var rerr error
	func() {
		defer func() {
			if p := recover(); p != nil {
				rerr = fmt.Errorf("panic: %v", p)
			}
		}()
		switch c.Entry {
		case "ConvertRowGroup":
			conv, cerr := parquet.Convert(tgt, src)
			if cerr != nil {
				rerr = cerr
				return
			}
			for _, rg := range f.RowGroups() {
				r := parquet.ConvertRowGroup(rg, conv).Rows()
				e := read(r)
				r.Close()
				if e != nil {
					rerr = e
					return
				}
			}
		case "NewReader(schema)":
			r := parquet.NewReader(f, tgt)
			rerr = read(r)
			r.Close()
		default:
			var out bytes.Buffer
			w2 := parquet.NewWriter(&out, tgt)
			r := parquet.NewReader(f)
			_, rerr = parquet.CopyRows(w2, r)
			r.Close()
			if rerr == nil {
				rerr = w2.Close()
			}
			if rerr == nil {
				f2, e := parquet.OpenFile(bytes.NewReader(out.Bytes()), int64(out.Len()))
				if e != nil {
					rerr = fmt.Errorf("the copy does not open: %w", e)
					return
				}
				if f2.NumRows() != int64(len(rows)) {
					got = make([]parquet.Row, f2.NumRows())
					return
				}
				// every column of the copy holds one entry per row
				for _, rg := range f2.RowGroups() {
					for ci, cc := range rg.ColumnChunks() {
						n, e := countRows(cc)
						if e != nil {
							rerr = e
							return
						}
						if n != rg.NumRows() {
							colMismatch = fmt.Sprintf("column %d of the copy holds %d rows, its row group %d", ci, n, rg.NumRows())
							return
						}
					}
				}
				r2 := parquet.NewReader(f2)
				rerr = read(r2)
				r2.Close()
			}
		}
	}()
	o.Class("entry-" + c.Entry)
	if rerr != nil && strings.HasPrefix(rerr.Error(), "panic: ") {
		return kit.Failf("c12/repetition/panic"+feat, "%v", rerr)
	}
	if rerr != nil {
		o.Class("rejected")
		return nil // rejected: fine (also for the lossless cases: rejecting a change of repetition is allowed)
	}
	if colMismatch != "" {
		return kit.Failf("c12/repetition/columns-disagree"+feat, "a target that changes the repetition of column v was accepted and %s (lists %v)", colMismatch, c.Lists)
	}
	if len(got) != len(rows) {
		return kit.Failf("c12/repetition/rowcount"+feat, "a target that changes the repetition of column v was accepted and %d rows went in, %d came out (lists %v)", len(rows), len(got), c.Lists)
	}
	// accepted: each row keeps its place and holds the first element of its list (what the conversion table of the library's tests defines)
	for i, row := range got {
		var vs []parquet.Value
		for _, v := range row {
			if v.Column() == vcol {
				vs = append(vs, v)
			} else if v.Int64() != int64(i) {
				return kit.Failf("c12/repetition/order"+feat, "row %d has id %v", i, v)
			}
		}
		l := c.Lists[i]
		if len(vs) != 1 {
			return kit.Failf("c12/repetition/malformed-row"+feat, "row %d holds %d values of column v, whose target is %s (list %v): %+v", i, len(vs), c.Target, l, row)
		}
		if vs[0].RepetitionLevel() != 0 {
			return kit.Failf("c12/repetition/malformed-row"+feat, "row %d starts column v at repetition level %d: %+v", i, vs[0].RepetitionLevel(), row)
		}
		switch {
		case srcRep == "req":
			want := 0
			if len(l) > 0 {
				want = l[0]
			}
			if vs[0].IsNull() || vs[0].Int64() != int64(want) || vs[0].DefinitionLevel() != 1 {
				return kit.Failf("c12/repetition/value"+feat, "row %d: required value %d became %+v", i, want, vs[0])
			}
		case len(l) > 0:
			if vs[0].IsNull() || vs[0].Int64() != int64(l[0]) {
				return kit.Failf("c12/repetition/value"+feat, "row %d: list %v became %+v", i, l, vs[0])
			}
		case c.Target == "opt":
			if !vs[0].IsNull() {
				return kit.Failf("c12/repetition/value"+feat, "row %d: the empty list became %+v", i, vs[0])
			}
		}
	}
	_ = lossless
	o.Class("accepted-lossless")
	return nil
}

var repSpec = &kit.Spec[RepCase]{
	Property: "C12",
	Name:     "repetition",
	Rule: "1-30 rows with a repeated int64 column (0-3 elements) read or copied through a target that declares the column optional or required — or a required column through a target that declares it repeated — via ConvertRowGroup, NewReader(file, schema) and CopyRows: " +
		"the target must be rejected with an error, or, when accepted, the row count is unchanged and no row held a list the target cannot represent.",
	Gen: genRepCase,
	Run: runRepCase,
}

func TestPropRepetition(t *testing.T) { kit.Both(t, repSpec) }

// countRows counts the values at repetition level 0 of a column chunk.
func countRows(cc parquet.ColumnChunk) (int64, error) {
	pages := cc.Pages()
	defer pages.Close()
	var n int64
	buf := make([]parquet.Value, 64)
	for {
		p, err := pages.ReadPage()
		if err != nil {
			if err == io.EOF {
				return n, nil
			}
			return n, err
		}
		vr := p.Values()
		for {
			k, err := vr.ReadValues(buf)
			for _, v := range buf[:k] {
				if v.RepetitionLevel() == 0 {
					n++
				}
			}
			if err != nil {
				break
			}
		}
		parquet.Release(p)
	}
}
