package c12

import (
	"bytes"
	"errors"
	"fmt"
	"io"
	"math"
	"testing"

	"github.com/parquet-go/parquet-go"
	"pgregory.net/rapid"

	"verifharness/gen"
	"verifharness/kit"
	"verifharness/pq"
	"verifharness/ref"
)

func TestMain(m *testing.M) { kit.Main(m) }

// M maps a target node to its origin in the source: From is the index of the
// source child it comes from (-1: added by the edit script); Ch describes the
// target node's children.
type M struct {
	From int `json:"from"`
	Ch   []M `json:"ch,omitempty"`
}

type Case struct {
	Schema ref.Node    `json:"schema"`
	Target ref.Node    `json:"target"`
	Map    M           `json:"map"`
	Plan   gen.RowPlan `json:"plan"`
	Entry  string      `json:"entry"`
	Batch  int         `json:"batch"`
	Sorted bool        `json:"sorted,omitempty"` // merge entry: declare a sorting column
	// Revisit (NewReader / ConvertRowGroup entries): before the full read, seek forward to row At‰, read a few rows, then
	// 1 seek back to row 0, 2 Reset (Reader) / a second Rows() of the same converted row group
	Revisit int `json:"revisit,omitempty"`
	At      int `json:"at,omitempty"`
}

var entries = []string{"NewReader(schema)", "ConvertRowGroup", "ConvertRowReader", "CopyRows", "MergeRowGroups(schema)", "MergeRowGroups(schema)"}

var addLeaves = []string{"int32", "int64", "bool", "double", "string", "bytes", "flba:4", "uuid", "date"}

type editor struct {
	t        *rapid.T
	added    int
	edited   bool
	underRep bool // the group being edited sits under a repeated ancestor
	underOpt bool // ... or under an optional group
	entry    string
	shuffled bool
}

// editGroup edits the children of a group-like node.
func hasRepeated(n *ref.Node) bool {
	if n.Rep == "rep" || n.Kind == "list" || n.Kind == "map" {
		return true
	}
	for i := range n.Children {
		if hasRepeated(&n.Children[i]) {
			return true
		}
	}
	return false
}

func (e *editor) editGroup(src []ref.Node, depth int) ([]ref.Node, []M) {
	keep := make([]bool, len(src))
	nkeep := 0
	for i := range src {
		keep[i] = rapid.IntRange(0, 3).Draw(e.t, "keep") != 0
		if keep[i] {
			nkeep++
		}
	}
	if nkeep == 0 {
		keep[rapid.IntRange(0, len(src)-1).Draw(e.t, "keepone")] = true
	}
	var out []ref.Node
	var ms []M
	for i := range src {
		if !keep[i] {
			e.edited = true
			continue
		}
		n, m := e.editNode(src[i], depth+1)
		m.From = i
		out = append(out, n)
		ms = append(ms, m)
	}
	// additions: names sort before (a*), between (cNx) or after (z*) the existing c<N> names
	nadd := []int{0, 0, 1, 1, 2}[rapid.IntRange(0, 4).Draw(e.t, "nadd")]
	if nadd > 0 && e.underOpt && e.entry == "MergeRowGroups(schema)" && kit.Known("C12", "c12/added-column-levels{shape=merge}") {
		kit.Excluded("merge-added-leaf-in-optional-group")
		nadd = 0
	}
	if nadd > 0 && kit.Known("C12", "c12/added-column-levels{shape=next-to-repeated}") {
		// open finding: levels synthesized for a column added in a group that holds (or sits
		// under) repeated columns are wrong; keep additions out of that region
		rep := e.underRep
		for i := range out {
			if hasRepeated(&out[i]) {
				rep = true
			}
		}
		if rep {
			kit.Excluded("added-next-to-repeated")
			nadd = 0
		}
	}
	for k := 0; k < nadd && e.added < 4; k++ {
		var name string
		switch rapid.IntRange(0, 2).Draw(e.t, "where") {
		case 0:
			name = fmt.Sprintf("a%d", e.added)
		case 1:
			name = fmt.Sprintf("c%dx%d", rapid.IntRange(0, 3).Draw(e.t, "between"), e.added)
		default:
			name = fmt.Sprintf("z%d", e.added)
		}
		e.added++
		e.edited = true
		rep := []string{"opt", "opt", "req"}[rapid.IntRange(0, 2).Draw(e.t, "addrep")]
		if rep == "req" && kit.Known("C12", "c12/added-column-levels{shape=required}") {
			kit.Excluded("added-required-leaf")
			rep = "opt"
		}
		n := ref.Node{Name: name, Rep: rep, Kind: "leaf", Leaf: gen.LeafID(e.t, addLeaves, "addleaf")}
		if l := ref.ParseLeaf(n.Leaf); rep == "req" && l.Phys == ref.FLBA && kit.Known("C12", "c12/added-column-levels{shape=required-fixed-len}") {
			kit.Excluded("added-required-flba")
			n.Leaf = "bytes"
		}
		addGroup := rapid.IntRange(0, 4).Draw(e.t, "addgroup") == 0
		if addGroup && kit.Known("C12", "c12/added-column-levels{shape=group}") {
			kit.Excluded("added-group")
			addGroup = false
		}
		if addGroup {
			n = ref.Node{Name: name, Rep: rep, Kind: "group", Children: []ref.Node{{Name: "n0", Rep: "opt", Kind: "leaf", Leaf: "int64"}, {Name: "n1", Rep: "req", Kind: "leaf", Leaf: "string"}}}
		}
		out = append(out, n)
		m := M{From: -1}
		for range n.Children {
			m.Ch = append(m.Ch, M{From: -1})
		}
		ms = append(ms, m)
	}
	// two thirds of the groups list their fields by name (what parquet.Group does), one third
	// in a shuffled order (what a Go struct or another writer's file may declare)
	for i := 1; i < len(out); i++ {
		for j := i; j > 0 && out[j].Name < out[j-1].Name; j-- {
			out[j], out[j-1] = out[j-1], out[j]
			ms[j], ms[j-1] = ms[j-1], ms[j]
		}
	}
	if len(out) > 1 && rapid.IntRange(0, 2).Draw(e.t, "shuffle") == 0 {
		for i := len(out) - 1; i > 0; i-- {
			j := rapid.IntRange(0, i).Draw(e.t, "swap")
			if i != j {
				out[i], out[j] = out[j], out[i]
				ms[i], ms[j] = ms[j], ms[i]
				e.edited = true
				e.shuffled = true
			}
		}
	}
	return out, ms
}

func (e *editor) editNode(n ref.Node, depth int) (ref.Node, M) {
	out := n
	m := M{}
	switch n.Kind {
	case "group":
		if n.Rep == "rep" {
			prev := e.underRep
			e.underRep = true
			defer func() { e.underRep = prev }()
		}
		if n.Rep == "opt" {
			prev := e.underOpt
			e.underOpt = true
			defer func() { e.underOpt = prev }()
		}
		out.Children, m.Ch = e.editGroup(n.Children, depth)
	case "list":
		prev := e.underRep
		e.underRep = true
		defer func() { e.underRep = prev }()
		el, em := e.editNode(n.Children[0], depth+1)
		em.From = 0
		out.Children, m.Ch = []ref.Node{el}, []M{em}
	case "map":
		prev := e.underRep
		e.underRep = true
		defer func() { e.underRep = prev }()
		v, vm := e.editNode(n.Children[1], depth+1)
		vm.From = 1
		out.Children, m.Ch = []ref.Node{n.Children[0], v}, []M{{From: 0}, vm}
	}
	return out, m
}

func genCase(t *rapid.T) Case {
	var c Case
	c.Schema = gen.Schema(t, gen.SchemaOpts{MaxDepth: 3, MaxLeaves: 6})
	c.Entry = entries[rapid.IntRange(0, len(entries)-1).Draw(t, "entry")]
	e := &editor{t: t, entry: c.Entry}
	c.Target = c.Schema
	c.Target.Children, c.Map.Ch = e.editGroup(c.Schema.Children, 0)
	c.Plan = gen.RowsAtLeast(t, &c.Schema, 8, []int{0, 20, 100}[rapid.IntRange(0, 2).Draw(t, "min")], kit.Pick(300, 3000), gen.ValueOpts{Style: gen.SmallDom, Leaf: gen.Opts{MaxBytes: 12}})
	c.Plan.Uniq = rapid.Bool().Draw(t, "uniq")
	c.Batch = []int{1, 7, 64, 300}[rapid.IntRange(0, 3).Draw(t, "batch")]
	c.Sorted = rapid.Bool().Draw(t, "sorted")
	if rapid.IntRange(0, 2).Draw(t, "revisit") == 0 {
		c.Revisit, c.At = rapid.IntRange(1, 2).Draw(t, "rvmode"), rapid.IntRange(1, 999).Draw(t, "rvat")
	}
	return c
}

func added(n *ref.Node) ref.V {
	switch n.Rep {
	case "opt":
		return ref.V{Null: true}
	case "rep":
		return ref.V{}
	}
	switch n.Kind {
	case "group":
		v := ref.V{}
		for i := range n.Children {
			v.F = append(v.F, added(&n.Children[i]))
		}
		return v
	case "leaf":
		l := ref.ParseLeaf(n.Leaf)
		if l.Phys == ref.FLBA {
			return ref.V{B: make([]byte, l.Len)}
		}
		if l.IsBytes() {
			return ref.V{B: []byte{}}
		}
	}
	return ref.V{}
}

// conv applies the edit script to a value.
func conv(v ref.V, src, tgt *ref.Node, m M) ref.V {
	if src.Rep == "opt" && v.Null {
		return ref.V{Null: true}
	}
	if src.Rep == "rep" {
		out := ref.V{}
		for i := range v.L {
			out.L = append(out.L, convContent(v.L[i], src, tgt, m))
		}
		return out
	}
	return convContent(v, src, tgt, m)
}

func convContent(v ref.V, src, tgt *ref.Node, m M) ref.V {
	switch tgt.Kind {
	case "leaf":
		return v
	case "group":
		out := ref.V{}
		for i := range tgt.Children {
			if from := m.Ch[i].From; from >= 0 {
				var f ref.V
				if from < len(v.F) {
					f = v.F[from]
				} else if src.Children[from].Rep == "opt" {
					f = ref.V{Null: true}
				}
				out.F = append(out.F, conv(f, &src.Children[from], &tgt.Children[i], m.Ch[i]))
			} else {
				out.F = append(out.F, added(&tgt.Children[i]))
			}
		}
		return out
	case "list":
		out := ref.V{}
		for i := range v.L {
			out.L = append(out.L, conv(v.L[i], &src.Children[0], &tgt.Children[0], m.Ch[0]))
		}
		return out
	case "map":
		out := ref.V{}
		for _, e := range v.L {
			out.L = append(out.L, ref.V{F: []ref.V{e.F[0], conv(e.F[1], &src.Children[1], &tgt.Children[1], m.Ch[1])}})
		}
		return out
	}
	return v
}

func runCase(c Case, o *kit.Obs) *kit.Failure {
	scols, tcols := ref.Columns(&c.Schema), ref.Columns(&c.Target)
	rows := c.Plan.ExpandWith(&c.Schema)
	sschema, tschema := pq.BuildSchema(&c.Schema), pq.BuildSchema(&c.Target)
	// expected rows under the target schema
	rootMap := M{Ch: c.Map.Ch}
	exp := make([]ref.V, len(rows))
	for i, r := range rows {
		exp[i] = convContent(r, &c.Schema, &c.Target, rootMap)
	}
	want := ref.ShredRows(&c.Target, exp)
	feat := fmt.Sprintf("{entry=%s}", c.Entry)

	var wo []parquet.WriterOption
	wo = append(wo, sschema, parquet.PageBufferSize(256))
	var sc []parquet.SortingColumn
	if c.Entry == "MergeRowGroups(schema)" && c.Sorted {
		// sort by the first required top-level int64/int32 leaf present on both sides, if any
		for ti, tc := range c.Target.Children {
			if from := c.Map.Ch[ti].From; from >= 0 && tc.Kind == "leaf" && tc.Rep == "req" && (tc.Leaf == "int64" || tc.Leaf == "int32") {
				sc = []parquet.SortingColumn{parquet.Ascending(tc.Name)}
				break
			}
		}
	}
	var data []byte
	{
		var buf bytes.Buffer
		if sc != nil {
			wo = append(wo, parquet.SortingWriterConfig(parquet.SortingColumns(sc...)))
		}
		w := parquet.NewWriter(&buf, wo...)
		if _, err := w.WriteRows(pq.Rows(&c.Schema, scols, rows)); err != nil {
			o.Rejected()
			return nil
		}
		if err := w.Close(); err != nil {
			o.Rejected()
			return nil
		}
		data = buf.Bytes()
	}
	f, err := pq.Open(data)
	if err != nil {
		return kit.Failf("c12/open-source", "%v", err)
	}
	var got, part []parquet.Row
	at := 0
	switch c.Entry {
	case "NewReader(schema)":
		r := parquet.NewReader(f, tschema)
		if c.Revisit > 0 && len(rows) > 0 {
			if part, at, err = peek(r, c.At, len(rows)); err == nil {
				if c.Revisit == 1 {
					err = r.SeekToRow(0)
				} else {
					r.Reset()
				}
			}
			o.Class("revisit")
		}
		if err == nil {
			got, err = pq.ReadAllRows(r, c.Batch)
		}
		r.Close()
	case "ConvertRowGroup":
		conv, cerr := parquet.Convert(tschema, sschema)
		if cerr != nil {
			return kit.Failf("c12/convert-error"+feat, "Convert rejected a delete/add-only target: %v", cerr)
		}
		for _, rg := range f.RowGroups() {
			crg := parquet.ConvertRowGroup(rg, conv)
			r := crg.Rows()
			if c.Revisit > 0 && len(got) == 0 && rg.NumRows() > 0 {
				if part, at, err = peek(r, c.At, int(rg.NumRows())); err == nil {
					if c.Revisit == 1 {
						err = r.SeekToRow(0)
					} else {
						r.Close()
						r = crg.Rows()
					}
				}
				o.Class("revisit")
			}
			var rs []parquet.Row
			if err == nil {
				rs, err = pq.ReadAllRows(r, c.Batch)
			}
			r.Close()
			got = append(got, rs...)
			if err != nil {
				break
			}
		}
	case "ConvertRowReader":
		conv, cerr := parquet.Convert(tschema, sschema)
		if cerr != nil {
			return kit.Failf("c12/convert-error"+feat, "Convert rejected a delete/add-only target: %v", cerr)
		}
		src := parquet.NewReader(f)
		r := parquet.ConvertRowReader(src, conv)
		got, err = pq.ReadAllRows(r, c.Batch)
		src.Close()
	case "CopyRows":
		var out bytes.Buffer
		w := parquet.NewWriter(&out, tschema)
		src := parquet.NewReader(f)
		_, err = parquet.CopyRows(w, src)
		src.Close()
		if err == nil {
			err = w.Close()
		}
		if err == nil {
			var f2 *parquet.File
			if f2, err = pq.Open(out.Bytes()); err == nil {
				r := parquet.NewReader(f2)
				got, err = pq.ReadAllRows(r, c.Batch)
				r.Close()
			}
		}
	default:
		opts := []parquet.RowGroupOption{tschema}
		if sc != nil {
			opts = append(opts, parquet.SortingRowGroupConfig(parquet.SortingColumns(sc...)))
		}
		var merged parquet.RowGroup
		merged, err = parquet.MergeRowGroups(f.RowGroups(), opts...)
		if err == nil {
			r := merged.Rows()
			got, err = pq.ReadAllRows(r, c.Batch)
			r.Close()
		}
	}
	if err != nil {
		return kit.Failf(sigOf(c, "c12/error"+feat), "compatible target (delete/add only) failed: %v", err)
	}
	if len(got) != len(rows) {
		return kit.Failf(sigOf(c, "c12/rowcount"+feat), "%d rows out, %d in", len(got), len(rows))
	}
	// the rows read after the forward seek are the rows of the full read at that position
	for i := range part {
		if at+i >= len(got) || !sameRow(part[i], got[at+i]) {
			return kit.Failf(sigOf(c, "c12/seek-differs"+feat), "row %d read after SeekToRow(%d) differs from the same row of the full read", at+i, at)
		}
	}
	normalise := func(gs [][]ref.LV) {
		// an entry whose definition level is below the column's maximum is null whatever
		// placeholder value accompanies it (the library returns zero values for required
		// leaves of an added, absent optional group)
		for ci := range gs {
			for i := range gs[ci] {
				if gs[ci][i].Def < tcols[ci].MaxDef {
					gs[ci][i] = ref.LV{Null: true, Rep: gs[ci][i].Rep, Def: gs[ci][i].Def}
				}
			}
		}
	}
	if sc != nil {
		// a sorted merge of one file's row groups may reorder rows across row groups: compare as multisets via row order key
		gs, err := pq.Streams(tcols, got)
		if err != nil {
			return kit.Failf(sigOf(c, "c12/malformed-row"+feat), "%v", err)
		}
		normalise(gs)
		if d := multisetDiff(tcols, want, gs); d != "" {
			if cc, cw, cg := commonOnly(c, tcols, want, gs); len(cc) < len(tcols) {
				if dc := multisetDiff(cc, cw, cg); dc != "" {
					return kit.Failf("c12/common-columns-differ"+feat+"{sorted}", "columns present on both sides differ (the target also adds columns): %s", dc)
				}
			}
			return kit.Failf(sigFor(c, feat+"{sorted}"), "%s", d)
		}
	} else {
		gs, err := pq.Streams(tcols, got)
		if err != nil {
			return kit.Failf(sigOf(c, "c12/malformed-row"+feat), "%v", err)
		}
		normalise(gs)
		if d := pq.DiffStreams(tcols, want, gs); d != "" {
			// the open findings about ADDED columns never excuse a difference in a column present on both sides
			if cc, cw, cg := commonOnly(c, tcols, want, gs); len(cc) < len(tcols) {
				if dc := pq.DiffStreams(cc, cw, cg); dc != "" {
					return kit.Failf("c12/common-columns-differ"+feat, "columns present on both sides differ (the target also adds columns): %s", dc)
				}
			}
			return kit.Failf(sigFor(c, feat), "%s", d)
		}
	}
	o.Class("entry-" + c.Entry)
	nestedEdit := false
	var walk func(m M, under bool)
	walk = func(m M, under bool) {
		for _, ch := range m.Ch {
			if ch.From < 0 && under {
				nestedEdit = true
			}
			walk(ch, under)
		}
	}
	for i, tc := range c.Target.Children {
		walk(c.Map.Ch[i], tc.Rep != "req" || tc.Kind == "list" || tc.Kind == "map")
	}
	o.ClassIf(nestedEdit, "added-below-optional-or-repeated")
	reordered := false
	var ord func(n *ref.Node)
	ord = func(n *ref.Node) {
		for i := range n.Children {
			if i > 0 && n.Kind == "group" && n.Children[i-1].Name > n.Children[i].Name {
				reordered = true
			}
			ord(&n.Children[i])
		}
	}
	ord(&c.Target)
	o.ClassIf(reordered, "reordered-fields")
	if len(rows) > 0 && (nestedEdit || reordered || len(tcols) != len(scols)) {
		o.NonTrivial()
	}
	return nil
}

// sameRow compares two rows value by value, floats by bit pattern (NaN equals itself).
func sameRow(a, b parquet.Row) bool {
	if len(a) != len(b) {
		return false
	}
	for i := range a {
		x, y := a[i], b[i]
		if x.Kind() != y.Kind() || x.Column() != y.Column() || x.RepetitionLevel() != y.RepetitionLevel() || x.DefinitionLevel() != y.DefinitionLevel() {
			return false
		}
		switch x.Kind() {
		case parquet.Float:
			if math.Float32bits(x.Float()) != math.Float32bits(y.Float()) {
				return false
			}
		case parquet.Double:
			if math.Float64bits(x.Double()) != math.Float64bits(y.Double()) {
				return false
			}
		default:
			if !parquet.Equal(x, y) {
				return false
			}
		}
	}
	return true
}

// peek seeks to row n*at/1000 and reads up to 3 rows (cloned).
func peek(r interface {
	parquet.RowReader
	SeekToRow(int64) error
}, at, n int) ([]parquet.Row, int, error) {
	k := n * at / 1000
	if err := r.SeekToRow(int64(k)); err != nil {
		return nil, k, err
	}
	buf := make([]parquet.Row, 3)
	m, err := r.ReadRows(buf)
	if err != nil && !errors.Is(err, io.EOF) {
		return nil, k, err
	}
	out := make([]parquet.Row, m)
	for i := range out {
		out[i] = buf[i].Clone()
	}
	return out, k, nil
}

// multisetDiff compares rows as multisets (each row rendered to a string).
func multisetDiff(cols []ref.Column, want, got [][]ref.LV) string {
	wr, err1 := ref.SplitRows(want)
	gr, err2 := ref.SplitRows(got)
	if err1 != nil || err2 != nil {
		return fmt.Sprint(err1, err2)
	}
	count := map[string]int{}
	for _, r := range wr {
		count[fmt.Sprint(r)]++
	}
	for i, r := range gr {
		k := fmt.Sprint(r)
		if count[k] == 0 {
			return fmt.Sprintf("output row %d is not one of the expected converted rows: %v", i, r)
		}
		count[k]--
	}
	return ""
}

var spec = &kit.Spec[Case]{
	Property: "C12",
	Name:     "convert",
	Rule: "a random nested source schema (≤6 leaves, lists, maps, optional groups) and rows; the target is produced by an edit script applied at every group level (root, nested groups, list elements, map values): delete fields (each group keeps ≥1 original field), " +
		"list the fields of a third of the groups in a shuffled order instead of by name, add up to 4 optional/required leaves or small groups whose names sort before, between or after the existing ones (so column indexes shift); the same script applied to the value trees (drop, insert null / zero) and shredded by the reference model gives the expected streams. " +
		"Entry points: NewReader(file, target), ConvertRowGroup + Rows, ConvertRowReader, CopyRows into a target writer, MergeRowGroups(row groups, target) with and without a declared sorting column. Non-trivial = at least one row and (a field added below an optional/repeated ancestor, or the number of columns changed).",
	Assumptions: []string{
		"only delete/add edits (parquet.Group orders fields by name, so sibling permutation shows up as index shifts caused by inserted names); type conversions and incompatible targets are not generated",
		"a group under a repeated ancestor always keeps one original field, so element counts stay recoverable",
		"sorted merges compare rows as multisets",
	},
	Gen: genCase,
	Run: runCase,
}

func TestProp(t *testing.T) { kit.Both(t, spec) }

// commonOnly projects the target columns and both stream sets onto the leaf
// columns that come from the source (no added node on their path).
func commonOnly(c Case, tcols []ref.Column, want, got [][]ref.LV) ([]ref.Column, [][]ref.LV, [][]ref.LV) {
	var keep []bool
	var walk func(n ref.Node, m M, added bool)
	walk = func(n ref.Node, m M, added bool) {
		if n.Kind == "leaf" {
			keep = append(keep, !added)
			return
		}
		for i := range n.Children {
			a := added
			var cm M
			if i < len(m.Ch) {
				cm = m.Ch[i]
				if cm.From < 0 {
					a = true
				}
			}
			walk(n.Children[i], cm, a)
		}
	}
	for i := range c.Target.Children {
		a := false
		var cm M
		if i < len(c.Map.Ch) {
			cm = c.Map.Ch[i]
			a = cm.From < 0
		}
		walk(c.Target.Children[i], cm, a)
	}
	var cc []ref.Column
	var cw, cg [][]ref.LV
	for i := range tcols {
		if i < len(keep) && keep[i] {
			cc = append(cc, tcols[i])
			cw = append(cw, want[i])
			cg = append(cg, got[i])
		}
	}
	return cc, cw, cg
}

func walkAdded(n ref.Node, m M, f func(ref.Node)) {
	for i := range n.Children {
		if i < len(m.Ch) {
			if m.Ch[i].From < 0 {
				f(n.Children[i])
			} else {
				walkAdded(n.Children[i], m.Ch[i], f)
			}
		}
	}
}

func hasAddedGroup(t ref.Node, m M) bool {
	found := false
	walkAdded(t, m, func(n ref.Node) {
		if n.Kind == "group" {
			found = true
		}
	})
	return found
}

func hasAddedReqFLBA(t ref.Node, m M) bool {
	found := false
	walkAdded(t, m, func(n ref.Node) {
		if n.Kind == "leaf" && n.Rep == "req" && ref.ParseLeaf(n.Leaf).Phys == ref.FLBA {
			found = true
		}
	})
	return found
}

func hasAddedNextToRepeated(t ref.Node, m M, under bool) bool {
	rep := under
	anyAdded := false
	for i := range t.Children {
		if i < len(m.Ch) && m.Ch[i].From < 0 {
			anyAdded = true
		} else if hasRepeated(&t.Children[i]) {
			rep = true
		}
	}
	if anyAdded && rep {
		return true
	}
	for i := range t.Children {
		if i < len(m.Ch) && m.Ch[i].From >= 0 {
			ch := t.Children[i]
			u := under || ch.Rep == "rep" || ch.Kind == "list" || ch.Kind == "map"
			switch ch.Kind {
			case "group":
				if hasAddedNextToRepeated(ch, m.Ch[i], u) {
					return true
				}
			case "list":
				if hasAddedNextToRepeated(ch.Children[0], m.Ch[i].Ch[0], true) {
					return true
				}
			case "map":
				if hasAddedNextToRepeated(ch.Children[1], m.Ch[i].Ch[1], true) {
					return true
				}
			}
		}
	}
	return false
}

func hasAddedReq(t ref.Node, m M) bool {
	found := false
	walkAdded(t, m, func(n ref.Node) {
		if n.Rep == "req" {
			found = true
		}
	})
	return found
}

// sigFor names a stream difference. Cases whose target adds columns get a
// signature under c12/added-column-levels{shape=...}: the level synthesis for
// added columns has several open findings (F34-F39); cases that only delete
// columns keep the plain signature and are always asserted.
func sigFor(c Case, feat string) string { return sigOf(c, "c12/values-differ"+feat) }

func sigOf(c Case, plain string) string {
	anyAdded := false
	walkAdded(c.Target, M{Ch: c.Map.Ch}, func(ref.Node) { anyAdded = true })
	if !anyAdded {
		return plain
	}
	shape := "other"
	switch {
	case hasAddedGroup(c.Target, c.Map):
		shape = "group"
	case hasAddedReqFLBA(c.Target, c.Map):
		shape = "required-fixed-len"
	case hasAddedNextToRepeated(c.Target, c.Map, false):
		shape = "next-to-repeated"
	case hasAddedReq(c.Target, c.Map):
		shape = "required"
	}
	// (MergeRowGroups used to have a shape of its own, F38: since its repair the
	// merge converts through the row path like the other entry points.)
	return "c12/added-column-levels{shape=" + shape + "}"
}
