package c12

import (
	"bytes"
	"fmt"
	"strconv"
	"testing"

	"github.com/parquet-go/parquet-go"
	"pgregory.net/rapid"

	"verifharness/kit"
	"verifharness/pq"
	"verifharness/ref"
)

// IncCase: a source whose string column "code" holds decimal numbers except at
// the Bad positions, read through a target that declares "code" as an integer
// (and may drop / reorder the other columns). With a bad value the target is
// incompatible with the data: every entry point has to report an error, never
// a shorter or altered result.
type IncCase struct {
	N       int    `json:"n"`
	Bad     []int  `json:"bad,omitempty"`
	CodeOpt bool   `json:"codeopt,omitempty"`
	Int32   bool   `json:"int32,omitempty"` // target type int32 instead of int64
	Drop    bool   `json:"drop,omitempty"`  // the target drops the "note" column
	Order   int    `json:"order"`           // target field order: 0 by name, 1 reversed, 2 code first
	Entry   string `json:"entry"`
	Batch   int    `json:"batch"`
	PageBuf int    `json:"pagebuf"`
}

func genInc(t *rapid.T) IncCase {
	var c IncCase
	c.N = []int{1, 5, 41, 42, 43, 64, 100, 300}[rapid.IntRange(0, 7).Draw(t, "n")]
	nbad := []int{0, 1, 1, 1, 2}[rapid.IntRange(0, 4).Draw(t, "nbad")]
	for i := 0; i < nbad; i++ {
		c.Bad = append(c.Bad, rapid.IntRange(0, c.N-1).Draw(t, "bad"))
	}
	c.CodeOpt = rapid.Bool().Draw(t, "codeopt")
	c.Int32 = rapid.Bool().Draw(t, "int32")
	c.Drop = rapid.Bool().Draw(t, "drop")
	c.Order = rapid.IntRange(0, 2).Draw(t, "order")
	c.Entry = entries[rapid.IntRange(0, len(entries)-1).Draw(t, "entry")]
	if c.Entry == "MergeRowGroups(schema)" && kit.Known("C12", "c12/retyped-differs{entry=MergeRowGroups(schema)}") {
		// open finding F43: the column-chunk view of a converted row group ignores type conversions
		kit.Excluded("retyped-merge")
		c.Entry = entries[rapid.IntRange(0, 3).Draw(t, "entry2")]
	}
	c.Batch = []int{1, 7, 42, 64, 300}[rapid.IntRange(0, 4).Draw(t, "batch")]
	c.PageBuf = []int{64, 256, 0}[rapid.IntRange(0, 2).Draw(t, "pagebuf")]
	return c
}

func runInc(c IncCase, o *kit.Obs) *kit.Failure {
	rep := "req"
	if c.CodeOpt {
		rep = "opt"
	}
	src := ref.Node{Name: "root", Rep: "req", Kind: "group", Children: []ref.Node{
		{Name: "code", Rep: rep, Kind: "leaf", Leaf: "string"},
		{Name: "id", Rep: "req", Kind: "leaf", Leaf: "int64"},
		{Name: "note", Rep: "opt", Kind: "leaf", Leaf: "string"},
	}}
	tleaf := "int64"
	if c.Int32 {
		tleaf = "int32"
	}
	code := ref.Node{Name: "code", Rep: rep, Kind: "leaf", Leaf: tleaf}
	id, note := src.Children[1], src.Children[2]
	tgt := ref.Node{Name: "root", Rep: "req", Kind: "group"}
	switch c.Order {
	case 0:
		tgt.Children = []ref.Node{code, id, note}
	case 1:
		tgt.Children = []ref.Node{note, id, code}
	default:
		tgt.Children = []ref.Node{id, note, code}
	}
	if c.Drop {
		var ch []ref.Node
		for _, n := range tgt.Children {
			if n.Name != "note" {
				ch = append(ch, n)
			}
		}
		tgt.Children = ch
	}
	bad := map[int]bool{}
	for _, b := range c.Bad {
		bad[b] = true
	}
	rows := make([]ref.V, c.N)
	for i := range rows {
		cv := ref.V{B: []byte(strconv.Itoa(1000 + i*7))}
		if bad[i] {
			cv = ref.V{B: []byte("n/a")}
		}
		nv := ref.V{B: []byte(fmt.Sprintf("note-%d", i))}
		if i%5 == 3 {
			nv = ref.V{Null: true}
		}
		rows[i] = ref.V{F: []ref.V{cv, {I: int64(i)}, nv}}
	}
	scols, tcols := ref.Columns(&src), ref.Columns(&tgt)
	sschema, tschema := pq.BuildSchema(&src), pq.BuildSchema(&tgt)
	var buf bytes.Buffer
	wo := []parquet.WriterOption{sschema}
	if c.PageBuf > 0 {
		wo = append(wo, parquet.PageBufferSize(c.PageBuf))
	}
	w := parquet.NewWriter(&buf, wo...)
	if _, err := w.WriteRows(pq.Rows(&src, scols, rows)); err != nil {
		o.Rejected()
		return nil
	}
	if err := w.Close(); err != nil {
		o.Rejected()
		return nil
	}
	f, err := pq.Open(buf.Bytes())
	if err != nil {
		return kit.Failf("c12/open-source", "%v", err)
	}
	feat := fmt.Sprintf("{entry=%s}", c.Entry)
	var got []parquet.Row
	copied := int64(-1)
	switch c.Entry {
	case "NewReader(schema)":
		r := parquet.NewReader(f, tschema)
		got, err = pq.ReadAllRows(r, c.Batch)
		r.Close()
	case "ConvertRowGroup", "ConvertRowReader":
		conv, cerr := parquet.Convert(tschema, sschema)
		if cerr != nil {
			err = cerr
			break
		}
		if c.Entry == "ConvertRowGroup" {
			for _, rg := range f.RowGroups() {
				r := parquet.ConvertRowGroup(rg, conv).Rows()
				var rs []parquet.Row
				rs, err = pq.ReadAllRows(r, c.Batch)
				r.Close()
				got = append(got, rs...)
				if err != nil {
					break
				}
			}
		} else {
			sr := parquet.NewReader(f)
			got, err = pq.ReadAllRows(parquet.ConvertRowReader(sr, conv), c.Batch)
			sr.Close()
		}
	case "CopyRows":
		var out bytes.Buffer
		w := parquet.NewWriter(&out, tschema)
		sr := parquet.NewReader(f)
		copied, err = parquet.CopyRows(w, sr)
		sr.Close()
		if err == nil {
			err = w.Close()
		}
		if err == nil {
			var f2 *parquet.File
			if f2, err = pq.Open(out.Bytes()); err == nil {
				r := parquet.NewReader(f2)
				got, err = pq.ReadAllRows(r, c.Batch)
				r.Close()
			}
		}
	default:
		var merged parquet.RowGroup
		merged, err = parquet.MergeRowGroups(f.RowGroups(), tschema)
		if err == nil {
			r := merged.Rows()
			got, err = pq.ReadAllRows(r, c.Batch)
			r.Close()
		}
	}
	o.Class("entry-" + c.Entry)
	if len(c.Bad) > 0 {
		o.Class("unconvertible-value")
		first := c.N
		for b := range bad {
			if b < first {
				first = b
			}
		}
		o.ClassIf(first%42 != 0 && first%c.Batch != 0, "bad-value-inside-a-batch")
		if first > 0 {
			o.NonTrivial()
		}
		if err == nil {
			return kit.Failf("c12/incompatible-accepted"+feat, "source row %d holds code \"n/a\", which the target type %s cannot represent, but no error was reported: %d of %d rows returned (CopyRows count %d)", first, tleaf, len(got), c.N, copied)
		}
		return nil
	}
	// every value converts: the result must be complete and the untouched columns intact
	if err != nil {
		return kit.Failf("c12/convertible-rejected"+feat, "every code is a decimal number, yet the conversion to %s failed: %v", tleaf, err)
	}
	if len(got) != c.N {
		return kit.Failf("c12/rowcount"+feat, "%d rows out, %d in", len(got), c.N)
	}
	exp := make([]ref.V, c.N)
	for i := range rows {
		e := ref.V{}
		for _, n := range tgt.Children {
			switch n.Name {
			case "code":
				e.F = append(e.F, ref.V{I: int64(1000 + i*7)})
			case "id":
				e.F = append(e.F, rows[i].F[1])
			case "note":
				e.F = append(e.F, rows[i].F[2])
			}
		}
		exp[i] = e
	}
	gs, serr := pq.Streams(tcols, got)
	if serr != nil {
		return kit.Failf("c12/malformed-row"+feat, "%v", serr)
	}
	if d := pq.DiffStreams(tcols, ref.ShredRows(&tgt, exp), gs); d != "" {
		return kit.Failf("c12/retyped-differs"+feat, "%s", d)
	}
	if c.N > 1 {
		o.NonTrivial()
	}
	return nil
}

var incSpec = &kit.Spec[IncCase]{
	Property: "C12",
	Name:     "incompatible",
	Rule: "a source (code string, id int64, note optional string) of 1-300 rows whose code column holds decimal numbers except at 0-2 generated positions (\"n/a\"); the target declares code as int64/int32, lists its fields by name, reversed or code-last, and may drop note; " +
		"read through NewReader(file, target), ConvertRowGroup, ConvertRowReader, CopyRows, MergeRowGroups with batch sizes {1,7,42,64,300}. Oracle: with an unconvertible value an error must be reported by the entry point (never a nil error with a shorter or altered result); " +
		"without one the result is complete, code holds the parsed numbers and the other columns are intact. Non-trivial = the first unconvertible value is not in the first row, or (no bad value and >1 row).",
	Assumptions: []string{"a target whose column type cannot represent a source value is incompatible for that data; the library converts decimal strings to integers (its documented value conversion), which is what the all-convertible branch relies on"},
	Scale:       1,
	Gen:         genInc,
	Run:         runInc,
}

func TestPropIncompatible(t *testing.T) { kit.Both(t, incSpec) }
