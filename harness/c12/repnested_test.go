package c12

import (
	"bytes"
	"fmt"
	"io"
	"strings"
	"testing"

	"github.com/parquet-go/parquet-go"
	"pgregory.net/rapid"

	"verifharness/kit"
)

// RepNestCase: a group g holding a leaf x, each of them repeated, optional or
// required in the source and in the target, the two differing in at least one
// place. The library's conversion table (convert_test.go) defines a repeated
// field read as optional / required as its first element and an optional /
// required field read as repeated as a list of at most one element: a row stays
// one row, the elements kept are the first ones, nothing else is invented.
type RepNestCase struct {
	Src   [2]string `json:"src"` // repetition of g and of x: rep | opt | req
	Tgt   [2]string `json:"tgt"`
	Rows  [][][]int `json:"rows"` // per row the groups, per group the elements
	Entry string    `json:"entry"`
	Batch int       `json:"batch"`
	NoID  bool      `json:"noid,omitempty"`
	Roots bool      `json:"roots,omitempty"` // Convert is given the Group nodes, not schemas
}

var reps = []string{"rep", "opt", "req"}

func genRepNestCase(t *rapid.T) RepNestCase {
	var c RepNestCase
	for {
		for i := 0; i < 2; i++ {
			c.Src[i] = reps[rapid.IntRange(0, 2).Draw(t, "src")]
			c.Tgt[i] = reps[rapid.IntRange(0, 2).Draw(t, "tgt")]
		}
		if c.Src != c.Tgt {
			break
		}
	}
	count := func(rep, label string) int {
		switch rep {
		case "rep":
			return rapid.IntRange(0, 3).Draw(t, label)
		case "opt":
			return rapid.IntRange(0, 1).Draw(t, label)
		}
		return 1
	}
	n := rapid.IntRange(1, 20).Draw(t, "n")
	for i := 0; i < n; i++ {
		groups := [][]int{}
		for g := count(c.Src[0], "ng"); g > 0; g-- {
			elems := []int{}
			for e := count(c.Src[1], "ne"); e > 0; e-- {
				elems = append(elems, rapid.IntRange(1, 9).Draw(t, "e"))
			}
			groups = append(groups, elems)
		}
		c.Rows = append(c.Rows, groups)
	}
	c.Entry = []string{"ConvertRowGroup", "NewReader(schema)", "CopyRows", "Conversion.Convert"}[rapid.IntRange(0, 3).Draw(t, "entry")]
	c.Batch = []int{1, 2, 7, 64}[rapid.IntRange(0, 3).Draw(t, "batch")]
	c.NoID = rapid.IntRange(0, 2).Draw(t, "noid") == 0
	c.Roots = rapid.IntRange(0, 3).Draw(t, "roots") == 0
	return c
}

func repNode(rep string, n parquet.Node) parquet.Node {
	switch rep {
	case "rep":
		return parquet.Repeated(n)
	case "opt":
		return parquet.Optional(n)
	}
	return parquet.Required(n)
}

// shredRep produces the values of column g.x for one row. undefined reports
// that the row holds no element where reps demands one (a required field).
func shredRep(groups [][]int, reps [2]string, col int) (row []parquet.Value, undefined bool) {
	repOf := func(i int) int {
		n := 0
		for _, r := range reps[:i+1] {
			if r == "rep" {
				n++
			}
		}
		return n
	}
	defOf := func(i int) int {
		n := 0
		for _, r := range reps[:i+1] {
			if r != "req" {
				n++
			}
		}
		return n
	}
	if len(groups) == 0 {
		if reps[0] == "req" {
			return []parquet.Value{parquet.Value{}.Level(0, 0, col)}, true
		}
		return []parquet.Value{parquet.Value{}.Level(0, 0, col)}, false
	}
	for gi, elems := range groups {
		rep := 0
		if gi > 0 {
			rep = repOf(0)
		}
		if len(elems) == 0 {
			row = append(row, parquet.Value{}.Level(rep, defOf(0), col))
			if reps[1] == "req" {
				undefined = true
			}
			continue
		}
		for ei, e := range elems {
			r := rep
			if ei > 0 {
				r = repOf(1)
			}
			row = append(row, parquet.Int64Value(int64(e)).Level(r, defOf(1), col))
		}
	}
	return row, undefined
}

// firstOnly is the model of the conversion: elements beyond the first are
// dropped where the target is not repeated.
func firstOnly(groups [][]int, tgt [2]string) [][]int {
	out := [][]int{}
	for gi, elems := range groups {
		if gi > 0 && tgt[0] != "rep" {
			break
		}
		if len(elems) > 1 && tgt[1] != "rep" {
			elems = elems[:1]
		}
		out = append(out, elems)
	}
	return out
}

func runRepNestCase(c RepNestCase, o *kit.Obs) *kit.Failure {
	mkg := func(r [2]string) parquet.Group {
		g := parquet.Group{"g": repNode(r[0], parquet.Group{"x": repNode(r[1], parquet.Int(64))})}
		if !c.NoID {
			g["a"] = parquet.Int(64)
		}
		return g
	}
	src, tgt := parquet.NewSchema("t", mkg(c.Src)), parquet.NewSchema("t", mkg(c.Tgt))
	convert := func() (parquet.Conversion, error) {
		if c.Roots {
			return parquet.Convert(mkg(c.Tgt), mkg(c.Src))
		}
		return parquet.Convert(tgt, src)
	}
	col := 1
	if c.NoID {
		col = 0
	}
	if c.Batch <= 0 {
		c.Batch = 7
	}
	var rows []parquet.Row
	for i, groups := range c.Rows {
		row := parquet.Row{}
		if !c.NoID {
			row = append(row, parquet.Int64Value(int64(i)).Level(0, 0, 0))
		}
		vs, undef := shredRep(groups, c.Src, col)
		if undef {
			return kit.Failf("harness/bad-case", "row %d does not fit the source schema", i)
		}
		rows = append(rows, append(row, vs...))
	}
	var buf bytes.Buffer
	w := parquet.NewWriter(&buf, src)
	if _, err := w.WriteRows(rows); err != nil {
		return kit.Failf("c12/repnested/source-write", "%v", err)
	}
	if err := w.Close(); err != nil {
		return kit.Failf("c12/repnested/source-write", "%v", err)
	}
	f, err := parquet.OpenFile(bytes.NewReader(buf.Bytes()), int64(buf.Len()))
	if err != nil {
		return kit.Failf("c12/repnested/open", "%v", err)
	}
	feat := fmt.Sprintf("{entry=%s,g:%s->%s,x:%s->%s}", c.Entry, c.Src[0], c.Tgt[0], c.Src[1], c.Tgt[1])
	var got []parquet.Row
	colMismatch := ""
	read := func(r parquet.RowReader) (err error) {
		b := make([]parquet.Row, c.Batch)
		for {
			k, rerr := r.ReadRows(b)
			for _, row := range b[:k] {
				got = append(got, row.Clone())
			}
			if rerr != nil {
				if rerr == io.EOF {
					return nil
				}
				return rerr
			}
			if k == 0 {
				return fmt.Errorf("no progress")
			}
			if len(got) > 4*len(rows)+10 {
				return nil
			}
		}
	}
	var rerr error
	func() {
		defer func() {
			if p := recover(); p != nil {
				rerr = fmt.Errorf("panic: %v", p)
			}
		}()
		switch c.Entry {
		case "Conversion.Convert":
			conv, cerr := convert()
			if cerr != nil {
				rerr = cerr
				return
			}
			for at := 0; at < len(rows); at += c.Batch {
				b := []parquet.Row{}
				for _, r := range rows[at:min(at+c.Batch, len(rows))] {
					b = append(b, r.Clone())
				}
				n, e := conv.Convert(b)
				got = append(got, b[:n]...)
				if e != nil {
					rerr = e
					return
				}
			}
		case "ConvertRowGroup":
			conv, cerr := convert()
			if cerr != nil {
				rerr = cerr
				return
			}
			for _, rg := range f.RowGroups() {
				r := parquet.ConvertRowGroup(rg, conv).Rows()
				e := read(r)
				r.Close()
				if e != nil {
					rerr = e
					return
				}
			}
		case "NewReader(schema)":
			r := parquet.NewReader(f, tgt)
			rerr = read(r)
			r.Close()
		default:
			var out bytes.Buffer
			w2 := parquet.NewWriter(&out, tgt)
			r := parquet.NewReader(f)
			_, rerr = parquet.CopyRows(w2, r)
			r.Close()
			if rerr == nil {
				rerr = w2.Close()
			}
			if rerr != nil {
				return
			}
			f2, e := parquet.OpenFile(bytes.NewReader(out.Bytes()), int64(out.Len()))
			if e != nil {
				colMismatch = fmt.Sprintf("the copy does not open: %v", e)
				return
			}
			if f2.NumRows() != int64(len(rows)) {
				got = make([]parquet.Row, f2.NumRows())
				return
			}
			for _, rg := range f2.RowGroups() {
				for ci, cc := range rg.ColumnChunks() {
					n, e := countRows(cc)
					if e != nil {
						colMismatch = fmt.Sprintf("column %d of the copy does not read: %v", ci, e)
						return
					}
					if n != rg.NumRows() {
						colMismatch = fmt.Sprintf("column %d of the copy holds %d rows, its row group %d", ci, n, rg.NumRows())
						return
					}
				}
			}
			r2 := parquet.NewReader(f2)
			if e := read(r2); e != nil {
				colMismatch = fmt.Sprintf("the copy does not read: %v", e)
			}
			r2.Close()
		}
	}()
	o.Class("entry-" + c.Entry)
	if rerr != nil && strings.HasPrefix(rerr.Error(), "panic: ") {
		return kit.Failf("c12/repnested/panic"+feat, "%v", rerr)
	}
	changed := 0
	for i := range c.Src {
		if (c.Src[i] == "rep") != (c.Tgt[i] == "rep") {
			changed++
		}
	}
	o.Class(fmt.Sprintf("repetition-changes-%d", changed))
	if rerr != nil {
		if changed == 0 {
			return kit.Failf("c12/repnested/rejected"+feat, "optional <-> required only, yet: %v", rerr)
		}
		o.Class("rejected")
		return nil // rejecting a change of repetition is allowed
	}
	if colMismatch != "" {
		return kit.Failf("c12/repnested/copy-malformed"+feat, "the target was accepted and %s (rows %v)", colMismatch, c.Rows)
	}
	if len(got) != len(rows) {
		return kit.Failf("c12/repnested/rowcount"+feat, "%d rows went in, %d came out (rows %v)", len(rows), len(got), c.Rows)
	}
	lossy := false
	for i, row := range got {
		var vs []parquet.Value
		for _, v := range row {
			if v.Column() == col {
				vs = append(vs, v)
			} else if v.Int64() != int64(i) {
				return kit.Failf("c12/repnested/order"+feat, "row %d has a=%v", i, v)
			}
		}
		model := firstOnly(c.Rows[i], c.Tgt)
		if fmt.Sprint(model) != fmt.Sprint(c.Rows[i]) {
			lossy = true
		}
		want, undef := shredRep(model, c.Tgt, col)
		if len(vs) != len(want) {
			return kit.Failf("c12/repnested/malformed-row"+feat, "row %d (%v): column g.x holds %d values, %d expected (%v): %+v", i, c.Rows[i], len(vs), len(want), model, vs)
		}
		for k := range vs {
			if vs[k].RepetitionLevel() != want[k].RepetitionLevel() {
				return kit.Failf("c12/repnested/levels"+feat, "row %d (%v): value %d of column g.x is %+v, expected %+v", i, c.Rows[i], k, vs[k], want[k])
			}
			if undef {
				continue // a required field without a source element: the fill value is not defined by the conversion table
			}
			if vs[k].DefinitionLevel() != want[k].DefinitionLevel() || vs[k].IsNull() != want[k].IsNull() || (!want[k].IsNull() && vs[k].Int64() != want[k].Int64()) {
				return kit.Failf("c12/repnested/value"+feat, "row %d (%v): value %d of column g.x is %+v, expected %+v", i, c.Rows[i], k, vs[k], want[k])
			}
		}
	}
	o.ClassIf(lossy, "elements-dropped")
	if changed > 0 {
		o.NonTrivial()
	}
	return nil
}

var repNestSpec = &kit.Spec[RepNestCase]{
	Property: "C12",
	Name:     "repetition-nested",
	Rule: "1-20 rows of a group g (repeated / optional / required) holding a leaf x (repeated / optional / required), read through a target that declares other repetitions for g, x or both, via Conversion.Convert on rows, ConvertRowGroup, NewReader(file, schema) and CopyRows into a writer of the target (the copy is opened again and every column must hold one entry per row): " +
		"the conversion is rejected, or every row stays one row at its place and holds exactly the first elements (the conversion table of convert_test.go: repeated read as optional / required is the first element, optional / required read as repeated a list of at most one), with the levels of the target schema. Non-trivial = a repeated <-> non-repeated change.",
	Assumptions: []string{"the fill value of a required target field whose source holds no element is not compared (only its presence and levels)"},
	Gen:         genRepNestCase,
	Run:         runRepNestCase,
}

func TestPropRepetitionNested(t *testing.T) { kit.Both(t, repNestSpec) }
