package c12

import (
	"bytes"
	"fmt"
	"reflect"
	"testing"

	"github.com/parquet-go/parquet-go"
	"pgregory.net/rapid"

	"verifharness/kit"
)

// ReadTypesCase: one Reader, rows read one at a time with Reader.Read into Go
// types that select / reorder the columns of the file, the type changing from
// one call to the next: every row must be the projection of the row written at
// that position.
type ReadTypesCase struct {
	Rows  []RTRow `json:"rows"`
	Types []int   `json:"types"` // the type used for each Read (0 the written type, 1-3 narrower / reordered ones)
	Opts  int     `json:"opts"`  // 0 default | 1 small pages | 2 two row groups
}

type RTRow struct {
	A int64    `json:"a"`
	B string   `json:"b"`
	C *int64   `json:"c"`
	D []string `json:"d"`
}

type rtSrc struct {
	A int64
	B string
	C *int64
	D []string
}

type rtDst1 struct {
	D []string
	C *int64
	A int64
}

type rtDst2 struct {
	B string
}

type rtDst3 struct {
	C *int64
	B string
	E *string // not in the file
}

func genReadTypesCase(t *rapid.T) ReadTypesCase {
	var c ReadTypesCase
	n := rapid.IntRange(1, 12).Draw(t, "n")
	for i := 0; i < n; i++ {
		r := RTRow{A: int64(rapid.IntRange(-5, 5).Draw(t, "a")), B: rapid.StringMatching("[a-c]{0,3}").Draw(t, "b"), D: []string{}}
		if rapid.Bool().Draw(t, "hasc") {
			v := int64(rapid.IntRange(0, 9).Draw(t, "c"))
			r.C = &v
		}
		for k := rapid.IntRange(0, 3).Draw(t, "nd"); k > 0; k-- {
			r.D = append(r.D, rapid.StringMatching("[x-z]{0,2}").Draw(t, "d"))
		}
		c.Rows = append(c.Rows, r)
		c.Types = append(c.Types, rapid.IntRange(0, 3).Draw(t, "type"))
	}
	c.Opts = rapid.IntRange(0, 2).Draw(t, "opts")
	return c
}

func runReadTypesCase(c ReadTypesCase, o *kit.Obs) (fl *kit.Failure) {
	if len(c.Types) != len(c.Rows) {
		return kit.Failf("harness/bad-case", "%d types for %d rows", len(c.Types), len(c.Rows))
	}
	var buf bytes.Buffer
	var wo []parquet.WriterOption
	switch c.Opts {
	case 1:
		wo = append(wo, parquet.PageBufferSize(16))
	case 2:
		wo = append(wo, parquet.MaxRowsPerRowGroup(int64(len(c.Rows)+1)/2))
	}
	w := parquet.NewGenericWriter[rtSrc](&buf, wo...)
	for _, r := range c.Rows {
		if _, err := w.Write([]rtSrc{{A: r.A, B: r.B, C: r.C, D: r.D}}); err != nil {
			return kit.Failf("c12/readtypes/write", "%v", err)
		}
	}
	if err := w.Close(); err != nil {
		return kit.Failf("c12/readtypes/write", "%v", err)
	}
	f, err := parquet.OpenFile(bytes.NewReader(buf.Bytes()), int64(buf.Len()))
	if err != nil {
		return kit.Failf("c12/readtypes/open", "%v", err)
	}
	r := parquet.NewReader(f)
	defer r.Close()
	ptr := func(p *int64) string {
		if p == nil {
			return "nil"
		}
		return fmt.Sprint(*p)
	}
	list := func(l []string) string { return fmt.Sprintf("%q", append([]string{}, l...)) }
	changes := 0
	for i, row := range c.Rows {
		var got, want string
		err := func() (err error) {
			defer func() {
				if p := recover(); p != nil {
					err = fmt.Errorf("panic: %v", p)
				}
			}()
			switch c.Types[i] {
			case 0:
				var v rtSrc
				err = r.Read(&v)
				got = fmt.Sprintf("A=%d B=%q C=%s D=%s", v.A, v.B, ptr(v.C), list(v.D))
				want = fmt.Sprintf("A=%d B=%q C=%s D=%s", row.A, row.B, ptr(row.C), list(row.D))
			case 1:
				var v rtDst1
				err = r.Read(&v)
				got = fmt.Sprintf("D=%s C=%s A=%d", list(v.D), ptr(v.C), v.A)
				want = fmt.Sprintf("D=%s C=%s A=%d", list(row.D), ptr(row.C), row.A)
			case 2:
				var v rtDst2
				err = r.Read(&v)
				got, want = fmt.Sprintf("B=%q", v.B), fmt.Sprintf("B=%q", row.B)
			default:
				var v rtDst3
				err = r.Read(&v)
				got = fmt.Sprintf("C=%s B=%q E=%v", ptr(v.C), v.B, v.E == nil)
				want = fmt.Sprintf("C=%s B=%q E=true", ptr(row.C), row.B)
			}
			return err
		}()
		if i > 0 && c.Types[i] != c.Types[i-1] {
			changes++
		}
		feat := fmt.Sprintf("{type=%d}", c.Types[i])
		if err != nil {
			return kit.Failf("c12/readtypes/error"+feat, "Read of row %d into type %d (types so far %v): %v", i, c.Types[i], c.Types[:i+1], err)
		}
		if got != want {
			return kit.Failf("c12/readtypes/differs"+feat, "row %d read into type %d (types so far %v) is {%s}, written {%s}", i, c.Types[i], c.Types[:i+1], got, want)
		}
	}
	_ = reflect.TypeOf
	o.Class(fmt.Sprintf("type-changes-%d", min(changes, 3)))
	if changes > 0 {
		o.NonTrivial()
	}
	return nil
}

var readTypesSpec = &kit.Spec[ReadTypesCase]{
	Property: "C12",
	Name:     "readtypes",
	Rule: "1-12 rows (int64, string, optional int64, list of strings) written with GenericWriter and read one by one with Reader.Read on a single Reader, each call into a generated choice of 4 Go types (the written one, a reordered subset, a single column, a subset plus a new optional column), over default pages, tiny pages or two row groups: " +
		"every row read is the projection of the row written at that position. Non-trivial = the type changes between two reads.",
	Gen: genReadTypesCase,
	Run: runReadTypesCase,
}

func TestPropReadTypes(t *testing.T) { kit.Both(t, readTypesSpec) }
