package dbg

import (
	"runtime"
	"fmt"
	"sort"
	"testing"
	"time"

	"github.com/parquet-go/parquet-go"
)

type R struct {
	K int64  `parquet:"k"`
	S string `parquet:"s,optional"`
}

func TestDbg(t *testing.T) {
	for _, n := range []int{3, 7, 8, 9, 11, 16, 17, 33} {
		done := make(chan struct{})
		go func() {
			defer close(done)
			rows := make([]R, n)
			for i := range rows {
				rows[i].K = int64((i * 7) % n)
				rows[i].S = fmt.Sprint(i)
			}
			b := parquet.NewGenericBuffer[R](parquet.SortingRowGroupConfig(parquet.SortingColumns(parquet.Ascending("k"))))
			b.Write(rows)
			sort.Sort(b)
			r := b.Rows()
			out := make([]parquet.Row, n)
			k, _ := r.ReadRows(out)
			r.Close()
			fmt.Println("n", n, "read", k)
		}()
		select {
		case <-done:
		case <-time.After(5 * time.Second):
			buf := make([]byte, 1<<16)
			t.Fatalf("n=%d: hang\n%s", n, buf[:runtime.Stack(buf, true)])
		}
	}
}
