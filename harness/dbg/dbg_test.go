package dbg

import (
	"bytes"
	"fmt"
	"testing"
	"time"

	"github.com/parquet-go/parquet-go"
)

type T struct {
	D   time.Time      `parquet:"d,date"`
	Dms time.Duration  `parquet:"dms,time(millisecond)"`
	Dus time.Duration  `parquet:"dus,time(microsecond)"`
	Du  time.Duration  `parquet:"du,time"`
	PD  *time.Duration `parquet:"pd,time(microsecond)"`
	Tms time.Time      `parquet:"tms,timestamp"`
}

func TestDbg(t *testing.T) {
	schema := parquet.SchemaOf(T{})
	fmt.Println(schema)
	var buf bytes.Buffer
	w := parquet.NewWriter(&buf, schema)
	// row written with the Row API: d = 3 days, dms = 1500 ms, dus = 2500 us, du = 7 ns, pd = 9 us, tms = 1000 ms
	row := parquet.Row{
		parquet.Int32Value(3).Level(0, 0, 0),
		parquet.Int32Value(1500).Level(0, 0, 1),
		parquet.Int64Value(2500).Level(0, 0, 2),
		parquet.Int64Value(7).Level(0, 0, 3),
		parquet.Int64Value(9).Level(0, 1, 4),
		parquet.Int64Value(1000).Level(0, 0, 5),
	}
	if _, err := w.WriteRows([]parquet.Row{row}); err != nil {
		t.Fatal(err)
	}
	if err := w.Close(); err != nil {
		t.Fatal(err)
	}
	rows, err := parquet.Read[T](bytes.NewReader(buf.Bytes()), int64(buf.Len()))
	if err != nil {
		t.Fatal(err)
	}
	r := rows[0]
	fmt.Println("read back:", r.D.UTC(), r.Dms, r.Dus, r.Du, *r.PD, r.Tms.UTC())
	var x T
	if err := schema.Reconstruct(&x, row); err != nil {
		t.Fatal(err)
	}
	fmt.Println("reconstruct:", x.D.UTC(), x.Dms, x.Dus, x.Du, *x.PD, x.Tms.UTC())
}
