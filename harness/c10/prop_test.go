package c10

import (
	"bytes"
	"crypto/sha256"
	"encoding/hex"
	"fmt"
	"sort"
	"testing"

	"github.com/parquet-go/parquet-go"
	"pgregory.net/rapid"

	"verifharness/c02"
	"verifharness/gen"
	"verifharness/kit"
	"verifharness/pq"
	"verifharness/ref"
)

func TestMain(m *testing.M) { kit.Main(m) }

// SortCol declares one sorting column.
type SortCol struct {
	Col        int  `json:"col"` // top-level leaf column index
	Desc       bool `json:"desc,omitempty"`
	NullsFirst bool `json:"nullsfirst,omitempty"`
}

// BOp is a buffer operation.
type BOp struct {
	K string `json:"k"` // "write" N rows | "sort" | "read" | "reset" | "flush" (sorting writer)
	N int    `json:"n,omitempty"`
}

type Case struct {
	Kind    string      `json:"kind"` // "Buffer" | "GenericBuffer" | "RowBuffer" | "SortingWriter"
	Schema  ref.Node    `json:"schema"`
	Sorting []SortCol   `json:"sorting"`
	Plan    gen.RowPlan `json:"plan"`
	Ops     []BOp       `json:"ops"`
	// sorting writer only
	SortRows int            `json:"sortrows"`
	Dedup    bool           `json:"dedup,omitempty"`
	Opts     gen.WriterOpts `json:"opts"`
}

var keyLeaves = []string{"int32", "int64", "uint32", "uint64", "int8", "float", "double", "string", "bytes", "flba:3", "flba:40", "uuid", "bool", "date", "dec64:18:4", "decflba:5:10:3"}

func genCase(t *rapid.T) Case {
	var c Case
	c.Kind = []string{"Buffer", "Buffer", "GenericBuffer", "RowBuffer", "SortingWriter", "SortingWriter"}[rapid.IntRange(0, 5).Draw(t, "kind")]
	// schema: column 0 = required int64 row id (payload), then 1-3 key candidates (required/optional leaves), optionally a repeated payload
	root := ref.Node{Name: "root", Rep: "req", Kind: "group"}
	root.Children = append(root.Children, ref.Node{Name: "c0", Rep: "req", Kind: "leaf", Leaf: "int64"})
	nk := rapid.IntRange(1, 3).Draw(t, "nkeys")
	for i := 0; i < nk; i++ {
		rep := []string{"req", "opt", "opt"}[rapid.IntRange(0, 2).Draw(t, "krep")]
		key := ref.Node{Name: fmt.Sprintf("c%d", i+1), Rep: rep, Kind: "leaf", Leaf: gen.LeafID(t, keyLeaves, "kleaf")}
		if rapid.IntRange(0, 3).Draw(t, "knest") == 0 {
			// an optional leaf inside an optional group: nulls at two depths (group absent, leaf absent)
			key = ref.Node{Name: key.Name, Rep: "opt", Kind: "group", Children: []ref.Node{{Name: "k", Rep: "opt", Kind: "leaf", Leaf: key.Leaf}}}
		}
		root.Children = append(root.Children, key)
	}
	// a repeated payload column after, between or before the key candidates (rows with several
	// values in it shift the position of the keys inside the row)
	keyAt := []int{0, 1, 2, 3}[:nk+1] // child index of key candidate i (1-based)
	if rapid.IntRange(0, 2).Draw(t, "payload") != 1 {
		pos := rapid.IntRange(1, nk+1).Draw(t, "payloadpos")
		ch := append([]ref.Node{}, root.Children[:pos]...)
		ch = append(ch, ref.Node{Rep: "rep", Kind: "leaf", Leaf: "string"})
		ch = append(ch, root.Children[pos:]...)
		root.Children = ch
		for i := 1; i <= nk; i++ {
			if i >= pos {
				keyAt[i] = i + 1
			}
		}
		for i := range root.Children {
			root.Children[i].Name = fmt.Sprintf("c%d", i)
		}
	}
	c.Schema = root
	ns := rapid.IntRange(1, nk).Draw(t, "nsort")
	perm := rapid.Permutation([]int{1, 2, 3}[:nk]).Draw(t, "perm")
	for i := 0; i < ns; i++ {
		c.Sorting = append(c.Sorting, SortCol{Col: keyAt[perm[i]], Desc: rapid.Bool().Draw(t, "desc"), NullsFirst: rapid.Bool().Draw(t, "nf")})
	}
	c.Plan = gen.RowsAtLeast(t, &c.Schema, 8, []int{0, 10, 70}[rapid.IntRange(0, 2).Draw(t, "min")], kit.Pick(300, 2000),
		gen.ValueOpts{Style: []gen.Style{gen.SmallDom, gen.SmallDom, gen.Mixed}[rapid.IntRange(0, 2).Draw(t, "style")], Leaf: gen.Opts{NoNaN: true, MaxBytes: 12}})
	total := c.Plan.NumRows()
	left := total
	nops := rapid.IntRange(1, 10).Draw(t, "nops")
	for i := 0; i < nops; i++ {
		k := rapid.IntRange(0, 9).Draw(t, "op")
		switch {
		case k <= 4 && left > 0:
			n := rapid.IntRange(1, left).Draw(t, "wn")
			if rapid.Bool().Draw(t, "wsmall") && n > 9 {
				n = []int{1, 2, 7, 8, 9}[rapid.IntRange(0, 4).Draw(t, "wk")]
			}
			c.Ops = append(c.Ops, BOp{K: "write", N: n})
			left -= n
		case k <= 7:
			c.Ops = append(c.Ops, BOp{K: "sort"})
		case k == 8:
			c.Ops = append(c.Ops, BOp{K: "read"})
		default:
			c.Ops = append(c.Ops, BOp{K: "reset"})
		}
	}
	if left > 0 {
		c.Ops = append(c.Ops, BOp{K: "write", N: left})
	}
	c.Ops = append(c.Ops, BOp{K: "sort"})
	c.SortRows = []int{1, 2, 3, 7, 64, 1 << 20}[rapid.IntRange(0, 5).Draw(t, "sortrows")]
	c.Dedup = rapid.IntRange(0, 3).Draw(t, "dedup") == 0
	cols := ref.Columns(&c.Schema)
	c.Opts = gen.WriterOptions(t, cols, gen.OptsBias{SmallPages: true, NoBloom: true, Codecs: []string{"", "snappy"}})
	c.Opts.Pool, c.Opts.KV = "", nil
	return c
}

func (c Case) sortingColumns(cols []ref.Column) []parquet.SortingColumn {
	var out []parquet.SortingColumn
	for _, s := range c.Sorting {
		var sc parquet.SortingColumn
		if s.Desc {
			sc = parquet.Descending(cols[s.Col].Path...)
		} else {
			sc = parquet.Ascending(cols[s.Col].Path...)
		}
		if s.NullsFirst {
			sc = parquet.NullsFirst(sc)
		}
		out = append(out, sc)
	}
	return out
}

// cmpRows orders two model rows (per-column streams) by the declared columns.
func (c Case) cmpRows(cols []ref.Column, a, b [][]ref.LV) int {
	for _, s := range c.Sorting {
		x, y := a[s.Col][0], b[s.Col][0]
		switch {
		case x.Null && y.Null:
			continue
		case x.Null:
			if s.NullsFirst {
				return -1
			}
			return 1
		case y.Null:
			if s.NullsFirst {
				return 1
			}
			return -1
		}
		r, _ := ref.Compare(cols[s.Col].Leaf, x.I, x.B, y.I, y.B)
		if s.Desc {
			r = -r
		}
		if r != 0 {
			return r
		}
	}
	return 0
}

type sortable interface {
	sort.Interface
	parquet.RowGroup
	WriteRows([]parquet.Row) (int, error)
	Reset()
}

func runCase(c Case, o *kit.Obs) *kit.Failure {
	cols := ref.Columns(&c.Schema)
	rows := c.Plan.ExpandWith(&c.Schema)
	for i := range rows { // unique row ids
		rows[i].F = append([]ref.V{{I: int64(i)}}, rows[i].F[1:]...)
	}
	model, err := ref.SplitRows(ref.ShredRows(&c.Schema, rows))
	if err != nil {
		return kit.Failf("harness/split", "%v", err)
	}
	prows := pq.Rows(&c.Schema, cols, rows)
	schema := pq.BuildSchema(&c.Schema)
	sc := c.sortingColumns(cols)
	feat := fmt.Sprintf("{kind=%s}", c.Kind)
	libCmp := schema.Comparator(sc...)

	// the order in which the ids come out is a deterministic function of the case: it is
	// compared between the assembly and the portable build
	order := sha256.New()
	defer func() { o.Digest(hex.EncodeToString(order.Sum(nil)[:8])) }()

	// verify checks that got is an ordered permutation of the rows with ids in want.
	verify := func(got []parquet.Row, want []int, dedup bool, when string) *kit.Failure {
		seen := map[int64]bool{}
		var prev [][]ref.LV
		var prevRow parquet.Row
		keys := map[string]bool{}
		for i, row := range got {
			s, err := pq.Streams(cols, []parquet.Row{row})
			if err != nil {
				return kit.Failf("c10/malformed-row"+feat, "%s: %v", when, err)
			}
			id := s[0][0].I
			fmt.Fprintf(order, "%d,", id)
			if id < 0 || id >= int64(len(model)) || seen[id] {
				return kit.Failf("c10/not-a-permutation"+feat, "%s: row %d has id %d (unknown or duplicated)", when, i, id)
			}
			seen[id] = true
			if d := pq.DiffStreams(cols, model[id], s); d != "" {
				return kit.Failf("c10/row-not-intact"+feat, "%s: output row %d (id %d) differs from the row written: %s", when, i, id, d)
			}
			if prev != nil {
				if c.cmpRows(cols, prev, s) > 0 {
					return kit.Failf("c10/not-sorted"+feat, "%s: rows %d and %d (ids %d, %d) are out of order for %+v", when, i-1, i, prev[0][0].I, id, c.Sorting)
				}
				if libCmp(prevRow, row) > 0 {
					return kit.Failf("c10/comparator-disagrees"+feat, "%s: Schema.Comparator says row %d > row %d", when, i-1, i)
				}
			}
			prev, prevRow = s, row
			if dedup {
				k := ""
				for _, sc := range c.Sorting {
					k += fmt.Sprint(s[sc.Col][0].Null, s[sc.Col][0].I, s[sc.Col][0].B, "|")
				}
				if keys[k] {
					return kit.Failf("c10/duplicate-key-kept"+feat, "%s: key of row %d appears twice with DropDuplicatedRows", when, i)
				}
				keys[k] = true
			}
		}
		if !dedup {
			if len(got) != len(want) {
				return kit.Failf("c10/not-a-permutation"+feat, "%s: %d rows out, %d rows in", when, len(got), len(want))
			}
			for _, id := range want {
				if !seen[int64(id)] {
					return kit.Failf("c10/not-a-permutation"+feat, "%s: row id %d was lost", when, id)
				}
			}
		} else {
			// exactly one row per distinct key
			distinct := map[string]bool{}
			for _, id := range want {
				k := ""
				for _, sc := range c.Sorting {
					e := model[id][sc.Col][0]
					k += fmt.Sprint(e.Null, normI(cols[sc.Col].Leaf, e.I), e.B, "|")
				}
				distinct[k] = true
			}
			if len(got) != len(distinct) {
				return kit.Failf("c10/dedup-count"+feat, "%s: %d rows out, %d distinct keys in", when, len(got), len(distinct))
			}
		}
		return nil
	}

	if c.Kind == "SortingWriter" {
		var out bytes.Buffer
		opts := append([]parquet.WriterOption{schema, parquet.SortingWriterConfig(parquet.SortingColumns(sc...), parquet.DropDuplicatedRows(c.Dedup))}, pq.Options(c.Opts, cols, "")...)
		w := parquet.NewSortingWriter[any](&out, int64(c.SortRows), opts...)
		i := 0
		var ids []int
		for _, op := range c.Ops {
			switch op.K {
			case "write":
				n := op.N
				if i+n > len(prows) {
					n = len(prows) - i
				}
				if k, err := w.WriteRows(prows[i : i+n]); err != nil || k != n {
					o.Rejected()
					return nil
				}
				for j := i; j < i+n; j++ {
					ids = append(ids, j)
				}
				i += n
			case "read":
				if err := w.Flush(); err != nil {
					o.Rejected()
					return nil
				}
			}
		}
		if err := w.Close(); err != nil {
			o.Rejected()
			o.Class("close-error")
			return nil
		}
		f, err := pq.Open(out.Bytes())
		if err != nil {
			return kit.Failf("c10/open-error"+feat, "%v", err)
		}
		var got []parquet.Row
		for gi, rg := range f.RowGroups() {
			r := rg.Rows()
			rs, err := pq.ReadAllRows(r, 33)
			r.Close()
			if err != nil {
				return kit.Failf("c10/read-error"+feat, "%v", err)
			}
			got = append(got, rs...)
			rec := rg.SortingColumns()
			if !parquet.EqualSortingColumns(rec, sc) && rg.NumRows() > 0 {
				return kit.Failf("c10/sorting-metadata"+feat, "row group %d records sorting columns %v, declared %v", gi, rec, sc)
			}
		}
		if fl := verify(got, ids, c.Dedup, "after Close"); fl != nil {
			return fl
		}
		if _, is := c02.Verify(out.Bytes(), c02.Expect{Cols: cols}); is != nil {
			return kit.Failf("c10/structure/"+is.Rule, "SortingWriter output: %s", is.Msg)
		}
		o.Class("kind-SortingWriter")
		o.ClassIf(c.Dedup, "dedup")
		if len(ids) > c.SortRows && len(c.Sorting) >= 1 {
			o.NonTrivial()
		}
		return nil
	}

	var buf sortable
	rgo := []parquet.RowGroupOption{schema, parquet.SortingRowGroupConfig(parquet.SortingColumns(sc...))}
	switch c.Kind {
	case "Buffer":
		buf = parquet.NewBuffer(rgo...)
	case "GenericBuffer":
		buf = parquet.NewGenericBuffer[any](rgo...)
	default:
		buf = parquet.NewRowBuffer[any](rgo...)
	}
	i := 0
	var ids []int
	sorts, writesAfterSort, nullKey := 0, 0, false
	for _, s := range c.Sorting {
		for _, id := range []int{} {
			_ = id
		}
		_ = s
	}
	for oi, op := range c.Ops {
		switch op.K {
		case "write":
			n := op.N
			if i+n > len(prows) {
				n = len(prows) - i
			}
			k, err := buf.WriteRows(prows[i : i+n])
			if err != nil || k != n {
				return kit.Failf("c10/write-error"+feat, "op %d: WriteRows(%d) = %d, %v", oi, n, k, err)
			}
			for j := i; j < i+n; j++ {
				ids = append(ids, j)
			}
			i += n
			if sorts > 0 {
				writesAfterSort++
			}
		case "sort":
			sort.Sort(buf)
			sorts++
			r := buf.Rows()
			got, err := pq.ReadAllRows(r, 29)
			r.Close()
			if err != nil {
				return kit.Failf("c10/read-error"+feat, "op %d: %v", oi, err)
			}
			if fl := verify(got, ids, false, fmt.Sprintf("after sort (op %d)", oi)); fl != nil {
				return fl
			}
		case "read":
			r := buf.Rows()
			got, err := pq.ReadAllRows(r, 11)
			r.Close()
			if err != nil {
				return kit.Failf("c10/read-error"+feat, "op %d: %v", oi, err)
			}
			if len(got) != len(ids) {
				return kit.Failf("c10/not-a-permutation"+feat, "op %d: unsorted read returned %d rows, buffer holds %d", oi, len(got), len(ids))
			}
		case "reset":
			buf.Reset()
			ids = ids[:0]
		}
	}
	for _, id := range ids {
		for _, s := range c.Sorting {
			if model[id][s.Col][0].Null {
				nullKey = true
			}
		}
	}
	o.Class("kind-" + c.Kind)
	o.ClassIf(nullKey, "null-key")
	o.ClassIf(writesAfterSort > 0, "write-after-sort")
	if nullKey && (len(c.Sorting) >= 2 || c.Sorting[0].Desc) && (sorts >= 2 || len(c.Ops) >= 3) {
		o.NonTrivial()
	}
	return nil
}

func normI(l ref.Leaf, i int64) int64 {
	if l.Order == ref.OrderFloat && (i == int64(int32(-0x80000000)) || i == -0x8000000000000000) {
		return 0 // -0 and +0 are the same key
	}
	return i
}

var spec = &kit.Spec[Case]{
	Property: "C10",
	Name:     "sort",
	Rule: "schemas with a unique required row id, 1-3 key candidate columns (required/optional leaves of 15 ordered types, no NaN) and an optional repeated payload; 1-n sorting columns with generated direction and null placement; " +
		"row plans with many duplicate keys and nulls; histories write(batch)/sort/read/reset on Buffer, GenericBuffer[any] and RowBuffer[any] (every sort is verified, including sort→write more→sort), " +
		"or a SortingWriter[any] with sort-run size in {1,2,3,7,64,∞}, Flush calls, DropDuplicatedRows and generated writer options. Oracle: output is a permutation of the rows written (ids, whole rows intact), ordered under the reference comparator and under Schema.Comparator, " +
		"file sorting_columns equal the declaration, one row per key with dedup, and the SortingWriter file passes the independent walk of C02. Non-trivial = a null in a key column, ≥2 keys or a descending key, and ≥2 sorts or ≥3 operations (buffers); more rows than the sort-run size (SortingWriter).",
	Assumptions: []string{"NaN is excluded from key columns (no total order)", "ties may come out in any order (no stability is asserted for sort.Sort)"},
	Gen:         genCase,
	Run:         runCase,
}

func TestProp(t *testing.T) { kit.Both(t, spec) }
