package c10

import (
	"fmt"
	"sort"
	"testing"

	"github.com/parquet-go/parquet-go"
	"pgregory.net/rapid"

	"verifharness/kit"
)

// RepCase: a buffer sorted by a REPEATED column (a list of small integers,
// possibly empty). The property ties the order of a sorted buffer to
// Schema.Comparator for the same columns: adjacent output rows must not be
// out of order for it, and the output must be a permutation of the input.
type RepCase struct {
	Rows  [][]int `json:"rows"` // per row the elements of the key list
	Desc  bool    `json:"desc"`
	NF    bool    `json:"nullsfirst"`
	Kind  string  `json:"kind"` // Buffer | RowBuffer
	Batch int     `json:"batch"`
}

func genRepCase(t *rapid.T) RepCase {
	var c RepCase
	n := rapid.IntRange(2, 60).Draw(t, "nrows")
	for i := 0; i < n; i++ {
		k := rapid.IntRange(0, 4).Draw(t, "len")
		row := []int{}
		for j := 0; j < k; j++ {
			row = append(row, rapid.IntRange(0, 3).Draw(t, "e"))
		}
		c.Rows = append(c.Rows, row)
	}
	c.Desc, c.NF = rapid.Bool().Draw(t, "desc"), rapid.Bool().Draw(t, "nf")
	c.Kind = []string{"Buffer", "RowBuffer"}[rapid.IntRange(0, 1).Draw(t, "kind")]
	c.Batch = []int{1, 7, 100}[rapid.IntRange(0, 2).Draw(t, "batch")]
	return c
}

func runRepCase(c RepCase, o *kit.Obs) *kit.Failure {
	schema := parquet.NewSchema("t", parquet.Group{
		"id":   parquet.Int(64),
		"tags": parquet.Repeated(parquet.Int(64)),
	})
	sc := parquet.Ascending("tags")
	if c.Desc {
		sc = parquet.Descending("tags")
	}
	if c.NF {
		sc = parquet.NullsFirst(sc)
	}
	feat := fmt.Sprintf("{kind=%s,repeated-key}", c.Kind)
	var rows []parquet.Row
	for i, r := range c.Rows {
		row := parquet.Row{parquet.Int64Value(int64(i)).Level(0, 0, 0)}
		if len(r) == 0 {
			row = append(row, parquet.Value{}.Level(0, 0, 1))
		}
		for j, e := range r {
			rep := 0
			if j > 0 {
				rep = 1
			}
			row = append(row, parquet.Int64Value(int64(e)).Level(rep, 1, 1))
		}
		rows = append(rows, row)
	}
	opt := parquet.SortingRowGroupConfig(parquet.SortingColumns(sc))
	var rg parquet.RowGroup
	var sorter sort.Interface
	var write func([]parquet.Row) (int, error)
	if c.Kind == "Buffer" {
		b := parquet.NewBuffer(schema, opt)
		rg, sorter, write = b, b, b.WriteRows
	} else {
		b := parquet.NewRowBuffer[any](schema, opt)
		rg, sorter, write = b, b, b.WriteRows
	}
	for i := 0; i < len(rows); i += c.Batch {
		if _, err := write(rows[i:min(i+c.Batch, len(rows))]); err != nil {
			o.Rejected()
			return nil
		}
	}
	sort.Sort(sorter)
	r := rg.Rows()
	defer r.Close()
	got := make([]parquet.Row, len(rows)+1)
	n, _ := r.ReadRows(got)
	got = got[:n]
	if n != len(rows) {
		return kit.Failf("c10/not-a-permutation"+feat, "%d rows out, %d in", n, len(rows))
	}
	cmp := schema.Comparator(sc)
	seen := map[int64]bool{}
	for i, row := range got {
		id := row[0].Int64()
		if id < 0 || id >= int64(len(rows)) || seen[id] {
			return kit.Failf("c10/not-a-permutation"+feat, "row %d has id %d (unknown or duplicated)", i, id)
		}
		seen[id] = true
		if !row.Equal(rows[id]) {
			return kit.Failf("c10/row-not-intact"+feat, "output row %d (id %d) is %v, written %v", i, id, row, rows[id])
		}
		if i > 0 && cmp(got[i-1], row) > 0 {
			return kit.Failf("c10/comparator-disagrees"+feat, "after sort.Sort, Schema.Comparator says row %d (tags %v) > row %d (tags %v) for %v", i-1, c.Rows[got[i-1][0].Int64()], i, c.Rows[id], sc)
		}
	}
	o.Class("kind-" + c.Kind)
	if len(rows) >= 5 {
		o.NonTrivial()
	}
	return nil
}

var repSpec = &kit.Spec[RepCase]{
	Property: "C10",
	Name:     "repeatedkey",
	Rule: "2-60 rows whose sorting column is a repeated int64 (0-4 elements in 0..3) written to a Buffer or RowBuffer in generated batches, sorted with sort.Sort: the output is a permutation with intact rows " +
		"and no adjacent pair is out of order for Schema.Comparator of the same sorting column (ascending/descending, nulls first/last). Non-trivial = at least 5 rows.",
	Assumptions: []string{"the order of lists is the one Schema.Comparator defines (the property ties the two together); no independent model of list ordering is asserted"},
	Gen:         genRepCase,
	Run:         runRepCase,
}

func TestPropRepeatedKey(t *testing.T) { kit.Both(t, repSpec) }
