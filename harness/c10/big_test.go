package c10

import (
	"bytes"
	"fmt"
	"testing"

	"github.com/parquet-go/parquet-go"
	"pgregory.net/rapid"

	"verifharness/kit"
	"verifharness/pq"
	"verifharness/ref"
)

// BigCase: a SortingWriter fed with nearly ordered input in runs of ≥1024 rows
// and two sorting columns, so that the run merge takes its range-refinement
// paths (lone stretches ≥1024 rows, runs that touch on the first key).
type BigCase struct {
	N        int    `json:"n"`
	SortRows int    `json:"sortrows"`
	Block    int    `json:"block"`  // rows per distinct first key
	Jitter   int    `json:"jitter"` // 0: ordered first key; >0: every Jitter-th row jumps back
	Seed     uint64 `json:"seed"`
	PageBuf  int    `json:"pagebuf"`
	Desc2    bool   `json:"desc2"`
	Opt2     bool   `json:"opt2"`
	Dedup    bool   `json:"dedup"`
	MaxRows  int    `json:"maxrows"`
}

func genBig(t *rapid.T) BigCase {
	return BigCase{
		N:        []int{2100, 3000, 4096, 5000, 7000}[rapid.IntRange(0, 4).Draw(t, "n")],
		SortRows: []int{1024, 1025, 1500, 2000, 2048, 3000}[rapid.IntRange(0, 5).Draw(t, "sortrows")],
		Block:    []int{1, 2, 3, 7, 50, 333, 1000}[rapid.IntRange(0, 6).Draw(t, "block")],
		Jitter:   []int{0, 0, 997, 2500}[rapid.IntRange(0, 3).Draw(t, "jitter")],
		Seed:     rapid.Uint64().Draw(t, "seed"),
		PageBuf:  []int{256, 1024, 4096, 0}[rapid.IntRange(0, 3).Draw(t, "pagebuf")],
		Desc2:    rapid.Bool().Draw(t, "desc2"),
		Opt2:     rapid.Bool().Draw(t, "opt2"),
		Dedup:    rapid.IntRange(0, 4).Draw(t, "dedup") == 0,
		MaxRows:  []int{0, 0, 1000, 5000}[rapid.IntRange(0, 3).Draw(t, "maxrows")],
	}
}

func runBig(c BigCase, o *kit.Obs) *kit.Failure {
	rep2 := "req"
	if c.Opt2 {
		rep2 = "opt"
	}
	root := ref.Node{Name: "root", Rep: "req", Kind: "group", Children: []ref.Node{
		{Name: "c0", Rep: "req", Kind: "leaf", Leaf: "int64"},
		{Name: "c1", Rep: "req", Kind: "leaf", Leaf: "int64"},
		{Name: "c2", Rep: rep2, Kind: "leaf", Leaf: "int32"},
	}}
	cols := ref.Columns(&root)
	x := c.Seed | 1
	next := func() uint64 {
		x ^= x >> 12
		x ^= x << 25
		x ^= x >> 27
		return x * 2685821657736338717
	}
	rows := make([]ref.V, c.N)
	for i := range rows {
		k1 := int64(i / c.Block)
		if c.Jitter > 0 && i%c.Jitter == c.Jitter-1 {
			k1 = int64((i / c.Block) / 2)
		}
		r := next()
		k2 := ref.V{I: int64(r % 200)}
		if c.Opt2 && r>>20%9 == 0 {
			k2 = ref.V{Null: true}
		}
		rows[i] = ref.V{F: []ref.V{{I: int64(i)}, {I: k1}, k2}}
	}
	cc := Case{Kind: "SortingWriter", Schema: root, Sorting: []SortCol{{Col: 1}, {Col: 2, Desc: c.Desc2}}}
	model, err := ref.SplitRows(ref.ShredRows(&root, rows))
	if err != nil {
		return kit.Failf("harness/split", "%v", err)
	}
	schema := pq.BuildSchema(&root)
	sc := cc.sortingColumns(cols)
	opts := []parquet.WriterOption{schema, parquet.SortingWriterConfig(parquet.SortingColumns(sc...), parquet.DropDuplicatedRows(c.Dedup))}
	if c.PageBuf > 0 {
		opts = append(opts, parquet.PageBufferSize(c.PageBuf))
	}
	if c.MaxRows > 0 {
		opts = append(opts, parquet.MaxRowsPerRowGroup(int64(c.MaxRows)))
	}
	var out bytes.Buffer
	w := parquet.NewSortingWriter[any](&out, int64(c.SortRows), opts...)
	prows := pq.Rows(&root, cols, rows)
	for i := 0; i < len(prows); i += 777 {
		j := i + 777
		if j > len(prows) {
			j = len(prows)
		}
		if _, err := w.WriteRows(prows[i:j]); err != nil {
			o.Rejected()
			return nil
		}
	}
	if err := w.Close(); err != nil {
		o.Rejected()
		return nil
	}
	f, err := pq.Open(out.Bytes())
	if err != nil {
		return kit.Failf("c10/big/open-error", "%v", err)
	}
	var prev [][]ref.LV
	seen := make([]bool, c.N)
	count := 0
	keys := map[string]bool{}
	for _, rg := range f.RowGroups() {
		r := rg.Rows()
		got, err := pq.ReadAllRows(r, 500)
		r.Close()
		if err != nil {
			return kit.Failf("c10/big/read-error", "%v", err)
		}
		for _, row := range got {
			s, err := pq.Streams(cols, []parquet.Row{row})
			if err != nil {
				return kit.Failf("c10/big/malformed-row", "%v", err)
			}
			id := s[0][0].I
			if id < 0 || id >= int64(c.N) || seen[id] {
				return kit.Failf("c10/big/not-a-permutation", "output row %d has id %d (unknown or duplicated)", count, id)
			}
			seen[id] = true
			if d := pq.DiffStreams(cols, model[id], s); d != "" {
				return kit.Failf("c10/big/row-not-intact", "output row %d (id %d): %s", count, id, d)
			}
			if prev != nil && cc.cmpRows(cols, prev, s) > 0 {
				return kit.Failf("c10/big/not-sorted", "rows %d and %d (ids %d, %d; keys %v,%v then %v,%v) are out of order", count-1, count, prev[0][0].I, id, prev[1][0], prev[2][0], s[1][0], s[2][0])
			}
			prev = s
			if c.Dedup {
				k := fmt.Sprint(s[1][0].I, s[2][0].Null, s[2][0].I)
				if keys[k] {
					return kit.Failf("c10/big/duplicate-key-kept", "key of row %d appears twice with DropDuplicatedRows", count)
				}
				keys[k] = true
			}
			count++
		}
	}
	if !c.Dedup && count != c.N {
		return kit.Failf("c10/big/not-a-permutation", "%d rows out, %d rows in", count, c.N)
	}
	if c.Dedup {
		distinct := map[string]bool{}
		for i := range model {
			distinct[fmt.Sprint(model[i][1][0].I, model[i][2][0].Null, model[i][2][0].I)] = true
		}
		if count != len(distinct) {
			return kit.Failf("c10/big/dedup-count", "%d rows out, %d distinct keys in", count, len(distinct))
		}
	}
	o.ClassIf(c.Dedup, "dedup")
	o.ClassIf(c.Jitter > 0, "jitter")
	if c.N > c.SortRows {
		o.NonTrivial()
	}
	return nil
}

var bigSpec = &kit.Spec[BigCase]{
	Property: "C10",
	Name:     "bigsort",
	Scale:    0.08,
	Rule: "SortingWriter[any] over 2100-7000 rows with sort runs of 1024-3000 rows, two sorting columns (first key = row index / block with block in {1,2,3,7,50,333,1000}, optionally jumping back every 997/2500 rows; second key pseudo-random in [0,200), asc/desc, optionally nullable), " +
		"page buffers of 256 B..default, optional MaxRowsPerRowGroup and DropDuplicatedRows; rows expanded deterministically from a drawn seed. Same oracle as the small check (ordered permutation, rows intact, dedup). Non-trivial = more rows than one sort run.",
	Assumptions: []string{"value expansion uses a fixed xorshift generator seeded from the drawn case"},
	Gen:         genBig,
	Run:         runBig,
}

func TestPropBig(t *testing.T) { kit.Both(t, bigSpec) }
