package c10

import (
	"crypto/sha256"
	"encoding/hex"
	"fmt"
	"runtime/debug"
	"sort"
	"testing"
	"time"

	"github.com/parquet-go/parquet-go"
	"pgregory.net/rapid"

	"verifharness/gen"
	"verifharness/kit"
	"verifharness/pq"
	"verifharness/ref"
	"verifharness/typed"
)

// TypedCase: rows of a catalogue struct type written into a GenericBuffer[T]
// through the typed Write (batches of generated sizes), sorted, and read back.
type TypedCase struct {
	Type    string      `json:"type"`
	Plan    gen.RowPlan `json:"plan"`
	Batches []int       `json:"batches"`
	Key     int         `json:"key"` // index among the sortable top-level leaf columns
	Desc    bool        `json:"desc"`
	NF      bool        `json:"nullsfirst"`
}

var typedSortable = []string{"Scalars", "OptScalars", "OptPair", "Pointers", "Logical", "Encoded", "Times"}

func genTyped(t *rapid.T) TypedCase {
	var c TypedCase
	c.Type = typedSortable[rapid.IntRange(0, len(typedSortable)-1).Draw(t, "type")]
	e := typed.ByName(c.Type)
	c.Plan = gen.RowsAtLeast(t, &e.Node, 8, []int{0, 9, 11, 40}[rapid.IntRange(0, 3).Draw(t, "min")], 300, gen.ValueOpts{Style: gen.SmallDom, Leaf: gen.Opts{NoNaN: true, MaxBytes: 12}})
	c.Plan.Uniq = rapid.Bool().Draw(t, "uniq")
	nb := rapid.IntRange(0, 4).Draw(t, "nb")
	for i := 0; i < nb; i++ {
		c.Batches = append(c.Batches, []int{1, 7, 8, 9, 11, 17, 64, 65}[rapid.IntRange(0, 7).Draw(t, "bn")])
	}
	c.Key = rapid.IntRange(0, 30).Draw(t, "key")
	c.Desc, c.NF = rapid.Bool().Draw(t, "desc"), rapid.Bool().Draw(t, "nf")
	return c
}

func runTyped(c TypedCase, o *kit.Obs) *kit.Failure {
	e := typed.ByName(c.Type)
	cols := ref.Columns(&e.Node)
	var keys []int
	for i, col := range cols {
		if len(col.Path) == 1 && col.MaxRep == 0 && col.Leaf.Order != ref.OrderNone {
			keys = append(keys, i)
		}
	}
	if len(keys) == 0 {
		o.Rejected()
		return nil
	}
	ki := keys[c.Key%len(keys)]
	var sc parquet.SortingColumn = parquet.Ascending(cols[ki].Path...)
	if c.Desc {
		sc = parquet.Descending(cols[ki].Path...)
	}
	if c.NF {
		sc = parquet.NullsFirst(sc)
	}
	rows := e.New(c.Plan.ExpandWith(&e.Node))
	want := e.Trees(rows)
	feat := fmt.Sprintf("{type=%s}", c.Type)
	type result struct {
		rows []parquet.Row
		err  error
	}
	done := make(chan result, 1)
	go func() {
		defer func() {
			if p := recover(); p != nil {
				done <- result{nil, fmt.Errorf("panic: %v\n%s", p, debug.Stack())}
			}
		}()
		r, err := e.SortBuffer(rows, c.Batches, []parquet.SortingColumn{sc})
		done <- result{r, err}
	}()
	var res result
	select {
	case res = <-done:
	case <-time.After(60 * time.Second):
		return kit.Failf("c10/typed/hang"+feat, "writing %d rows (batches %v), sort.Sort and reading the buffer did not finish within 60 s", len(want), c.Batches)
	}
	if res.err != nil {
		if _, ok := res.err.(*typed.WriteError); ok {
			o.Rejected()
			return nil
		}
		return kit.Failf("c10/typed/read-error"+feat, "%v", res.err)
	}
	got, err := pq.RowsToTrees(&e.Node, cols, res.rows)
	if err != nil {
		return kit.Failf("c10/typed/malformed-row"+feat, "%v", err)
	}
	if len(got) != len(want) {
		return kit.Failf("c10/typed/not-a-permutation"+feat, "%d rows out, %d in", len(got), len(want))
	}
	// permutation: multiset equality of the rendered rows
	count := map[string]int{}
	render := func(v ref.V) string { return fmt.Sprint(ref.ShredRows(&e.Node, []ref.V{v})) }
	for _, w := range want {
		count[render(w)]++
	}
	for i, g := range got {
		k := render(g)
		if count[k] == 0 {
			return kit.Failf("c10/typed/not-a-permutation"+feat, "output row %d is not one of the input rows (or appears too often): %v", i, g)
		}
		count[k]--
	}
	// order on the key column
	streams := ref.ShredRows(&e.Node, got)
	dg := sha256.Sum256([]byte(fmt.Sprint(streams)))
	o.Digest(hex.EncodeToString(dg[:8])) // compared between the assembly and the portable build
	keyOf := streams[ki]
	less := func(a, b ref.LV) bool { // strict "a must come before b"
		if a.Null || b.Null {
			if a.Null && b.Null {
				return false
			}
			return a.Null == c.NF
		}
		r, _ := ref.Compare(cols[ki].Leaf, a.I, a.B, b.I, b.B)
		if c.Desc {
			r = -r
		}
		return r < 0
	}
	if !sort.SliceIsSorted(keyOf, func(i, j int) bool { return less(keyOf[i], keyOf[j]) }) {
		for i := 1; i < len(keyOf); i++ {
			if less(keyOf[i], keyOf[i-1]) {
				return kit.Failf("c10/typed/not-sorted"+feat, "rows %d and %d are out of order on %v: %v before %v", i-1, i, cols[ki].Path, keyOf[i-1], keyOf[i])
			}
		}
	}
	o.Class("type-" + c.Type)
	o.ClassIf(cols[ki].MaxDef > 0, "nullable-key")
	if len(want) >= 9 {
		o.NonTrivial()
	}
	return nil
}

var typedSpec = &kit.Spec[TypedCase]{
	Property: "C10",
	Name:     "typedsort",
	Rule: "rows of a catalogue struct type (scalars, optional scalars, pointers, logical types, times) are written into a GenericBuffer[T] through the typed Write in batches of 1/7/8/9/11/17/64/65 rows (vectorised column-buffer writes and their scalar tails), the buffer is sorted on a generated top-level column " +
		"(asc/desc, nulls first/last) and read back. Oracle: the rows read are a permutation of the rows written (multiset of shredded rows) and ordered on the key under the reference comparator; sort and read must terminate (60 s guard inside the case). Non-trivial = ≥9 rows.",
	Assumptions: []string{"NaN keys are not generated"},
	Scale:       0.6,
	Gen:         genTyped,
	Run:         runTyped,
}

func TestPropTyped(t *testing.T) { kit.Both(t, typedSpec) }
