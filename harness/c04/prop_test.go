package c04

import (
	"bytes"
	"crypto/sha256"
	"encoding/binary"
	"encoding/hex"
	"fmt"
	"math"
	"testing"

	"github.com/parquet-go/parquet-go"
	"github.com/parquet-go/parquet-go/deprecated"
	"github.com/parquet-go/parquet-go/encoding"
	"github.com/parquet-go/parquet-go/encoding/rle"
	"pgregory.net/rapid"

	"verifharness/gen"
	"verifharness/kit"
	"verifharness/ref"
)

func TestMain(m *testing.M) { kit.Main(m) }

// Case: one (encoding, value type) pair, a value sequence in compact form and
// a history describing the dst buffers passed to the calls.
type Case struct {
	Enc   string   `json:"enc"`  // plain rle dict delta dlba dba bss levels
	Kind  string   `json:"kind"` // bool int32 int64 int96 float double bytes flba levels
	Size  int      `json:"size,omitempty"`
	Width int      `json:"width,omitempty"` // bit width for rle int32 / levels; dictionary index range
	Pool  []ref.V  `json:"pool"`
	Runs  [][2]int `json:"runs"`
	Uniq  int      `json:"uniq,omitempty"` // >0: add i*Uniq to integer values / suffix to bytes
	Dst   []int    `json:"dst"`            // per call: 0 nil, 1 dirty larger, 2 dirty smaller, 3 previous result
}

// rebase returns the offsets relative to the first one.
func rebase(offsets []uint32) []uint32 {
	out := make([]uint32, len(offsets))
	for i, o := range offsets {
		out[i] = o - offsets[0]
	}
	return out
}

type pair struct{ enc, kind string }

var pairs = []pair{
	{"plain", "bool"}, {"plain", "int32"}, {"plain", "int64"}, {"plain", "int96"}, {"plain", "float"}, {"plain", "double"}, {"plain", "bytes"}, {"plain", "flba"},
	{"rle", "bool"}, {"rle", "int32"}, {"rle", "levels"}, {"dict", "int32"},
	{"delta", "int32"}, {"delta", "int64"}, {"dlba", "bytes"}, {"dba", "bytes"}, {"dba", "flba"},
	{"bss", "int32"}, {"bss", "int64"}, {"bss", "float"}, {"bss", "double"}, {"bss", "flba"},
}

var runLens = []int{1, 1, 2, 3, 7, 8, 9, 15, 16, 17, 31, 32, 33, 63, 64, 65, 127, 128, 129, 255, 256, 257, 511, 512, 513, 1023, 1024, 1025}

func genCase(t *rapid.T) Case {
	var c Case
	p := pairs[rapid.IntRange(0, len(pairs)-1).Draw(t, "pair")]
	c.Enc, c.Kind = p.enc, p.kind
	leafID := map[string]string{"bool": "bool", "int32": "int32", "int64": "int64", "int96": "int96", "float": "float", "double": "double", "bytes": "bytes", "levels": "int32"}[c.Kind]
	if c.Kind == "flba" {
		c.Size = []int{1, 2, 3, 4, 7, 8, 12, 16, 17, 32}[rapid.IntRange(0, 9).Draw(t, "size")]
		leafID = fmt.Sprintf("flba:%d", c.Size)
	}
	l := ref.ParseLeaf(leafID)
	widthed := c.Kind == "levels" || (c.Enc == "rle" && c.Kind == "int32") || c.Enc == "dict"
	if widthed {
		max := 32
		if c.Kind == "levels" {
			max = 8
		}
		c.Width = rapid.IntRange(0, max).Draw(t, "width")
		if c.Enc == "dict" && c.Width == 0 {
			c.Width = 1
		}
	}
	st := []gen.Style{gen.Mixed, gen.SmallDom, gen.Wide}[rapid.IntRange(0, 2).Draw(t, "style")]
	np := rapid.IntRange(1, 6).Draw(t, "npool")
	for i := 0; i < np; i++ {
		v := gen.LeafV(t, l, st, gen.Opts{MaxBytes: kit.Pick(100, 5000)}, "v")
		if widthed {
			// values must fit the bit width
			if c.Width >= 32 {
				v.I = int64(int32(v.I))
			} else if c.Width == 0 {
				v.I = 0
			} else {
				k := rapid.IntRange(0, 3).Draw(t, "wfit")
				lim := int64(1)<<uint(c.Width) - 1
				switch k {
				case 0:
					v.I = lim
				case 1:
					v.I = 0
				default:
					v.I = int64(uint64(v.I) & uint64(lim))
				}
			}
		}
		c.Pool = append(c.Pool, v)
	}
	nr := rapid.IntRange(0, 10).Draw(t, "nruns")
	total := 0
	for i := 0; i < nr && total < kit.Pick(3000, 20000); i++ {
		n := runLens[rapid.IntRange(0, len(runLens)-1).Draw(t, "rl")]
		c.Runs = append(c.Runs, [2]int{rapid.IntRange(0, np-1).Draw(t, "ri"), n})
		total += n
	}
	if !widthed && rapid.IntRange(0, 2).Draw(t, "uniq") == 0 {
		c.Uniq = []int{1, -1, 1 << 20, 7919}[rapid.IntRange(0, 3).Draw(t, "uniqstep")]
	}
	ncalls := rapid.IntRange(1, 4).Draw(t, "ncalls")
	for i := 0; i < ncalls; i++ {
		c.Dst = append(c.Dst, rapid.IntRange(0, 3).Draw(t, "dst"))
	}
	return c
}

func (c Case) leaf() ref.Leaf {
	switch c.Kind {
	case "flba":
		return ref.ParseLeaf(fmt.Sprintf("flba:%d", c.Size))
	case "levels":
		return ref.ParseLeaf("int32")
	case "bytes":
		return ref.ParseLeaf("bytes")
	}
	return ref.ParseLeaf(c.Kind)
}

func (c Case) values() []ref.V {
	var out []ref.V
	i := 0
	for _, r := range c.Runs {
		for k := 0; k < r[1]; k++ {
			v := c.Pool[r[0]]
			if c.Uniq != 0 {
				switch c.Kind {
				case "int32":
					v.I = int64(int32(v.I + int64(i*c.Uniq)))
				case "int64":
					v.I += int64(i * c.Uniq)
				case "bytes":
					v.B = append(append([]byte{}, v.B...), []byte(fmt.Sprintf("/%d", i*c.Uniq))...)
				case "flba", "int96":
					b := append([]byte{}, v.B...)
					if len(b) > 0 {
						b[len(b)-1] ^= byte(i)
					}
					if len(b) > 1 {
						b[len(b)-2] ^= byte(i >> 8)
					}
					v.B = b
				}
			}
			out = append(out, v)
			i++
		}
	}
	return out
}

func (c Case) encoding() encoding.Encoding {
	switch c.Enc {
	case "plain":
		return &parquet.Plain
	case "rle", "levels":
		return &rle.Encoding{BitWidth: c.Width}
	case "dict":
		return &parquet.RLEDictionary
	case "delta":
		return &parquet.DeltaBinaryPacked
	case "dlba":
		return &parquet.DeltaLengthByteArray
	case "dba":
		return &parquet.DeltaByteArray
	case "bss":
		return &parquet.ByteStreamSplit
	}
	panic("bad encoding")
}

func dirty(n int) []byte {
	b := make([]byte, n)
	for i := range b {
		b[i] = 0xA5
	}
	return b
}

// pickDst builds the dst byte slice for a call.
func pickDst(kind, need int, prev []byte) []byte {
	switch kind {
	case 1:
		return dirty(need + 77)[:0]
	case 2:
		if need > 3 {
			return dirty(need / 2)[:need/3]
		}
		return dirty(1)
	case 3:
		return prev
	}
	return nil
}

// tight returns, on every other call, a copy of the encoded bytes whose
// capacity equals its length (a page read into an exactly sized buffer, a
// three-index sub-slice): decoders that over-read into spare capacity take
// another path for such inputs.
func tight(call int, b []byte) []byte {
	if call%2 == 0 {
		return b
	}
	t := make([]byte, len(b))
	copy(t, b)
	return t[:len(b):len(b)]
}

func runCase(c Case, o *kit.Obs) *kit.Failure {
	l := c.leaf()
	vals := c.values()
	n := len(vals)
	e := c.encoding()
	feat := fmt.Sprintf("{enc=%s,kind=%s}", c.Enc, c.Kind)
	if c.Kind == "flba" {
		feat = fmt.Sprintf("{enc=%s,kind=flba}", c.Enc)
	}
	var encRef, decRef []byte // first call's results (reference for dst independence)
	var prevEnc, prevDec []byte
	h := sha256.New()
	for call, dk := range c.Dst {
		var encoded, decoded, plainIn []byte
		var err error
		switch c.Kind {
		case "bool":
			src := make([]byte, (n+7)/8)
			for i, v := range vals {
				if v.I != 0 {
					src[i/8] |= 1 << uint(i%8)
				}
			}
			plainIn = src
			encoded, err = e.EncodeBoolean(pickDst(dk, len(src)+8, prevEnc), src)
			if err == nil {
				decoded, err = e.DecodeBoolean(pickDst(dk, len(src), prevDec), tight(call, encoded))
				// decoded is bit-packed; compare only the first n bits
				if err == nil {
					for i := 0; i < n; i++ {
						if len(decoded)*8 <= i || (decoded[i/8]>>uint(i%8))&1 != (src[i/8]>>uint(i%8))&1 {
							return kit.Failf("c04/roundtrip"+feat, "call %d: boolean %d of %d differs after Decode(Encode(x))", call, i, n)
						}
					}
					decoded = decoded[:(n+7)/8]
					if n%8 != 0 && len(decoded) > 0 {
						decoded[len(decoded)-1] &= byte(1<<uint(n%8)) - 1
					}
				}
			}
		case "int32":
			src := make([]int32, n)
			for i, v := range vals {
				src[i] = int32(v.I)
			}
			plainIn = i32bytes(src)
			encoded, err = e.EncodeInt32(pickDst(dk, 4*n+16, prevEnc), src)
			if err == nil {
				var out []int32
				out, err = e.DecodeInt32(bytesToI32(pickDst(dk, 4*n, prevDec)), tight(call, encoded))
				decoded = i32bytes(out)
			}
		case "int64":
			src := make([]int64, n)
			for i, v := range vals {
				src[i] = v.I
			}
			plainIn = i64bytes(src)
			encoded, err = e.EncodeInt64(pickDst(dk, 8*n+16, prevEnc), src)
			if err == nil {
				var out []int64
				out, err = e.DecodeInt64(bytesToI64(pickDst(dk, 8*n, prevDec)), tight(call, encoded))
				decoded = i64bytes(out)
			}
		case "int96":
			src := make([]deprecated.Int96, n)
			for i, v := range vals {
				b := make([]byte, 12)
				copy(b, v.B)
				src[i] = deprecated.Int96{binary.LittleEndian.Uint32(b), binary.LittleEndian.Uint32(b[4:]), binary.LittleEndian.Uint32(b[8:])}
				plainIn = append(plainIn, b...)
			}
			encoded, err = e.EncodeInt96(pickDst(dk, 12*n+16, prevEnc), src)
			if err == nil {
				var out []deprecated.Int96
				out, err = e.DecodeInt96(nil, tight(call, encoded))
				for _, x := range out {
					for k := 0; k < 3; k++ {
						decoded = binary.LittleEndian.AppendUint32(decoded, x[k])
					}
				}
			}
		case "float":
			src := make([]float32, n)
			for i, v := range vals {
				src[i] = math.Float32frombits(uint32(v.I))
			}
			plainIn = i32bytes(f32toI32(src))
			encoded, err = e.EncodeFloat(pickDst(dk, 4*n+16, prevEnc), src)
			if err == nil {
				var out []float32
				out, err = e.DecodeFloat(bytesToF32(pickDst(dk, 4*n, prevDec)), tight(call, encoded))
				decoded = i32bytes(f32toI32(out))
			}
		case "double":
			src := make([]float64, n)
			for i, v := range vals {
				src[i] = math.Float64frombits(uint64(v.I))
			}
			plainIn = i64bytes(f64toI64(src))
			encoded, err = e.EncodeDouble(pickDst(dk, 8*n+16, prevEnc), src)
			if err == nil {
				var out []float64
				out, err = e.DecodeDouble(bytesToF64(pickDst(dk, 8*n, prevDec)), tight(call, encoded))
				decoded = i64bytes(f64toI64(out))
			}
		case "bytes":
			// the values may sit anywhere in the buffer (a sliced page hands over the whole
			// buffer of its parent with the offsets of its own values): on some calls the
			// first value does not start at 0 and other bytes follow the last one
			var data []byte
			base := 0
			if call%3 == 1 && n > 0 {
				base = 1 + (c.Size+len(vals))%11
				data = append(data, bytes.Repeat([]byte{0xEE}, base)...)
			}
			offsets := []uint32{uint32(base)}
			for _, v := range vals {
				data = append(data, v.B...)
				offsets = append(offsets, uint32(len(data)))
			}
			plainIn = append(append([]byte{}, data[base:]...), u32bytes(rebase(offsets))...)
			if base > 0 {
				data = append(data, 0xDD, 0xDD, 0xDD)
			}
			if n == 0 && call%2 == 1 {
				offsets = nil // no values at all: what Type.NewValues(nil, nil) hands to the encoder
			}
			encoded, err = e.EncodeByteArray(pickDst(dk, len(data)+4*n+16, prevEnc), data, offsets)
			if len(offsets) > 0 {
				data = data[base:offsets[len(offsets)-1]]
			}
			if err == nil {
				var out []byte
				var offs []uint32
				var dirtyOffs []uint32
				if dk == 1 {
					dirtyOffs = make([]uint32, n+9)
					for i := range dirtyOffs {
						dirtyOffs[i] = 0xA5A5A5A5
					}
					dirtyOffs = dirtyOffs[:0]
				}
				out, offs, err = e.DecodeByteArray(pickDst(dk, len(data), prevDec), tight(call, encoded), dirtyOffs)
				if err == nil {
					if len(offs) == 0 && n == 0 {
						offs = []uint32{0}
					}
					if len(offs) != n+1 {
						return kit.Failf("c04/roundtrip"+feat, "call %d: %d offsets for %d values", call, len(offs), n)
					}
					// canonicalise: values may be laid out at any offsets
					var canon []byte
					coffs := []uint32{0}
					for i := 0; i < n; i++ {
						if offs[i] > offs[i+1] || int(offs[i+1]) > len(out) {
							return kit.Failf("c04/roundtrip"+feat, "call %d: offsets %d..%d invalid for %d bytes", call, offs[i], offs[i+1], len(out))
						}
						canon = append(canon, out[offs[i]:offs[i+1]]...)
						coffs = append(coffs, uint32(len(canon)))
					}
					decoded = append(canon, u32bytes(coffs)...)
				}
			}
		case "flba":
			var data []byte
			for _, v := range vals {
				data = append(data, v.B...)
			}
			plainIn = data
			encoded, err = e.EncodeFixedLenByteArray(pickDst(dk, len(data)+16, prevEnc), data, c.Size)
			if err == nil {
				decoded, err = e.DecodeFixedLenByteArray(pickDst(dk, len(data), prevDec), tight(call, encoded), c.Size)
			}
		case "levels":
			src := make([]uint8, n)
			for i, v := range vals {
				src[i] = uint8(v.I)
			}
			plainIn = src
			encoded, err = e.EncodeLevels(pickDst(dk, n+16, prevEnc), src)
			if err == nil {
				decoded, err = e.DecodeLevels(pickDst(dk, n, prevDec), tight(call, encoded))
			}
		}
		if err != nil {
			return kit.Failf("c04/error"+feat, "call %d: encode/decode of %d valid values failed: %v", call, n, err)
		}
		if !bytes.Equal(decoded, plainIn) && !(len(decoded) == 0 && len(plainIn) == 0) {
			return kit.Failf("c04/roundtrip"+feat, "call %d (dst kind %d): Decode(Encode(x)) != x for %d values (first difference at byte %d)", call, dk, n, firstDiff(decoded, plainIn))
		}
		if call == 0 {
			encRef, decRef = append([]byte{}, encoded...), append([]byte{}, decoded...)
			h.Write(encoded)
			h.Write(decoded)
			// spec conformance through the independent decoder
			if fl := specCheck(c, l, vals, encoded, feat); fl != nil {
				return fl
			}
		} else {
			if !bytes.Equal(encoded, encRef) {
				return kit.Failf("c04/dst-dependence"+feat, "call %d with dst kind %d produced different bytes than with a nil dst (first difference at byte %d of %d)", call, dk, firstDiff(encoded, encRef), len(encRef))
			}
			if !bytes.Equal(decoded, decRef) {
				return kit.Failf("c04/dst-dependence"+feat, "call %d with dst kind %d decoded differently than with a nil dst", call, dk)
			}
		}
		prevEnc, prevDec = encoded, decoded
	}
	o.Digest(hex.EncodeToString(h.Sum(nil)[:8]))
	o.Class("pair-" + c.Enc + "/" + c.Kind)
	allEq := true
	for _, v := range vals[min(1, n):] {
		if v.I != vals[0].I || !bytes.Equal(v.B, vals[0].B) {
			allEq = false
		}
	}
	dirtyHist := false
	for _, d := range c.Dst[min(1, len(c.Dst)):] {
		if d != 0 {
			dirtyHist = true
		}
	}
	if (n >= 2 && !allEq) || dirtyHist {
		o.NonTrivial()
	}
	return nil
}

func specCheck(c Case, l ref.Leaf, vals []ref.V, encoded []byte, feat string) *kit.Failure {
	n := len(vals)
	var got []ref.LV
	var err error
	switch {
	case c.Kind == "levels" || (c.Enc == "rle" && c.Kind == "int32"):
		var v []int64
		v, _, err = ref.DecodeHybrid(encoded, uint(c.Width), n)
		for _, x := range v {
			got = append(got, ref.LV{I: x})
		}
	case c.Enc == "dict":
		if n == 0 {
			return nil
		}
		if len(encoded) < 1 {
			return kit.Failf("c04/spec"+feat, "dictionary index stream without bit width byte")
		}
		var v []int64
		v, _, err = ref.DecodeHybrid(encoded[1:], uint(encoded[0]), n)
		for _, x := range v {
			got = append(got, ref.LV{I: x})
		}
	default:
		encID := map[string]int{"plain": ref.EncPlain, "rle": ref.EncRLE, "delta": ref.EncDeltaBinary, "dlba": ref.EncDeltaLength, "dba": ref.EncDeltaBytes, "bss": ref.EncBSS}[c.Enc]
		got, err = ref.DecodeValues(l, encID, encoded, n, nil)
	}
	if err != nil {
		return kit.Failf("c04/spec"+feat, "the independent decoder rejects the encoded bytes of %d values: %v", n, err)
	}
	if len(got) != n {
		return kit.Failf("c04/spec"+feat, "the independent decoder finds %d values, %d were encoded", len(got), n)
	}
	for i, v := range vals {
		ok := false
		switch l.Phys {
		case ref.Boolean:
			ok = got[i].I == v.I
		case ref.Int32, ref.Float:
			ok = uint32(got[i].I) == uint32(v.I)
			if c.Width > 0 && c.Width < 32 || c.Enc == "dict" {
				ok = got[i].I == int64(uint32(v.I))
			}
		case ref.Int64, ref.Double:
			ok = got[i].I == v.I
		default:
			ok = bytes.Equal(got[i].B, v.B)
		}
		if !ok {
			return kit.Failf("c04/spec"+feat, "value %d of %d: the independent decoder reads %v, encoded %v (I=%d)", i, n, got[i], v.B, v.I)
		}
	}
	return nil
}

func firstDiff(a, b []byte) int {
	n := len(a)
	if len(b) < n {
		n = len(b)
	}
	for i := 0; i < n; i++ {
		if a[i] != b[i] {
			return i
		}
	}
	return n
}

var spec = &kit.Spec[Case]{
	Property: "C04",
	Name:     "encodings",
	Rule: "22 (encoding, type) pairs — PLAIN x 8 types, RLE hybrid for booleans / int32 at every bit width 0-32 / levels at widths 0-8, RLE_DICTIONARY index streams, DELTA_BINARY_PACKED int32/int64, DELTA_LENGTH_BYTE_ARRAY, DELTA_BYTE_ARRAY on byte arrays and fixed-length, BYTE_STREAM_SPLIT on 5 types, FLBA sizes {1,2,3,4,7,8,12,16,17,32} — " +
		"with value sequences built from a pool of ≤6 boundary-biased values repeated in runs of lengths 1..1025 around 8/32/64/128/512/1024, optionally made strictly distinct (overflowing deltas), and 1-4 calls whose dst buffers are nil / dirty-larger / dirty-smaller / the previous result. " +
		"Oracles: Decode(Encode(x)) == x bit-exact; the independent decoder of harness/ref decodes the bytes to x; bytes and decoded values are identical whatever dst held; sha256(bytes‖decoded) equal across asm / purego (/ simd) builds. Non-trivial = ≥2 values not all equal, or a dirty dst after the first call.",
	Assumptions: []string{"decoders are fed valid encoder output only (the property is about losslessness, not validation of foreign bytes)"},
	Gen:         genCase,
	Run:         runCase,
}

func TestProp(t *testing.T) { kit.Both(t, spec) }
