package c04

import (
	"encoding/binary"
	"math"
)

func i32bytes(v []int32) []byte {
	b := make([]byte, 0, 4*len(v))
	for _, x := range v {
		b = binary.LittleEndian.AppendUint32(b, uint32(x))
	}
	return b
}
func i64bytes(v []int64) []byte {
	b := make([]byte, 0, 8*len(v))
	for _, x := range v {
		b = binary.LittleEndian.AppendUint64(b, uint64(x))
	}
	return b
}
func u32bytes(v []uint32) []byte {
	b := make([]byte, 0, 4*len(v))
	for _, x := range v {
		b = binary.LittleEndian.AppendUint32(b, x)
	}
	return b
}
func f32toI32(v []float32) []int32 {
	out := make([]int32, len(v))
	for i, x := range v {
		out[i] = int32(math.Float32bits(x))
	}
	return out
}
func f64toI64(v []float64) []int64 {
	out := make([]int64, len(v))
	for i, x := range v {
		out[i] = int64(math.Float64bits(x))
	}
	return out
}

// dirty typed dst slices (length 0, capacity from the byte slice)
func bytesToI32(b []byte) []int32 {
	if b == nil {
		return nil
	}
	out := make([]int32, cap(b)/4+1)
	for i := range out {
		out[i] = -0x5A5A5A5B
	}
	return out[:0]
}
func bytesToI64(b []byte) []int64 {
	if b == nil {
		return nil
	}
	out := make([]int64, cap(b)/8+1)
	for i := range out {
		out[i] = -0x5A5A5A5A5A5A5A5B
	}
	return out[:0]
}
func bytesToF32(b []byte) []float32 {
	if b == nil {
		return nil
	}
	out := make([]float32, cap(b)/4+1)
	for i := range out {
		out[i] = math.Float32frombits(0xA5A5A5A5)
	}
	return out[:0]
}
func bytesToF64(b []byte) []float64 {
	if b == nil {
		return nil
	}
	out := make([]float64, cap(b)/8+1)
	for i := range out {
		out[i] = math.Float64frombits(0xA5A5A5A5A5A5A5A5)
	}
	return out[:0]
}
