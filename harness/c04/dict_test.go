package c04

import (
	"bytes"
	"fmt"
	"math"
	"testing"

	"github.com/parquet-go/parquet-go"
	"pgregory.net/rapid"

	"verifharness/kit"
)

// DictCase: a dictionary of one type, optionally seeded with the content of a
// dictionary page (as when a file is read), then a history of Insert batches,
// Lookup and Reset. The RLE_DICTIONARY encoding is lossless only if every
// index handed out by Insert designates the value that was inserted.
type DictCase struct {
	Kind string   `json:"kind"`
	Seed []int64  `json:"seed,omitempty"` // value numbers of the seeded (distinct) entries
	Ops  []DictOp `json:"ops"`
}

type DictOp struct {
	K    string  `json:"k"` // insert | lookup | reset
	Vals []int64 `json:"vals,omitempty"`
}

var dictKinds = []string{"boolean", "int32", "int64", "uint32", "uint64", "int96", "float", "double", "bytes", "string", "flba:3", "flba:16", "uuid", "flba:20"}

func genDictCase(t *rapid.T) DictCase {
	var c DictCase
	c.Kind = dictKinds[rapid.IntRange(0, len(dictKinds)-1).Draw(t, "kind")]
	dom := int64([]int{2, 5, 40, 700, 5000}[rapid.IntRange(0, 4).Draw(t, "dom")])
	val := func(label string) int64 {
		if rapid.IntRange(0, 5).Draw(t, label+"new") == 0 {
			return rapid.Int64Range(0, 1<<20).Draw(t, label) // most likely new
		}
		return rapid.Int64Range(0, dom-1).Draw(t, label)
	}
	if rapid.Bool().Draw(t, "seeded") {
		n := []int{1, 2, 7, 8, 9, 63, 64, 65, 100, 257, 600, 1030}[rapid.IntRange(0, 11).Draw(t, "nseed")]
		seen := map[int64]bool{}
		for i := 0; i < n; i++ {
			v := int64(i)*3 + int64(rapid.IntRange(0, 2).Draw(t, "sv")) // distinct by construction
			if c.Kind == "boolean" {
				// [false], [true], [false,true] or [true,false]
				v = int64(rapid.IntRange(0, 1).Draw(t, "bv"))
				if i >= 2 {
					break
				}
			}
			if !seen[v] {
				seen[v] = true
				c.Seed = append(c.Seed, v)
			}
		}
	}
	nops := rapid.IntRange(1, 8).Draw(t, "nops")
	for i := 0; i < nops; i++ {
		switch k := rapid.IntRange(0, 9).Draw(t, "op"); {
		case k <= 6:
			n := []int{0, 1, 2, 3, 7, 8, 9, 31, 32, 33, 63, 64, 65, 100, 255, 256, 257, 511, 512, 513, 1000}[rapid.IntRange(0, 20).Draw(t, "batch")]
			op := DictOp{K: "insert"}
			for j := 0; j < n; j++ {
				op.Vals = append(op.Vals, val("v"))
			}
			c.Ops = append(c.Ops, op)
		case k <= 8:
			c.Ops = append(c.Ops, DictOp{K: "lookup"})
		default:
			c.Ops = append(c.Ops, DictOp{K: "reset"})
		}
	}
	return c
}

func dictType(kind string) parquet.Type {
	switch kind {
	case "boolean":
		return parquet.BooleanType
	case "int32":
		return parquet.Int32Type
	case "int64":
		return parquet.Int64Type
	case "uint32":
		return parquet.Uint(32).Type()
	case "uint64":
		return parquet.Uint(64).Type()
	case "int96":
		return parquet.Int96Type
	case "float":
		return parquet.FloatType
	case "double":
		return parquet.DoubleType
	case "bytes":
		return parquet.ByteArrayType
	case "string":
		return parquet.String().Type()
	case "uuid":
		return parquet.UUID().Type()
	}
	var n int
	fmt.Sscanf(kind, "flba:%d", &n)
	return parquet.FixedLenByteArrayType(n)
}

// dictValue maps a value number to a value of the kind (injective, except for booleans).
func dictValue(kind string, v int64) parquet.Value {
	switch kind {
	case "boolean":
		return parquet.BooleanValue(v%2 == 1)
	case "int32", "uint32":
		return parquet.Int32Value(int32(uint32(v)*2654435761) + int32(v))
	case "int64", "uint64":
		return parquet.Int64Value(int64(uint64(v)*0x9E3779B97F4A7C15) + v)
	case "int96":
		return parquet.Int96Value([3]uint32{uint32(v), uint32(v >> 7), uint32(v * 31)})
	case "float":
		if v == 3 {
			return parquet.FloatValue(float32(math.Copysign(0, -1)))
		}
		if v == 4 {
			return parquet.FloatValue(0)
		}
		return parquet.FloatValue(float32(v) * 0.5)
	case "double":
		if v == 3 {
			return parquet.DoubleValue(math.Copysign(0, -1))
		}
		if v == 4 {
			return parquet.DoubleValue(0)
		}
		return parquet.DoubleValue(float64(v) * 0.25)
	case "bytes", "string":
		if v == 0 {
			return parquet.ByteArrayValue([]byte{})
		}
		return parquet.ByteArrayValue([]byte(fmt.Sprintf("v%d%s", v, bytes.Repeat([]byte{'x'}, int(v%17)))))
	}
	n := dictType(kind).Length()
	b := make([]byte, n)
	for i := range b {
		b[i] = byte(v >> (8 * uint(i%8)))
		if i >= 8 {
			b[i] ^= byte(i)
		}
	}
	return parquet.FixedLenByteArrayValue(b)
}

func sameValue(a, b parquet.Value) bool {
	if a.Kind() != b.Kind() {
		return false
	}
	switch a.Kind() {
	case parquet.Float:
		return math.Float32bits(a.Float()) == math.Float32bits(b.Float())
	case parquet.Double:
		return math.Float64bits(a.Double()) == math.Float64bits(b.Double())
	case parquet.ByteArray, parquet.FixedLenByteArray:
		return bytes.Equal(a.ByteArray(), b.ByteArray())
	}
	return parquet.Equal(a, b)
}

func runDictCase(c DictCase, o *kit.Obs) *kit.Failure {
	typ := dictType(c.Kind)
	feat := "{kind=" + c.Kind + "}"
	empty := func() parquet.Dictionary { return typ.NewDictionary(0, 0, typ.NewValues(nil, nil)) }
	dict := empty()
	var model []parquet.Value // distinct values in insertion order (as far as the dictionary must keep them apart)
	if len(c.Seed) > 0 {
		// the content of a dictionary page, as the reader hands it to NewDictionary
		d0 := empty()
		vals := make([]parquet.Value, len(c.Seed))
		for i, v := range c.Seed {
			vals[i] = dictValue(c.Kind, v)
		}
		idx := make([]int32, len(vals))
		d0.Insert(idx, vals)
		page := d0.Page()
		dict = typ.NewDictionary(0, int(page.NumValues()), page.Data())
		for i := 0; i < d0.Len(); i++ {
			model = append(model, d0.Index(int32(i)).Clone())
		}
		if dict.Len() != len(model) {
			return kit.Failf("c04/dict/seed-len"+feat, "a dictionary built from a dictionary page of %d values has Len %d", len(model), dict.Len())
		}
		feat = "{kind=" + c.Kind + ",seeded}"
		o.Class("seeded")
	}
	var allIdx []int32
	var allVals []parquet.Value
	inserts := 0
	for oi, op := range c.Ops {
		switch op.K {
		case "insert":
			vals := make([]parquet.Value, len(op.Vals))
			for i, v := range op.Vals {
				vals[i] = dictValue(c.Kind, v)
			}
			idx := make([]int32, len(vals))
			for i := range idx {
				idx[i] = -7
			}
			dict.Insert(idx, vals)
			n := dict.Len()
			for i, ix := range idx {
				if ix < 0 || int(ix) >= n {
					return kit.Failf("c04/dict/index-out-of-range"+feat, "op %d: value %d of a batch of %d got index %d, the dictionary has %d entries", oi, i, len(vals), ix, n)
				}
				if got := dict.Index(ix); !sameValue(got, vals[i]) {
					return kit.Failf("c04/dict/wrong-index"+feat, "op %d: value %d of a batch of %d (%v) got index %d, which designates %v", oi, i, len(vals), vals[i], ix, got)
				}
			}
			allIdx, allVals = append(allIdx, idx...), append(allVals, vals...)
			inserts++
		case "lookup":
			if len(allIdx) == 0 {
				continue
			}
			out := make([]parquet.Value, len(allIdx))
			dict.Lookup(allIdx, out)
			for i := range out {
				if !sameValue(out[i], allVals[i]) {
					return kit.Failf("c04/dict/lookup-differs"+feat, "op %d: Lookup of the index handed out for %v returns %v", oi, allVals[i], out[i])
				}
			}
			// the dictionary page decodes to the same entries
			page := dict.Page()
			d2 := typ.NewDictionary(0, int(page.NumValues()), page.Data())
			if d2.Len() != dict.Len() {
				return kit.Failf("c04/dict/page-len"+feat, "op %d: the dictionary page holds %d values, the dictionary %d", oi, d2.Len(), dict.Len())
			}
			for i := 0; i < dict.Len(); i++ {
				if !sameValue(d2.Index(int32(i)), dict.Index(int32(i))) {
					return kit.Failf("c04/dict/page-differs"+feat, "op %d: entry %d is %v in the dictionary and %v in its page", oi, i, dict.Index(int32(i)), d2.Index(int32(i)))
				}
			}
		case "reset":
			dict.Reset()
			if dict.Len() != 0 {
				return kit.Failf("c04/dict/reset"+feat, "op %d: Len is %d after Reset", oi, dict.Len())
			}
			allIdx, allVals, model = nil, nil, nil
		}
	}
	// seeded entries keep their positions
	for i, v := range model {
		if i < dict.Len() && len(allIdx) >= 0 && !sameValue(dict.Index(int32(i)), v) {
			return kit.Failf("c04/dict/seed-moved"+feat, "seeded entry %d was %v and is now %v", i, v, dict.Index(int32(i)))
		}
	}
	o.Class("kind-" + c.Kind)
	if inserts >= 2 || (len(c.Seed) > 0 && inserts >= 1) {
		o.NonTrivial()
	}
	return nil
}

var dictSpec = &kit.Spec[DictCase]{
	Property: "C04",
	Name:     "dictionary",
	Rule: "a dictionary of each of 14 types (boolean, signed/unsigned 32/64-bit, INT96, float/double with ±0, byte arrays, fixed 3/16/20 bytes, uuid), empty or seeded from a dictionary page of 1..1030 distinct values (as when a file is read), " +
		"then Insert batches of 0..1000 values (sizes around 8/32/64/256/512, mostly repeated values of a small domain plus new ones), Lookup and Reset: every index handed out must designate (Index, Lookup) exactly the value inserted (floats by bits), " +
		"stay below Len, seeded entries keep their positions, and the dictionary page decodes to the same entries. Non-trivial = two insert batches, or one into a seeded dictionary.",
	Assumptions: []string{"seeded dictionaries hold distinct values (what this library writes); NaN is not used as a dictionary value here (covered through files by C01/C17)"},
	Gen:         genDictCase,
	Run:         runDictCase,
}

func TestPropDictionary(t *testing.T) { kit.Both(t, dictSpec) }
