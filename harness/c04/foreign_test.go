package c04

import (
	"encoding/binary"
	"fmt"
	"testing"

	"github.com/parquet-go/parquet-go/encoding/delta"
	"github.com/parquet-go/parquet-go/encoding/rle"
	"pgregory.net/rapid"

	"verifharness/kit"
)

// ForeignCase: an RLE / bit-packed hybrid stream as ANOTHER writer may produce
// it — runs of any length, in any mixture — built here from the format
// description (Encodings.md, "Run Length Encoding / Bit-Packing Hybrid") and
// handed to the library's decoder. This library's own encoder only emits runs
// that are multiples of 8 values, so round trips never show how the decoder
// treats the others.
type ForeignCase struct {
	Width int      `json:"width"` // 1 = booleans (with the 4-byte length prefix of BOOLEAN data), 2-8 = levels, 9-32 (and Int32 set) = dictionary indexes / integers
	Int32 bool     `json:"int32,omitempty"`
	Runs  [][3]int `json:"runs"`  // (kind 0 RLE | 1 bit-packed, count, value or seed)
}

func genForeignCase(t *rapid.T) ForeignCase {
	var c ForeignCase
	c.Width = []int{1, 1, 2, 3, 4, 7, 8, 9, 12, 16, 17, 20, 24, 31, 32}[rapid.IntRange(0, 14).Draw(t, "width")]
	c.Int32 = c.Width > 8 || (c.Width > 1 && rapid.Bool().Draw(t, "int32"))
	n := rapid.IntRange(1, 6).Draw(t, "nruns")
	for i := 0; i < n; i++ {
		kind := rapid.IntRange(0, 1).Draw(t, "kind")
		count := []int{1, 2, 3, 5, 7, 8, 9, 13, 16, 17, 63, 64, 65, 100}[rapid.IntRange(0, 13).Draw(t, "count")]
		if kind == 1 && i < n-1 {
			count = (count + 7) / 8 * 8 // bit-packed runs hold whole groups of 8 values; only the last one may be padded
		}
		c.Runs = append(c.Runs, [3]int{kind, count, rapid.IntRange(0, 1<<16).Draw(t, "v")})
	}
	return c
}

func uvarint(b []byte, x uint64) []byte {
	var tmp [10]byte
	return append(b, tmp[:binary.PutUvarint(tmp[:], x)]...)
}

func runForeignCase(c ForeignCase, o *kit.Obs) *kit.Failure {
	if c.Width < 1 || c.Width > 32 || len(c.Runs) == 0 {
		return kit.Failf("harness/bad-case", "width %d", c.Width)
	}
	mask := int(uint64(1)<<uint(c.Width) - 1)
	var want []int
	var body []byte
	odd := false
	for _, r := range c.Runs {
		kind, count, v := r[0], r[1], r[2]
		if kind == 0 {
			body = uvarint(body, uint64(count)<<1)
			rv := (v * 2654435761) & mask
			for b := 0; b < (c.Width+7)/8; b++ { // the repeated value on ceil(width/8) bytes, little endian
				body = append(body, byte(rv>>(8*uint(b))))
			}
			for i := 0; i < count; i++ {
				want = append(want, rv)
			}
			odd = odd || count%8 != 0
			continue
		}
		groups := (count + 7) / 8
		body = uvarint(body, uint64(groups)<<1|1)
		var acc uint64
		nbits := 0
		x := uint32(v)*2654435761 + 1
		for i := 0; i < groups*8; i++ {
			x = x*1664525 + 1013904223
			val := 0
			if i < count {
				val = int(x>>3) & mask
				want = append(want, val)
			}
			acc |= uint64(val) << uint(nbits)
			nbits += c.Width
			for nbits >= 8 {
				body = append(body, byte(acc))
				acc >>= 8
				nbits -= 8
			}
		}
	}
	feat := fmt.Sprintf("{width=%d}", c.Width)
	e := &rle.Encoding{BitWidth: c.Width}
	if c.Width == 1 {
		src := binary.LittleEndian.AppendUint32(nil, uint32(len(body)))
		src = append(src, body...)
		got, err := e.DecodeBoolean(nil, src)
		if err != nil {
			return kit.Failf("c04/foreign-rle/decode-error"+feat, "DecodeBoolean of a valid stream (runs %v): %v", c.Runs, err)
		}
		if len(got)*8 < len(want) {
			return kit.Failf("c04/foreign-rle/count"+feat, "DecodeBoolean returned %d bytes for %d values (runs %v)", len(got), len(want), c.Runs)
		}
		for i, w := range want {
			if int(got[i/8]>>(uint(i)%8))&1 != w {
				return kit.Failf("c04/foreign-rle/values-differ"+feat, "DecodeBoolean: value %d of %d is %d, the stream encodes %d (runs %v)", i, len(want), int(got[i/8]>>(uint(i)%8))&1, w, c.Runs)
			}
		}
	} else if c.Int32 {
		got, err := e.DecodeInt32(nil, body)
		if err != nil {
			return kit.Failf("c04/foreign-rle/decode-error"+feat, "DecodeInt32 of a valid stream (runs %v): %v", c.Runs, err)
		}
		if len(got) < len(want) {
			return kit.Failf("c04/foreign-rle/count"+feat, "DecodeInt32 returned %d values, the stream encodes %d (runs %v)", len(got), len(want), c.Runs)
		}
		for i, w := range want {
			if int(uint32(got[i])) != w {
				return kit.Failf("c04/foreign-rle/values-differ"+feat, "DecodeInt32: value %d of %d is %d, the stream encodes %d (runs %v)", i, len(want), uint32(got[i]), w, c.Runs)
			}
		}
	} else {
		got, err := e.DecodeLevels(nil, body)
		if err != nil {
			return kit.Failf("c04/foreign-rle/decode-error"+feat, "DecodeLevels of a valid stream (runs %v): %v", c.Runs, err)
		}
		if len(got) < len(want) {
			return kit.Failf("c04/foreign-rle/count"+feat, "DecodeLevels returned %d levels, the stream encodes %d (runs %v)", len(got), len(want), c.Runs)
		}
		for i, w := range want {
			if int(got[i]) != w {
				return kit.Failf("c04/foreign-rle/values-differ"+feat, "DecodeLevels: level %d of %d is %d, the stream encodes %d (runs %v)", i, len(want), got[i], w, c.Runs)
			}
		}
	}
	o.Class(fmt.Sprintf("width-%d", c.Width))
	o.ClassIf(odd, "rle-run-not-multiple-of-8")
	if odd && len(c.Runs) >= 2 {
		o.NonTrivial()
	}
	return nil
}

var foreignSpec = &kit.Spec[ForeignCase]{
	Property: "C04",
	Name:     "foreignrle",
	Rule: "RLE / bit-packing hybrid streams built from the format description (1-6 runs, RLE runs of 1..100 values — not only multiples of 8 —, bit-packed runs of whole groups, the last one possibly padded; bit widths 1-32 (booleans, levels, integers / dictionary indexes); " +
		"booleans with their 4-byte length prefix, levels without) are decoded by the library: the decoded values must be the ones the stream encodes. Non-trivial = at least two runs, one of them an RLE run whose length is not a multiple of 8.",
	Assumptions: []string{"the property's 'match the format spec for every input' is read as covering the decoders' inputs: any stream the specification allows, not only those this library's encoders emit"},
	Gen:         genForeignCase,
	Run:         runForeignCase,
}

func TestPropForeignRLE(t *testing.T) { kit.Both(t, foreignSpec) }

// ---- DELTA_BINARY_PACKED streams with the parameters other writers choose ----------------

// DeltaCase: integers encoded with DELTA_BINARY_PACKED by an encoder written
// from Encodings.md with free parameters: block size (a multiple of 128),
// number of miniblocks (values per miniblock a multiple of 32), miniblock bit
// widths at or ABOVE the minimum, zero widths for unused trailing miniblocks.
type DeltaCase struct {
	Bits   int     `json:"bits"` // 32 | 64
	Block  int     `json:"block"`
	Minis  int     `json:"minis"`
	Slack  int     `json:"slack"` // extra bits added to some miniblock widths
	Values []int64 `json:"values"`
}

func genDeltaCase(t *rapid.T) DeltaCase {
	var c DeltaCase
	c.Bits = []int{32, 64}[rapid.IntRange(0, 1).Draw(t, "bits")]
	c.Block = []int{128, 256, 512, 1024}[rapid.IntRange(0, 3).Draw(t, "block")]
	var ok []int
	for _, m := range []int{1, 2, 4, 8, 16} {
		if c.Block%m == 0 && (c.Block/m)%32 == 0 {
			ok = append(ok, m)
		}
	}
	c.Minis = ok[rapid.IntRange(0, len(ok)-1).Draw(t, "minis")]
	c.Slack = rapid.IntRange(0, 3).Draw(t, "slack")
	n := []int{0, 1, 2, 31, 32, 33, 127, 128, 129, 130, 257, 600, 1100}[rapid.IntRange(0, 12).Draw(t, "n")]
	style := rapid.IntRange(0, 3).Draw(t, "style")
	x := int64(rapid.IntRange(-1000, 1000).Draw(t, "start"))
	seed := uint64(rapid.IntRange(1, 1<<30).Draw(t, "seed"))
	for i := 0; i < n; i++ {
		seed = seed*6364136223846793005 + 1442695040888963407
		switch style {
		case 0:
			x += int64(seed>>60) - 3
		case 1:
			x += int64(seed>>40) - (1 << 23)
		case 2:
			x = int64(seed) // wrapping deltas
		default:
			x += 5
		}
		if c.Bits == 32 {
			x = int64(int32(x))
		}
		c.Values = append(c.Values, x)
	}
	return c
}

func zigzag(b []byte, x int64) []byte { return uvarint(b, uint64((x<<1)^(x>>63))) }

func encodeDelta(c DeltaCase) []byte {
	var out []byte
	out = uvarint(out, uint64(c.Block))
	out = uvarint(out, uint64(c.Minis))
	out = uvarint(out, uint64(len(c.Values)))
	if len(c.Values) == 0 {
		return zigzag(out, 0)
	}
	out = zigzag(out, c.Values[0])
	per := c.Block / c.Minis
	wrap := func(d int64) int64 {
		if c.Bits == 32 {
			return int64(int32(d))
		}
		return d
	}
	for pos := 1; pos < len(c.Values); pos += c.Block {
		end := min(pos+c.Block, len(c.Values))
		deltas := make([]int64, end-pos)
		minDelta := int64(0)
		for i := pos; i < end; i++ {
			deltas[i-pos] = wrap(c.Values[i] - c.Values[i-1])
			if i == pos || deltas[i-pos] < minDelta {
				minDelta = deltas[i-pos]
			}
		}
		out = zigzag(out, minDelta)
		widths := make([]int, c.Minis)
		for m := 0; m < c.Minis; m++ {
			lo := m * per
			if lo >= len(deltas) {
				break // unused miniblock: width 0, no data
			}
			hi := min(lo+per, len(deltas))
			var maxv uint64
			for _, d := range deltas[lo:hi] {
				v := uint64(d - minDelta)
				if c.Bits == 32 {
					v = uint64(uint32(v))
				}
				if v > maxv {
					maxv = v
				}
			}
			w := 0
			for maxv>>uint(w) != 0 {
				w++
			}
			if (m+c.Slack)%2 == 1 { // a writer may use more bits than necessary
				w = min(w+c.Slack, c.Bits)
			}
			widths[m] = w
		}
		for _, w := range widths {
			out = append(out, byte(w))
		}
		for m := 0; m < c.Minis; m++ {
			lo := m * per
			if lo >= len(deltas) {
				break
			}
			w := widths[m]
			var acc [2]uint64 // 128-bit accumulator, little end first
			nbits := 0
			for k := 0; k < per; k++ {
				var v uint64
				if lo+k < len(deltas) {
					v = uint64(deltas[lo+k] - minDelta)
					if c.Bits == 32 {
						v = uint64(uint32(v))
					}
				}
				if w > 0 {
					acc[0] |= v << uint(nbits)
					if nbits > 0 && nbits+w > 64 {
						acc[1] |= v >> uint(64-nbits)
					}
					nbits += w
					for nbits >= 8 {
						out = append(out, byte(acc[0]))
						acc[0] = acc[0]>>8 | acc[1]<<56
						acc[1] >>= 8
						nbits -= 8
					}
				}
			}
		}
	}
	return out
}

func runDeltaCase(c DeltaCase, o *kit.Obs) *kit.Failure {
	if c.Block == 0 || c.Minis == 0 || (c.Bits != 32 && c.Bits != 64) {
		return kit.Failf("harness/bad-case", "bad parameters")
	}
	src := encodeDelta(c)
	feat := fmt.Sprintf("{bits=%d}", c.Bits)
	// the reference decoder of this harness must agree with the stream first (self-check of the encoder above)
	if c.Bits == 32 {
		got, err := (&delta.BinaryPackedEncoding{}).DecodeInt32(nil, src)
		if err != nil {
			return kit.Failf("c04/foreign-delta/decode-error"+feat, "DecodeInt32 of a valid stream (block %d, %d miniblocks, %d values): %v", c.Block, c.Minis, len(c.Values), err)
		}
		if len(got) != len(c.Values) {
			return kit.Failf("c04/foreign-delta/count"+feat, "DecodeInt32 returned %d values, the stream holds %d (block %d, %d miniblocks)", len(got), len(c.Values), c.Block, c.Minis)
		}
		for i, v := range c.Values {
			if int64(got[i]) != v {
				return kit.Failf("c04/foreign-delta/values-differ"+feat, "DecodeInt32: value %d of %d is %d, the stream encodes %d (block %d, %d miniblocks, slack %d)", i, len(c.Values), got[i], v, c.Block, c.Minis, c.Slack)
			}
		}
	} else {
		got, err := (&delta.BinaryPackedEncoding{}).DecodeInt64(nil, src)
		if err != nil {
			return kit.Failf("c04/foreign-delta/decode-error"+feat, "DecodeInt64 of a valid stream (block %d, %d miniblocks, %d values): %v", c.Block, c.Minis, len(c.Values), err)
		}
		if len(got) != len(c.Values) {
			return kit.Failf("c04/foreign-delta/count"+feat, "DecodeInt64 returned %d values, the stream holds %d (block %d, %d miniblocks)", len(got), len(c.Values), c.Block, c.Minis)
		}
		for i, v := range c.Values {
			if got[i] != v {
				return kit.Failf("c04/foreign-delta/values-differ"+feat, "DecodeInt64: value %d of %d is %d, the stream encodes %d (block %d, %d miniblocks, slack %d)", i, len(c.Values), got[i], v, c.Block, c.Minis, c.Slack)
			}
		}
	}
	o.Class(fmt.Sprintf("block-%d/minis-%d", c.Block, c.Minis))
	if len(c.Values) > c.Block || c.Block != 128 || c.Minis != 4 {
		o.NonTrivial()
	}
	return nil
}

var deltaSpec = &kit.Spec[DeltaCase]{
	Property: "C04",
	Name:     "foreigndelta",
	Rule: "DELTA_BINARY_PACKED streams of 0..1100 int32/int64 values built from Encodings.md with block sizes 128..1024, 1..16 miniblocks (32-value multiples), miniblock widths at or above the minimum, wrapping deltas: " +
		"the library's DecodeInt32 / DecodeInt64 must return the values. Non-trivial = more values than one block, or parameters other than 128 / 4.",
	Assumptions: []string{"as for foreignrle: the decoders' input domain is what the specification allows"},
	Gen:         genDeltaCase,
	Run:         runDeltaCase,
}

func TestPropForeignDelta(t *testing.T) { kit.Both(t, deltaSpec) }
