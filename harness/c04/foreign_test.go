package c04

import (
	"encoding/binary"
	"fmt"
	"testing"

	"github.com/parquet-go/parquet-go/encoding/rle"
	"pgregory.net/rapid"

	"verifharness/kit"
)

// ForeignCase: an RLE / bit-packed hybrid stream as ANOTHER writer may produce
// it — runs of any length, in any mixture — built here from the format
// description (Encodings.md, "Run Length Encoding / Bit-Packing Hybrid") and
// handed to the library's decoder. This library's own encoder only emits runs
// that are multiples of 8 values, so round trips never show how the decoder
// treats the others.
type ForeignCase struct {
	Width int      `json:"width"` // 1 = booleans (with the 4-byte length prefix of BOOLEAN data), 2-3 = levels
	Runs  [][3]int `json:"runs"`  // (kind 0 RLE | 1 bit-packed, count, value or seed)
}

func genForeignCase(t *rapid.T) ForeignCase {
	var c ForeignCase
	c.Width = rapid.IntRange(1, 3).Draw(t, "width")
	n := rapid.IntRange(1, 6).Draw(t, "nruns")
	for i := 0; i < n; i++ {
		kind := rapid.IntRange(0, 1).Draw(t, "kind")
		count := []int{1, 2, 3, 5, 7, 8, 9, 13, 16, 17, 63, 64, 65, 100}[rapid.IntRange(0, 13).Draw(t, "count")]
		if kind == 1 && i < n-1 {
			count = (count + 7) / 8 * 8 // bit-packed runs hold whole groups of 8 values; only the last one may be padded
		}
		c.Runs = append(c.Runs, [3]int{kind, count, rapid.IntRange(0, 1<<16).Draw(t, "v")})
	}
	return c
}

func uvarint(b []byte, x uint64) []byte {
	var tmp [10]byte
	return append(b, tmp[:binary.PutUvarint(tmp[:], x)]...)
}

func runForeignCase(c ForeignCase, o *kit.Obs) *kit.Failure {
	if c.Width < 1 || c.Width > 8 || len(c.Runs) == 0 {
		return kit.Failf("harness/bad-case", "width %d", c.Width)
	}
	mask := 1<<uint(c.Width) - 1
	var want []int
	var body []byte
	odd := false
	for _, r := range c.Runs {
		kind, count, v := r[0], r[1], r[2]
		if kind == 0 {
			body = uvarint(body, uint64(count)<<1)
			body = append(body, byte(v&mask)) // the repeated value on ceil(width/8) = 1 byte
			for i := 0; i < count; i++ {
				want = append(want, v&mask)
			}
			odd = odd || count%8 != 0
			continue
		}
		groups := (count + 7) / 8
		body = uvarint(body, uint64(groups)<<1|1)
		var acc uint64
		nbits := 0
		x := uint32(v)*2654435761 + 1
		for i := 0; i < groups*8; i++ {
			x = x*1664525 + 1013904223
			val := 0
			if i < count {
				val = int(x>>13) & mask
				want = append(want, val)
			}
			acc |= uint64(val) << uint(nbits)
			nbits += c.Width
			for nbits >= 8 {
				body = append(body, byte(acc))
				acc >>= 8
				nbits -= 8
			}
		}
	}
	feat := fmt.Sprintf("{width=%d}", c.Width)
	e := &rle.Encoding{BitWidth: c.Width}
	if c.Width == 1 {
		src := binary.LittleEndian.AppendUint32(nil, uint32(len(body)))
		src = append(src, body...)
		got, err := e.DecodeBoolean(nil, src)
		if err != nil {
			return kit.Failf("c04/foreign-rle/decode-error"+feat, "DecodeBoolean of a valid stream (runs %v): %v", c.Runs, err)
		}
		if len(got)*8 < len(want) {
			return kit.Failf("c04/foreign-rle/count"+feat, "DecodeBoolean returned %d bytes for %d values (runs %v)", len(got), len(want), c.Runs)
		}
		for i, w := range want {
			if int(got[i/8]>>(uint(i)%8))&1 != w {
				return kit.Failf("c04/foreign-rle/values-differ"+feat, "DecodeBoolean: value %d of %d is %d, the stream encodes %d (runs %v)", i, len(want), int(got[i/8]>>(uint(i)%8))&1, w, c.Runs)
			}
		}
	} else {
		got, err := e.DecodeLevels(nil, body)
		if err != nil {
			return kit.Failf("c04/foreign-rle/decode-error"+feat, "DecodeLevels of a valid stream (runs %v): %v", c.Runs, err)
		}
		if len(got) < len(want) {
			return kit.Failf("c04/foreign-rle/count"+feat, "DecodeLevels returned %d levels, the stream encodes %d (runs %v)", len(got), len(want), c.Runs)
		}
		for i, w := range want {
			if int(got[i]) != w {
				return kit.Failf("c04/foreign-rle/values-differ"+feat, "DecodeLevels: level %d of %d is %d, the stream encodes %d (runs %v)", i, len(want), got[i], w, c.Runs)
			}
		}
	}
	o.Class(fmt.Sprintf("width-%d", c.Width))
	o.ClassIf(odd, "rle-run-not-multiple-of-8")
	if odd && len(c.Runs) >= 2 {
		o.NonTrivial()
	}
	return nil
}

var foreignSpec = &kit.Spec[ForeignCase]{
	Property: "C04",
	Name:     "foreignrle",
	Rule: "RLE / bit-packing hybrid streams built from the format description (1-6 runs, RLE runs of 1..100 values — not only multiples of 8 —, bit-packed runs of whole groups, the last one possibly padded; bit widths 1-3; " +
		"booleans with their 4-byte length prefix, levels without) are decoded by the library: the decoded values must be the ones the stream encodes. Non-trivial = at least two runs, one of them an RLE run whose length is not a multiple of 8.",
	Assumptions: []string{"the property's 'match the format spec for every input' is read as covering the decoders' inputs: any stream the specification allows, not only those this library's encoders emit"},
	Gen:         genForeignCase,
	Run:         runForeignCase,
}

func TestPropForeignRLE(t *testing.T) { kit.Both(t, foreignSpec) }
