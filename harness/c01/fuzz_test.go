package c01

import (
	"testing"

	"verifharness/kit"
)

// FuzzProp drives the same generator and oracle as TestProp with Go's native
// coverage-guided fuzzer (thorough tier, wall-clock bounded stage).
func FuzzProp(f *testing.F) { kit.Fuzz(f, spec) }
