package c01

import (
	"bytes"
	"testing"

	"pgregory.net/rapid"

	"verifharness/gen"
	"verifharness/kit"
	"verifharness/pq"
	"verifharness/ref"
	"verifharness/typed"
)

// TypedCase is a round trip of Go values of a catalogue struct type.
type TypedCase struct {
	Type      string         `json:"type"`
	Plan      gen.RowPlan    `json:"plan"`
	Opts      gen.WriterOpts `json:"opts"`
	Ops       []gen.Op       `json:"ops"`
	ReadBatch int            `json:"readbatch"`
}

func genTyped(t *rapid.T) TypedCase {
	var c TypedCase
	e := typed.Catalogue[rapid.IntRange(0, len(typed.Catalogue)-1).Draw(t, "type")]
	if kit.KnownPrefix("C01", "c01/typed/"+e.Name+"/") {
		kit.Excluded("type-" + e.Name)
		e = typed.ByName("Scalars")
	}
	c.Type = e.Name
	cols := ref.Columns(&e.Node)
	st := []gen.Style{gen.Mixed, gen.SmallDom, gen.Wide}[rapid.IntRange(0, 2).Draw(t, "style")]
	c.Plan = gen.Rows(t, &e.Node, 8, kit.Pick(300, 3000), gen.ValueOpts{Style: st, Leaf: gen.Opts{MaxBytes: kit.Pick(40, 300)}, LongLists: 8})
	c.Plan.Uniq = rapid.IntRange(0, 2).Draw(t, "uniq") == 0
	c.Opts = gen.WriterOptions(t, cols, gen.OptsBias{SmallPages: rapid.Bool().Draw(t, "small"), EncFor: pq.ValidEncodings})
	c.Ops = gen.WriteOps(t, c.Plan.NumRows())
	// some histories hand part of the rows, deconstructed, to WriteRows of the same typed writer
	if rapid.IntRange(0, 3).Draw(t, "mix") == 0 {
		for i := range c.Ops {
			if c.Ops[i].Kind == "w" && rapid.IntRange(0, 2).Draw(t, "wr") == 0 {
				c.Ops[i].Kind = "wr"
			}
		}
	}
	c.ReadBatch = []int{1, 2, 7, 17, 64, 100, 1000}[rapid.IntRange(0, 6).Draw(t, "rb")]
	return c
}

func runTyped(c TypedCase, o *kit.Obs) *kit.Failure {
	e := typed.ByName(c.Type)
	if e == nil {
		return kit.Failf("harness/unknown-type", "type %q", c.Type)
	}
	pre := "c01/typed/" + c.Type + "/"
	cols := ref.Columns(&e.Node)
	rows := e.New(c.Plan.ExpandWith(&e.Node))
	want := e.LaxTrees(rows)
	tmp, cleanup := pq.TempDir(c.Opts)
	defer cleanup()
	var buf bytes.Buffer
	if err := e.GenericWrite(&buf, rows, pq.Options(c.Opts, cols, tmp), c.Ops); err != nil {
		if _, ok := err.(*typed.WriteError); ok {
			o.Rejected()
			o.Class("write-error")
			return nil
		}
		return kit.Failf(pre+"short-write", "%v", err)
	}
	// the caller's values must not have been modified by Write
	if after := e.LaxTrees(rows); true {
		for i := range want {
			if d := ref.DiffRow(&e.Node, want[i], after[i]); d != "" {
				return kit.Failf(pre+"input-modified", "row %d changed by Write: %s", i, d)
			}
		}
	}
	data := buf.Bytes()
	readers := []struct {
		name string
		f    func() (any, error)
	}{
		{"GenericReader.Read", func() (any, error) { return e.ReadAll(data, c.ReadBatch, false) }},
		{"GenericReader.Read(reused batch)", func() (any, error) { return e.ReadAll(data, c.ReadBatch, true) }},
		{"parquet.Read", func() (any, error) { return e.ReadFunc(data) }},
		{"Reader.Read", func() (any, error) { return e.ReaderRead(data, false) }},
		{"Reader.Read(reused value)", func() (any, error) { return e.ReaderRead(data, true) }},
	}
	for _, r := range readers {
		got, err := r.f()
		if err != nil {
			return kit.Failf(pre+"read-error{via="+r.name+"}", "%s: %v", r.name, err)
		}
		if e.Len(got) != len(want) {
			return kit.Failf(pre+"rowcount{via="+r.name+"}", "%s returned %d rows, %d written", r.name, e.Len(got), len(want))
		}
		gt := e.LaxTrees(got)
		for i := range want {
			if d := ref.DiffRow(&e.Node, want[i], gt[i]); d != "" {
				return kit.Failf(pre+"values-differ{via="+r.name+"}", "%s row %d: written vs read: %s", r.name, i, d)
			}
		}
	}
	f, err := pq.Open(data)
	if err != nil {
		return kit.Failf(pre+"open-error", "%v", err)
	}
	pages := 0
	for _, rg := range f.RowGroups() {
		for _, cc := range rg.ColumnChunks() {
			if oi, err := cc.OffsetIndex(); err == nil && oi != nil && oi.NumPages() > pages {
				pages = oi.NumPages()
			}
		}
	}
	o.Class("type-" + c.Type)
	for _, op := range c.Ops {
		if op.Kind == "wr" {
			o.Class("mixed-Write/WriteRows")
			break
		}
	}
	o.ClassIf(pages >= 2, "multi-page")
	o.ClassIf(len(f.RowGroups()) >= 2, "multi-rowgroup")
	if len(want) > 0 && (pages >= 2 || len(f.RowGroups()) >= 2) {
		o.NonTrivial()
	}
	return nil
}

var typedSpec = &kit.Spec[TypedCase]{
	Property: "C01",
	Name:     "typed",
	Rule: "Go values of a catalogue struct type (13 types covering the documented tags) written with GenericWriter[T].Write under generated options and Write/Flush histories, " +
		"read back with GenericReader[T].Read (generated batch size), parquet.Read[T] and Reader.Read(&T); compared field by field (floats by bits, bytes bytewise, pointer nil-ness, " +
		"nil ≡ empty slices/maps, map entries as sets); the written slice is also checked to be unmodified. Non-trivial = at least one row and (≥2 pages in a chunk or ≥2 row groups).",
	Assumptions: []string{"Go-level comparison after the documented normalisation (nil ≡ empty slice/map; zero optional non-pointer ≡ null, so -0.0 in such a field may read back as +0.0 — that field shape reads back as zero either way)"},
	Gen:         genTyped,
	Run:         runTyped,
}

func TestPropTyped(t *testing.T) { kit.Both(t, typedSpec) }
