package c01

import (
	"fmt"
	"os"
	"testing"

	"github.com/parquet-go/parquet-go"
	"pgregory.net/rapid"

	"verifharness/gen"
	"verifharness/kit"
	"verifharness/pq"
	"verifharness/ref"
)

func TestMain(m *testing.M) { kit.Main(m) }

// Case is a dynamic-schema round trip: rows shredded by the reference model
// are written with WriteRows following a Write/Flush history, and read back.
type Case struct {
	Schema    ref.Node       `json:"schema"`
	Plan      gen.RowPlan    `json:"plan"`
	Opts      gen.WriterOpts `json:"opts"`
	Ops       []gen.Op       `json:"ops"`
	ReadBatch int            `json:"readbatch"`
}

func genCase(t *rapid.T) Case {
	var c Case
	c.Schema = gen.Schema(t, gen.SchemaOpts{
		MaxDepth: 3, MaxLeaves: kit.Pick(6, 10), PerLeafEnc: true, PerLeafCodec: true,
		EncFor: pq.ValidEncodings, Codecs: pq.CodecNames,
	})
	cols := ref.Columns(&c.Schema)
	st := []gen.Style{gen.Mixed, gen.SmallDom, gen.Wide}[rapid.IntRange(0, 2).Draw(t, "style")]
	c.Plan = gen.Rows(t, &c.Schema, 8, kit.Pick(300, 3000), gen.ValueOpts{Style: st, Leaf: gen.Opts{MaxBytes: kit.Pick(40, 300)}, LongLists: 10})
	c.Plan.Uniq = rapid.IntRange(0, 2).Draw(t, "uniq") == 0
	c.Opts = gen.WriterOptions(t, cols, gen.OptsBias{SmallPages: rapid.Bool().Draw(t, "small"), EncFor: pq.ValidEncodings})
	c.Ops = gen.WriteOps(t, c.Plan.NumRows())
	c.ReadBatch = []int{1, 2, 7, 17, 64, 100, 1000}[rapid.IntRange(0, 6).Draw(t, "rb")]
	return c
}

func runCase(c Case, o *kit.Obs) *kit.Failure {
	cols := ref.Columns(&c.Schema)
	rows := c.Plan.ExpandWith(&c.Schema)
	data, err := pq.WriteFile(&c.Schema, cols, rows, c.Opts, c.Ops)
	if err != nil {
		if _, ok := err.(*pq.ConfigError); ok {
			o.Rejected()
			return nil
		}
		// the property speaks about rows the writer accepted: an error is a
		// rejection, counted and kept rare by the generator (driver health check).
		o.Rejected()
		o.Class("write-error")
		if os.Getenv("VERIF_DEBUG") != "" {
			fmt.Println("write error:", err)
		}
		return nil
	}
	want := ref.ShredRows(&c.Schema, rows)

	f, err := pq.Open(data)
	if err != nil {
		return kit.Failf("c01/open-error", "OpenFile of the written bytes: %v", err)
	}
	if f.NumRows() != int64(len(rows)) {
		return kit.Failf("c01/numrows", "File.NumRows()=%d, %d rows written", f.NumRows(), len(rows))
	}
	// (a) per row group sequential rows
	got, counts, err := pq.FileStreams(f, cols, c.ReadBatch)
	if err != nil {
		return kit.Failf("c01/read-error{via=rowgroup.Rows}", "%v", err)
	}
	if d := pq.DiffStreams(cols, want, got); d != "" {
		return kit.Failf("c01/rows-differ{via=rowgroup.Rows}", "%s", d)
	}
	for i, n := range counts {
		if c.Opts.MaxRows > 0 && n > c.Opts.MaxRows {
			return kit.Failf("c01/rowgroup-too-large", "row group %d has %d rows, MaxRowsPerRowGroup=%d", i, n, c.Opts.MaxRows)
		}
	}
	// (b) the Reader front end
	rd := parquet.NewReader(f)
	rrows, err := pq.ReadAllRows(rd, c.ReadBatch)
	rd.Close()
	if err != nil {
		return kit.Failf("c01/read-error{via=Reader}", "%v", err)
	}
	if len(rrows) != len(rows) {
		return kit.Failf("c01/rowcount{via=Reader}", "Reader returned %d rows, %d written", len(rrows), len(rows))
	}
	got2, err := pq.Streams(cols, rrows)
	if err != nil {
		return kit.Failf("c01/read-error{via=Reader}", "%v", err)
	}
	if d := pq.DiffStreams(cols, want, got2); d != "" {
		return kit.Failf("c01/rows-differ{via=Reader}", "%s", d)
	}

	// classification
	pages := 0
	for _, rg := range f.RowGroups() {
		for _, cc := range rg.ColumnChunks() {
			if oi, err := cc.OffsetIndex(); err == nil && oi != nil && oi.NumPages() > pages {
				pages = oi.NumPages()
			}
		}
	}
	nested := false
	for _, col := range cols {
		if col.MaxRep > 0 || col.MaxDef > 1 {
			nested = true
		}
	}
	o.ClassIf(pages >= 2, "multi-page")
	o.ClassIf(len(counts) >= 2, "multi-rowgroup")
	o.ClassIf(nested, "nested")
	o.ClassIf(len(rows) == 0, "empty")
	o.Class(fmt.Sprintf("pv%d", c.Opts.PageVersion))
	if len(rows) > 0 && (pages >= 2 || len(counts) >= 2) {
		o.NonTrivial()
	}
	return nil
}

var spec = &kit.Spec[Case]{
	Property: "C01",
	Name:     "dynamic",
	Rule: "random schema trees (required/optional/repeated/list/map/group over 37 leaf types, per-leaf encodings and codecs), row plans (pool of ≤8 distinct rows " +
		"with null probabilities 0/30/100% repeated in runs of boundary lengths), the full writer option product and a Write/Flush history; written with Writer.WriteRows " +
		"from the reference shredder's rows; read back per row group and through Reader, compared per leaf (value bits, repetition, definition level) with the reference shredder. " +
		"Non-trivial = at least one row and (some column chunk has ≥2 pages or the file has ≥2 row groups).",
	Assumptions: []string{"expected streams come from the harness's own Dremel shredder (self-tested against its assembler)"},
	Gen:         genCase,
	Run:         runCase,
}

func TestProp(t *testing.T) { kit.Both(t, spec) }
