package c17

import (
	"bytes"
	"crypto/sha256"
	"encoding/hex"
	"fmt"
	"os"
	"reflect"
	"testing"

	"github.com/parquet-go/parquet-go"
	"pgregory.net/rapid"

	"verifharness/gen"
	"verifharness/kit"
	"verifharness/pq"
	"verifharness/ref"
	"verifharness/typed"
)

func TestMain(m *testing.M) {
	// only the typed path is exercised here: let all-zero fixed-size values arrive as nil slices
	// (it stores a zero placeholder taken from a pooled scratch buffer)
	typed.NilForZeroFixed = true
	kit.Main(m)
}

// Case: the final file (schema/type, rows, options, history) plus a prior
// history executed on the same writer instance before Reset.
type Case struct {
	Type      string         `json:"type,omitempty"`   // catalogue type (typed front end) or "" for a dynamic schema
	Schema    *ref.Node      `json:"schema,omitempty"` // dynamic schema
	Plan      gen.RowPlan    `json:"plan"`
	Opts      gen.WriterOpts `json:"opts"`
	Ops       []gen.Op       `json:"ops"`
	Prior     gen.RowPlan    `json:"prior"`
	PriorOps  []gen.Op       `json:"priorops"`
	PriorMode string         `json:"priormode"` // "closed" | "abandoned" | "failed"
	FailAt    int            `json:"failat"`
	Sorting   []int          `json:"sorting,omitempty"` // leaf columns declared as sorting columns (metadata only)
}

func genCase(t *rapid.T) Case {
	var c Case
	var root *ref.Node
	if rapid.IntRange(0, 2).Draw(t, "typed") == 0 {
		var names []string
		for _, e := range typed.Catalogue {
			if !e.HasMap { // Go map iteration order is excepted by the property
				names = append(names, e.Name)
			}
		}
		c.Type = names[rapid.IntRange(0, len(names)-1).Draw(t, "type")]
		root = &typed.ByName(c.Type).Node
	} else {
		s := gen.Schema(t, gen.SchemaOpts{MaxDepth: 3, MaxLeaves: 6, PerLeafEnc: true, PerLeafCodec: true, EncFor: pq.ValidEncodings, Codecs: pq.CodecNames})
		c.Schema = &s
		root = c.Schema
	}
	cols := ref.Columns(root)
	st := []gen.Style{gen.Mixed, gen.SmallDom, gen.Wide}[rapid.IntRange(0, 2).Draw(t, "style")]
	vo := gen.ValueOpts{Style: st, Leaf: gen.Opts{MaxBytes: 40}}
	c.Plan = gen.Rows(t, root, 6, kit.Pick(200, 2000), vo)
	c.Opts = gen.WriterOptions(t, cols, gen.OptsBias{SmallPages: rapid.Bool().Draw(t, "small"), EncFor: pq.ValidEncodings})
	c.Opts.Pool = "" // buffer pools are compared by C14; they do not change bytes
	c.Ops = gen.WriteOps(t, c.Plan.NumRows())
	vo2 := vo
	vo2.Style = gen.Wide // a different, larger-dictionary prior file
	c.Prior = gen.Rows(t, root, 6, kit.Pick(200, 2000), vo2)
	c.PriorOps = gen.WriteOps(t, c.Prior.NumRows())
	c.PriorMode = []string{"closed", "closed", "abandoned", "failed"}[rapid.IntRange(0, 3).Draw(t, "mode")]
	c.FailAt = rapid.IntRange(0, 3000).Draw(t, "failat")
	if c.Type == "" && rapid.IntRange(0, 2).Draw(t, "sorting") == 0 {
		// declare some top-level non-repeated leaf columns as sorting columns (metadata)
		for i, col := range cols {
			if col.MaxRep == 0 && len(col.Path) == 1 && len(c.Sorting) < 2 && rapid.Bool().Draw(t, "sc") {
				c.Sorting = append(c.Sorting, i)
			}
		}
	}
	return c
}

func sum(b []byte) string { h := sha256.Sum256(b); return hex.EncodeToString(h[:8]) }

func (c Case) sortingOption(cols []ref.Column) []parquet.WriterOption {
	if len(c.Sorting) == 0 {
		return nil
	}
	var sc []parquet.SortingColumn
	for _, i := range c.Sorting {
		sc = append(sc, parquet.Ascending(cols[i].Path...))
	}
	return []parquet.WriterOption{parquet.SortingWriterConfig(parquet.SortingColumns(sc...))}
}

// writeDynamic writes the final file; when reuse is set the writer first goes
// through the prior history and Reset.
func (c Case) writeDynamic(cols []ref.Column, reuse bool) ([]byte, error) {
	schema := pq.BuildSchema(c.Schema)
	opts := append([]parquet.WriterOption{schema}, pq.Options(c.Opts, cols, "")...)
	opts = append(opts, c.sortingOption(cols)...)
	if _, err := parquet.NewWriterConfig(opts...); err != nil {
		return nil, &pq.ConfigError{Err: err}
	}
	rows := pq.Rows(c.Schema, cols, c.Plan.Expand())
	var out bytes.Buffer
	var w *parquet.Writer
	if reuse {
		var first bytes.Buffer
		var sink = &typed.FailingWriter{W: &first, Limit: 1 << 40}
		if c.PriorMode == "failed" {
			sink.Limit = c.FailAt
		}
		w = parquet.NewWriter(sink, opts...)
		perr := pq.ApplyOps(w, pq.Rows(c.Schema, cols, c.Prior.Expand()), c.PriorOps)
		if c.FailAt%2 == 1 {
			// key/value metadata given to the earlier file by a call (not by the options) belongs to that file
			w.SetKeyValueMetadata("verif-prior-file", "1")
			if len(c.Opts.KV) > 0 {
				w.SetKeyValueMetadata(c.Opts.KV[0][0], "value of the earlier file")
			}
		}
		if c.PriorMode != "abandoned" {
			if cerr := w.Close(); perr == nil {
				perr = cerr
			}
		}
		if perr != nil && c.PriorMode != "failed" {
			return nil, fmt.Errorf("prior: %w", perr)
		}
		w.Reset(&out)
	} else {
		w = parquet.NewWriter(&out, opts...)
	}
	if err := pq.ApplyOps(w, rows, c.Ops); err != nil {
		return nil, err
	}
	if err := w.Close(); err != nil {
		return nil, err
	}
	return out.Bytes(), nil
}

func runCase(c Case, o *kit.Obs) *kit.Failure {
	var fresh, fresh2, reused []byte
	var err error
	feat := "{front=dynamic,prior=" + c.PriorMode + "}"
	if c.Type != "" {
		feat = "{front=typed,prior=" + c.PriorMode + "}"
		e := typed.ByName(c.Type)
		cols := ref.Columns(&e.Node)
		rows := e.New(c.Plan.Expand())
		opts := pq.Options(c.Opts, cols, "")
		var b1, b2 bytes.Buffer
		if err = e.GenericWrite(&b1, rows, opts, c.Ops); err == nil {
			fresh = b1.Bytes()
			if err = e.GenericWrite(&b2, rows, opts, c.Ops); err == nil {
				fresh2 = b2.Bytes()
				reused, err = e.ReuseWrite(e.New(c.Prior.Expand()), c.PriorOps, c.PriorMode, c.FailAt, rows, opts, c.Ops)
			}
		}
	} else {
		cols := ref.Columns(c.Schema)
		if fresh, err = c.writeDynamic(cols, false); err == nil {
			if fresh2, err = c.writeDynamic(cols, false); err == nil {
				reused, err = c.writeDynamic(cols, true)
			}
		}
	}
	if err != nil {
		o.Rejected()
		o.Class("write-error")
		return nil
	}
	o.Digest(sum(fresh))
	if p := os.Getenv("VERIF_DUMPFILE"); p != "" {
		os.WriteFile(p, fresh, 0o644)
	}
	if !bytes.Equal(fresh, fresh2) {
		return kit.Failf("c17/fresh-twice-differs"+feat, "two fresh writers produced different bytes (%d vs %d bytes): %s", len(fresh), len(fresh2), firstDiff(fresh, fresh2))
	}
	if !bytes.Equal(fresh, reused) {
		return kit.Failf("c17/reset-differs"+feat, "writer reused after Reset (prior file %s) produced different bytes than a fresh writer (%d vs %d bytes): %s; %s",
			c.PriorMode, len(reused), len(fresh), firstDiff(fresh, reused), footerDiff(fresh, reused))
	}
	o.Class("prior-" + c.PriorMode)
	o.ClassIf(c.Type != "", "typed")
	if c.Prior.NumRows() > 0 && c.Plan.NumRows() > 0 {
		o.NonTrivial()
	}
	return nil
}

func firstDiff(a, b []byte) string {
	n := len(a)
	if len(b) < n {
		n = len(b)
	}
	for i := 0; i < n; i++ {
		if a[i] != b[i] {
			return fmt.Sprintf("first difference at offset %d", i)
		}
	}
	return fmt.Sprintf("common prefix of %d bytes", n)
}

// footerDiff names the first differing metadata field using the library's own
// footer parser (diagnostic only).
func footerDiff(a, b []byte) string {
	fa, err1 := pq.Open(a)
	fb, err2 := pq.Open(b)
	if err1 != nil || err2 != nil {
		return fmt.Sprintf("open errors: %v / %v", err1, err2)
	}
	ma, mb := fa.Metadata(), fb.Metadata()
	if len(ma.RowGroups) != len(mb.RowGroups) {
		return fmt.Sprintf("row groups %d vs %d", len(ma.RowGroups), len(mb.RowGroups))
	}
	for i := range ma.RowGroups {
		ra, rb := ma.RowGroups[i], mb.RowGroups[i]
		if fmt.Sprint(ra.SortingColumns) != fmt.Sprint(rb.SortingColumns) {
			return fmt.Sprintf("row group %d sorting columns %v vs %v", i, ra.SortingColumns, rb.SortingColumns)
		}
		for j := range ra.Columns {
			ca, cb := ra.Columns[j].MetaData, rb.Columns[j].MetaData
			if fmt.Sprint(ca.PathInSchema) != fmt.Sprint(cb.PathInSchema) {
				return fmt.Sprintf("row group %d column %d path_in_schema %v vs %v", i, j, ca.PathInSchema, cb.PathInSchema)
			}
			if fmt.Sprint(ca.Encoding) != fmt.Sprint(cb.Encoding) {
				return fmt.Sprintf("row group %d column %d encodings %v vs %v", i, j, ca.Encoding, cb.Encoding)
			}
			if ca.TotalCompressedSize != cb.TotalCompressedSize || ca.TotalUncompressedSize != cb.TotalUncompressedSize {
				return fmt.Sprintf("row group %d column %d sizes %d/%d vs %d/%d", i, j, ca.TotalCompressedSize, ca.TotalUncompressedSize, cb.TotalCompressedSize, cb.TotalUncompressedSize)
			}
			if ca.BloomFilterLength != cb.BloomFilterLength || (ca.BloomFilterOffset == 0) != (cb.BloomFilterOffset == 0) {
				return fmt.Sprintf("row group %d column %d bloom offset/length %d/%d vs %d/%d", i, j, ca.BloomFilterOffset, ca.BloomFilterLength, cb.BloomFilterOffset, cb.BloomFilterLength)
			}
			if fmt.Sprintf("%+v", ca.Statistics) != fmt.Sprintf("%+v", cb.Statistics) {
				return fmt.Sprintf("row group %d column %d statistics %+v vs %+v", i, j, ca.Statistics, cb.Statistics)
			}
			va, vb := reflect.ValueOf(ca), reflect.ValueOf(cb)
			for k := 0; k < va.NumField(); k++ {
				if x, y := fmt.Sprintf("%+v", va.Field(k).Interface()), fmt.Sprintf("%+v", vb.Field(k).Interface()); x != y {
					return fmt.Sprintf("row group %d column %d %s: %s vs %s", i, j, va.Type().Field(k).Name, x, y)
				}
			}
		}
	}
	return "metadata equal as parsed; difference is in page bytes or indexes"
}

var spec = &kit.Spec[Case]{
	Property: "C17",
	Name:     "determinism",
	Rule: "a final file (dynamic schema via Writer.WriteRows or a map-free catalogue struct via GenericWriter.Write; generated rows, options, Write/Flush history, optional declared sorting columns) " +
		"written three times: by two fresh writers and by a writer that first went through a different prior file (closed, abandoned without Close, or failed on an injected sink error at a generated offset) and Reset; " +
		"all three byte sequences must be identical; the sha256 is also exported for the cross-build comparison (asm vs purego [vs simd]). Non-trivial = both the prior and the final file have rows.",
	Assumptions: []string{"Go map-typed values and encrypted files are excluded, as the property states", "CreatedBy is the library default in all runs"},
	Gen:         genCase,
	Run:         runCase,
}

func TestProp(t *testing.T) { kit.Both(t, spec) }
