package c17

import (
	"encoding/hex"
	"fmt"
	"math"
	"testing"

	"github.com/parquet-go/parquet-go"
	"pgregory.net/rapid"

	"verifharness/kit"
)

// IndexCase: the page bounds handed to the column indexer of a numeric type,
// page after page, as the writer does. The column index it produces (bounds,
// null pages, boundary order) is part of the file: it must not depend on the
// build, on the number of pages (which selects the vector or the scalar order
// kernel) nor on what the indexer held before Reset.
type IndexCase struct {
	Kind  string     `json:"kind"`  // int32 | int64 | uint32 | uint64 | float | double
	Pages [][2]int64 `json:"pages"` // (min, max) as integers / float bits
	Null  []int      `json:"null,omitempty"`
	Prior int        `json:"prior,omitempty"` // pages indexed before Reset
}

var indexKinds = []string{"int32", "int64", "uint32", "uint64", "float", "double", "float", "double"}

func genIndexCase(t *rapid.T) IndexCase {
	var c IndexCase
	c.Kind = indexKinds[rapid.IntRange(0, len(indexKinds)-1).Draw(t, "kind")]
	n := []int{2, 3, 4, 5, 7, 8, 9, 10, 15, 16, 17, 18, 31, 32, 33, 34, 40, 65}[rapid.IntRange(0, 17).Draw(t, "n")]
	isFloat := c.Kind == "float" || c.Kind == "double"
	dir := rapid.IntRange(0, 2).Draw(t, "dir") // ascending, descending, constant
	step := int64(rapid.IntRange(0, 3).Draw(t, "step"))
	base := int64(rapid.IntRange(-5, 5).Draw(t, "base"))
	enc := func(v int64) int64 {
		switch c.Kind {
		case "float":
			return int64(math.Float32bits(float32(v) / 2))
		case "double":
			return int64(math.Float64bits(float64(v) / 2))
		case "uint32":
			return int64(uint32(v + 1<<31 - 3)) // around the sign bit of the signed view
		case "uint64":
			return int64(uint64(v) + 1<<63 - 3)
		}
		return v
	}
	for i := 0; i < n; i++ {
		k := int64(i)
		switch dir {
		case 1:
			k = int64(n - 1 - i)
		case 2:
			k = 0
		}
		lo := base + k*step
		c.Pages = append(c.Pages, [2]int64{enc(lo), enc(lo + int64(rapid.IntRange(0, 2).Draw(t, "w")))})
	}
	// perturbations: pages whose bounds are NaN (all-NaN pages), a swapped pair, null pages
	for k := rapid.IntRange(0, 2).Draw(t, "nperturb"); k > 0; k-- {
		i := rapid.IntRange(0, n-1).Draw(t, "at")
		switch rapid.IntRange(0, 3).Draw(t, "what") {
		case 0:
			if isFloat {
				nan := int64(0x7fc00000)
				if c.Kind == "double" {
					nan = 0x7ff8000000000000
				}
				switch rapid.IntRange(0, 2).Draw(t, "nanwhere") {
				case 0:
					c.Pages[i] = [2]int64{nan, nan}
				case 1:
					c.Pages[i][0] = nan
				default:
					c.Pages[i][1] = nan
				}
			}
		case 1:
			j := rapid.IntRange(0, n-1).Draw(t, "with")
			c.Pages[i], c.Pages[j] = c.Pages[j], c.Pages[i]
		case 2:
			c.Null = append(c.Null, i)
		default:
			if isFloat && rapid.Bool().Draw(t, "negzero") {
				z := int64(0x80000000)
				if c.Kind == "double" {
					z = math.MinInt64
				}
				c.Pages[i] = [2]int64{z, 0}
			}
		}
	}
	c.Prior = []int{0, 0, 1, 20}[rapid.IntRange(0, 3).Draw(t, "prior")]
	return c
}

func (c IndexCase) typ() parquet.Type {
	switch c.Kind {
	case "int32":
		return parquet.Int32Type
	case "int64":
		return parquet.Int64Type
	case "uint32":
		return parquet.Uint(32).Type()
	case "uint64":
		return parquet.Uint(64).Type()
	case "float":
		return parquet.FloatType
	case "double":
		return parquet.DoubleType
	}
	return nil
}

func (c IndexCase) value(x int64) parquet.Value {
	switch c.Kind {
	case "int32", "uint32":
		return parquet.Int32Value(int32(x))
	case "int64", "uint64":
		return parquet.Int64Value(x)
	case "float":
		return parquet.FloatValue(math.Float32frombits(uint32(x)))
	default:
		return parquet.DoubleValue(math.Float64frombits(uint64(x)))
	}
}

func (c IndexCase) index(ix parquet.ColumnIndexer) string {
	null := map[int]bool{}
	for _, i := range c.Null {
		null[i] = true
	}
	for i, p := range c.Pages {
		if null[i] {
			ix.IndexPage(10, 10, parquet.Value{}, parquet.Value{})
		} else {
			ix.IndexPage(10, 0, c.value(p[0]), c.value(p[1]))
		}
	}
	ci := ix.ColumnIndex()
	s := fmt.Sprintf("order=%d nulls=%v counts=%v", ci.BoundaryOrder, ci.NullPages, ci.NullCounts)
	for i := range ci.MinValues {
		s += " " + hex.EncodeToString(ci.MinValues[i]) + ":" + hex.EncodeToString(ci.MaxValues[i])
	}
	return s
}

func runIndexCase(c IndexCase, o *kit.Obs) *kit.Failure {
	typ := c.typ()
	if typ == nil || len(c.Pages) == 0 {
		return kit.Failf("harness/bad-case", "kind %q", c.Kind)
	}
	fresh := c.index(typ.NewColumnIndexer(0))
	again := c.index(typ.NewColumnIndexer(0))
	if fresh != again {
		return kit.Failf("c17/indexer/fresh-twice-differs{kind="+c.Kind+"}", "two fresh column indexers disagree:\n%s\n%s", fresh, again)
	}
	ix := typ.NewColumnIndexer(0)
	for i := 0; i < c.Prior; i++ {
		ix.IndexPage(3, 0, c.value(int64(i*7919)), c.value(int64(i*7919+1)))
	}
	ix.Reset()
	if reused := c.index(ix); reused != fresh {
		return kit.Failf("c17/indexer/reused-differs{kind="+c.Kind+"}", "a column indexer reused after Reset disagrees with a fresh one:\n%s\n%s", fresh, reused)
	}
	o.Digest(sum([]byte(fresh)))
	o.Class("kind-" + c.Kind)
	o.Class(fresh[:7])
	hasNaN := false
	for _, p := range c.Pages {
		for _, x := range p {
			v := c.value(x)
			if (c.Kind == "float" && v.Float() != v.Float()) || (c.Kind == "double" && v.Double() != v.Double()) {
				hasNaN = true
			}
		}
	}
	o.ClassIf(hasNaN, "nan-bound")
	o.ClassIf(len(c.Pages) >= 16, "pages>=16")
	if len(c.Pages) >= 9 || hasNaN {
		o.NonTrivial()
	}
	return nil
}

var indexSpec = &kit.Spec[IndexCase]{
	Property: "C17",
	Name:     "indexer",
	Rule: "page bounds (2..65 pages: ascending, descending or constant runs of small integers / floats / unsigned values around the sign bit, with NaN bounds, ±0, swapped pairs and null pages) fed to the ColumnIndexer of the type as the writer does; " +
		"the resulting column index (boundary order, bounds, null pages) must be the same from two fresh indexers and from one reused after Reset, and its digest is compared across the asm / purego / simd builds, " +
		"whose order kernels switch between scalar and vector code with the number of pages. Non-trivial = ≥9 pages or a NaN bound.",
	Assumptions: []string{"the truth of the claimed order is judged by C05; here only its independence from build and history"},
	Scale:       40,
	Gen:         genIndexCase,
	Run:         runIndexCase,
}

func TestPropIndexer(t *testing.T) { kit.Both(t, indexSpec) }
