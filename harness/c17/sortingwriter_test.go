package c17

import (
	"bytes"
	"fmt"
	"testing"

	"github.com/parquet-go/parquet-go"
	"pgregory.net/rapid"

	"verifharness/kit"
)

// SWCase: a SortingWriter (sorted runs spilled to temporary storage, merged at
// Close, optionally dropping duplicated keys) writes the final file fresh and
// after an earlier file on the same instance — closed, or abandoned after some
// of its runs were already sorted — followed by Reset.
type SWCase struct {
	SortRows int    `json:"sortrows"` // rows per sorted run
	Dedupe   bool   `json:"dedupe"`
	Desc     bool   `json:"desc"`
	Rows     []int  `json:"rows"`  // keys of the final file (small domain: duplicates)
	Ops      []SWOp `json:"ops"`   // how the final rows are handed in
	Prior    []int  `json:"prior"` // keys of the earlier file
	POps     []SWOp `json:"pops"`
	PClose   bool   `json:"pclose"` // the earlier file is closed (else abandoned)
}

type SWOp struct {
	N     int  `json:"n"`     // rows written by this call
	Flush bool `json:"flush"` // followed by Flush
}

type swRow struct {
	K int64  `parquet:"k"`
	P string `parquet:"p"`
}

func genSWCase(t *rapid.T) SWCase {
	var c SWCase
	c.SortRows = []int{1, 2, 3, 5, 8, 100}[rapid.IntRange(0, 5).Draw(t, "sortrows")]
	c.Dedupe = rapid.Bool().Draw(t, "dedupe")
	c.Desc = rapid.IntRange(0, 3).Draw(t, "desc") == 0
	keys := func(label string) []int {
		var ks []int
		for n := rapid.IntRange(1, 30).Draw(t, label+"n"); n > 0; n-- {
			ks = append(ks, rapid.IntRange(0, 6).Draw(t, label))
		}
		return ks
	}
	ops := func(label string, n int) []SWOp {
		var os []SWOp
		for n > 0 {
			k := rapid.IntRange(1, 10).Draw(t, label+"w")
			if k > n {
				k = n
			}
			os = append(os, SWOp{N: k, Flush: rapid.IntRange(0, 3).Draw(t, label+"f") == 0})
			n -= k
		}
		return os
	}
	c.Rows = keys("k")
	c.Ops = ops("o", len(c.Rows))
	c.Prior = keys("pk")
	c.POps = ops("po", len(c.Prior))
	c.PClose = rapid.IntRange(0, 2).Draw(t, "pclose") == 0
	return c
}

func swApply(w *parquet.SortingWriter[swRow], keys []int, ops []SWOp, tag string) error {
	at := 0
	for _, op := range ops {
		n := min(op.N, len(keys)-at)
		rows := make([]swRow, n)
		for i := range rows {
			rows[i] = swRow{K: int64(keys[at+i]), P: fmt.Sprintf("%s%d", tag, at+i)}
		}
		at += n
		if n > 0 {
			if _, err := w.Write(rows); err != nil {
				return err
			}
		}
		if op.Flush {
			if err := w.Flush(); err != nil {
				return err
			}
		}
	}
	return nil
}

func runSWCase(c SWCase, o *kit.Obs) (fl *kit.Failure) {
	defer func() {
		if r := recover(); r != nil {
			fl = kit.Failf("c17/sortingwriter/panic", "%v", r)
		}
	}()
	col := parquet.Ascending("k")
	if c.Desc {
		col = parquet.Descending("k")
	}
	opts := func() []parquet.WriterOption {
		return []parquet.WriterOption{parquet.SortingWriterConfig(parquet.SortingColumns(col), parquet.DropDuplicatedRows(c.Dedupe))}
	}
	write := func(reuse bool) ([]byte, error) {
		var out bytes.Buffer
		var w *parquet.SortingWriter[swRow]
		if reuse {
			var first bytes.Buffer
			w = parquet.NewSortingWriter[swRow](&first, int64(c.SortRows), opts()...)
			if err := swApply(w, c.Prior, c.POps, "q"); err != nil {
				return nil, fmt.Errorf("prior: %w", err)
			}
			if c.PClose {
				if err := w.Close(); err != nil {
					return nil, fmt.Errorf("prior: %w", err)
				}
			}
			w.Reset(&out)
		} else {
			w = parquet.NewSortingWriter[swRow](&out, int64(c.SortRows), opts()...)
		}
		if err := swApply(w, c.Rows, c.Ops, "p"); err != nil {
			return nil, err
		}
		if err := w.Close(); err != nil {
			return nil, err
		}
		return out.Bytes(), nil
	}
	fresh, err := write(false)
	if err != nil {
		return kit.Failf("c17/sortingwriter/write-error", "fresh: %v", err)
	}
	reused, err := write(true)
	if err != nil {
		return kit.Failf("c17/sortingwriter/write-error", "reused: %v", err)
	}
	o.Digest(sum(fresh))
	feat := fmt.Sprintf("{dedupe=%v,prior=%s}", c.Dedupe, map[bool]string{true: "closed", false: "abandoned"}[c.PClose])
	if !bytes.Equal(fresh, reused) {
		rf, _ := parquet.Read[swRow](bytes.NewReader(fresh), int64(len(fresh)))
		rr, _ := parquet.Read[swRow](bytes.NewReader(reused), int64(len(reused)))
		return kit.Failf("c17/sortingwriter/reset-differs"+feat, "a SortingWriter reused after Reset wrote %d bytes (%d rows), a fresh one %d bytes (%d rows): %s", len(reused), len(rr), len(fresh), len(rf), firstDiff(fresh, reused))
	}
	runs := 0
	for _, op := range c.POps {
		if op.Flush {
			runs++
		}
	}
	o.Class(feat)
	o.ClassIf(len(c.Prior) > c.SortRows || runs > 0, "prior-had-sorted-runs")
	if len(c.Prior) > c.SortRows || runs > 0 {
		o.NonTrivial()
	}
	return nil
}

var swSpec = &kit.Spec[SWCase]{
	Property: "C17",
	Name:     "sortingwriter",
	Rule: "1-30 rows with keys in 0..6 written through SortingWriter (runs of 1-100 rows, ascending or descending, with or without DropDuplicatedRows, Write batches of 1-10 rows with Flush at generated places) by a fresh instance and by one that first took another such file — closed, or abandoned after runs were sorted — and was Reset: identical bytes (digest also compared across builds). " +
		"Non-trivial = the earlier file had at least one sorted run.",
	Gen: genSWCase,
	Run: runSWCase,
}

func TestPropSortingWriter(t *testing.T) { kit.Both(t, swSpec) }
