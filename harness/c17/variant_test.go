package c17

import (
	"bytes"
	"fmt"
	"testing"

	"github.com/parquet-go/parquet-go"
	"github.com/parquet-go/parquet-go/variant"
	"pgregory.net/rapid"

	"verifharness/kit"
)

// VarCase: a variant column written through a VariantColumnWriter, on a fresh
// writer and on a writer that produced another file before (Close, Reset).
type VarCase struct {
	Prior [][]string `json:"prior"` // per row the field names of the object written to the first file
	Rows  [][]string `json:"rows"`  // same for the file that is compared
	Again bool       `json:"again"` // create a new VariantColumnWriter after Reset (otherwise the first one keeps being used)
}

func genVarCase(t *rapid.T) VarCase {
	name := rapid.SampledFrom([]string{"a", "b", "zeta", "alpha", "beta", "k1", "k2", "a-rather-long-field-name"})
	rows := func(label string) [][]string {
		var out [][]string
		n := rapid.IntRange(0, 12).Draw(t, label)
		for i := 0; i < n; i++ {
			out = append(out, rapid.SliceOfNDistinct(name, 0, 3, func(s string) string { return s }).Draw(t, label+"f"))
		}
		return out
	}
	return VarCase{Prior: rows("prior"), Rows: rows("rows"), Again: rapid.Bool().Draw(t, "again")}
}

func writeVariants(w *parquet.Writer, vw *parquet.VariantColumnWriter, rows [][]string) error {
	for i, names := range rows {
		var fs []variant.Field
		for j, n := range names {
			fs = append(fs, variant.Field{Name: n, Value: variant.Int64(int64(i*10 + j))})
		}
		if err := vw.WriteValue(variant.MakeObject(fs)); err != nil {
			return err
		}
	}
	return w.Close()
}

func runVarCase(c VarCase, o *kit.Obs) *kit.Failure {
	schema := parquet.NewSchema("t", parquet.Group{"var": parquet.Variant()})
	var fresh bytes.Buffer
	{
		w := parquet.NewWriter(&fresh, schema)
		vw, err := parquet.NewVariantColumnWriter(w, "var")
		if err != nil {
			return kit.Failf("c17/variant/writer-error", "%v", err)
		}
		if err := writeVariants(w, vw, c.Rows); err != nil {
			o.Rejected()
			return nil
		}
	}
	var first, second bytes.Buffer
	w := parquet.NewWriter(&first, schema)
	vw, err := parquet.NewVariantColumnWriter(w, "var")
	if err != nil {
		return kit.Failf("c17/variant/writer-error", "%v", err)
	}
	if err := writeVariants(w, vw, c.Prior); err != nil {
		o.Rejected()
		return nil
	}
	w.Reset(&second)
	if c.Again {
		if vw, err = parquet.NewVariantColumnWriter(w, "var"); err != nil {
			return kit.Failf("c17/variant/writer-error", "after Reset: %v", err)
		}
	}
	if err := writeVariants(w, vw, c.Rows); err != nil {
		return kit.Failf("c17/variant/write-error-after-reset", "%v", err)
	}
	o.Digest(sum(fresh.Bytes()))
	if !bytes.Equal(fresh.Bytes(), second.Bytes()) {
		return kit.Failf(fmt.Sprintf("c17/variant/reused-differs{new-column-writer=%v}", c.Again), "the same variant rows written after Close+Reset of a writer that produced another file give different bytes (%d vs %d): %s",
			fresh.Len(), second.Len(), firstDiff(fresh.Bytes(), second.Bytes()))
	}
	o.ClassIf(c.Again, "new-column-writer-after-reset")
	if len(c.Prior) > 0 && len(c.Rows) > 0 {
		o.NonTrivial()
	}
	return nil
}

var varSpec = &kit.Spec[VarCase]{
	Property: "C17",
	Name:     "variantreuse",
	Rule: "0-12 variant objects (field names from a small vocabulary) written through a VariantColumnWriter on a fresh Writer, and on a Writer that wrote another such file before (Close, Reset; with the same VariantColumnWriter or a new one): byte-identical files. " +
		"Non-trivial = both files have rows.",
	Gen: genVarCase,
	Run: runVarCase,
}

func TestPropVariantReuse(t *testing.T) { kit.Both(t, varSpec) }
