package c17

import (
	"bytes"
	"fmt"
	"reflect"
	"testing"

	"github.com/parquet-go/parquet-go"
	"pgregory.net/rapid"

	"verifharness/kit"
)

// TagCase: a struct type built at run time, written once through the schema
// derived from it with StructTag replacements (after the plain schema of the
// same type has been derived, or not) and once through a second type that
// declares the replaced tags itself. Same rows, same effective options: the
// files must be byte-identical whatever the process derived before.
type TagCase struct {
	Fields []TagField `json:"fields"`
	Rows   int        `json:"rows"`
	Prior  int        `json:"prior"` // 0 none | 1 plain SchemaOf(type) first | 2 tagged, plain, tagged again
	Salt   int        `json:"salt"`  // part of the field names: a type not seen before in the process
}

type TagField struct {
	Kind string `json:"kind"`          // int64 | int32 | string | bytes | double | bool
	Tag  string `json:"tag,omitempty"` // replacement tag options ("" = not replaced), e.g. "renamed,delta"
}

func genTagCase(t *rapid.T) TagCase {
	var c TagCase
	n := rapid.IntRange(1, 4).Draw(t, "nfields")
	replaced := false
	for i := 0; i < n; i++ {
		f := TagField{Kind: []string{"int64", "int32", "string", "bytes", "double", "bool"}[rapid.IntRange(0, 5).Draw(t, "kind")]}
		if rapid.IntRange(0, 2).Draw(t, "replace") != 0 || (i == n-1 && !replaced) {
			var opts []string
			switch f.Kind {
			case "int64", "int32":
				opts = []string{"delta", "dict", "optional", "plain", "zstd", "split"}
			case "string", "bytes":
				opts = []string{"dict", "delta", "optional", "snappy", "plain"}
			case "double":
				opts = []string{"split", "optional", "dict", "gzip"}
			default:
				opts = []string{"optional", "plain", "snappy"}
			}
			name := fmt.Sprintf("f%d", i)
			if rapid.Bool().Draw(t, "rename") {
				name = fmt.Sprintf("renamed%d", i)
			}
			f.Tag = name + "," + opts[rapid.IntRange(0, len(opts)-1).Draw(t, "opt")]
			replaced = true
		}
		c.Fields = append(c.Fields, f)
	}
	c.Rows = []int{0, 1, 10, 200}[rapid.IntRange(0, 3).Draw(t, "rows")]
	c.Prior = rapid.IntRange(0, 2).Draw(t, "prior")
	c.Salt = rapid.IntRange(0, 1<<20).Draw(t, "salt")
	return c
}

func (c TagCase) goType(replacedTags bool) reflect.Type {
	var fs []reflect.StructField
	for i, f := range c.Fields {
		var t reflect.Type
		switch f.Kind {
		case "int64":
			t = reflect.TypeOf(int64(0))
		case "int32":
			t = reflect.TypeOf(int32(0))
		case "string":
			t = reflect.TypeOf("")
		case "bytes":
			t = reflect.TypeOf([]byte(nil))
		case "double":
			t = reflect.TypeOf(float64(0))
		default:
			t = reflect.TypeOf(false)
		}
		tag := fmt.Sprintf(`parquet:"f%d"`, i)
		if replacedTags && f.Tag != "" {
			tag = fmt.Sprintf(`parquet:"%s"`, f.Tag)
		}
		// the field names carry the salt: two cases with different salts are different Go types
		fs = append(fs, reflect.StructField{Name: fmt.Sprintf("F%d_%d", i, c.Salt), Type: t, Tag: reflect.StructTag(tag)})
	}
	return reflect.StructOf(fs)
}

func (c TagCase) fill(t reflect.Type, row int) reflect.Value {
	v := reflect.New(t)
	for i, f := range c.Fields {
		x := int64(row*31 + i*7 + 1)
		fv := v.Elem().Field(i)
		switch f.Kind {
		case "int64", "int32":
			fv.SetInt(x % 1000)
		case "string":
			fv.SetString(fmt.Sprintf("s%d", x%17))
		case "bytes":
			fv.SetBytes([]byte(fmt.Sprintf("b%d", x%13)))
		case "double":
			fv.SetFloat(float64(x) / 4)
		default:
			fv.SetBool(x%3 == 0)
		}
	}
	return v
}

func (c TagCase) write(schema *parquet.Schema, t reflect.Type) ([]byte, error) {
	var buf bytes.Buffer
	w := parquet.NewWriter(&buf, schema, parquet.PageBufferSize(256))
	for r := 0; r < c.Rows; r++ {
		if err := w.Write(c.fill(t, r).Interface()); err != nil {
			return nil, err
		}
	}
	if err := w.Close(); err != nil {
		return nil, err
	}
	return buf.Bytes(), nil
}

func runTagCase(c TagCase, o *kit.Obs) (fl *kit.Failure) {
	if len(c.Fields) == 0 {
		return kit.Failf("harness/bad-case", "no fields")
	}
	defer func() {
		if r := recover(); r != nil {
			fl = kit.Failf("c17/structtag/panic", "%v", r)
		}
	}()
	tA, tB := c.goType(false), c.goType(true)
	var tags []parquet.SchemaOption
	for i, f := range c.Fields {
		if f.Tag != "" {
			// the path of a replacement is made of Go field names
			tags = append(tags, parquet.StructTag(reflect.StructTag(fmt.Sprintf(`parquet:"%s"`, f.Tag)), fmt.Sprintf("F%d_%d", i, c.Salt)))
		}
	}
	model := reflect.New(tA).Interface()
	var first *parquet.Schema
	switch c.Prior {
	case 1:
		parquet.SchemaOf(model)
	case 2:
		first = parquet.SchemaOf(model, tags...)
		parquet.SchemaOf(model)
	}
	tagged := parquet.SchemaOf(model, tags...)
	declared := parquet.SchemaOf(reflect.New(tB).Interface())
	if first != nil && first.String() != tagged.String() {
		return kit.Failf("c17/structtag/schema-depends-on-history", "the schema derived with the same StructTag options changed after the plain schema of the type was derived:\n%s\n%s", first, tagged)
	}
	if tagged.String() != declared.String() {
		return kit.Failf("c17/structtag/schema-differs", "SchemaOf(T, StructTag...) differs from the schema of the type that declares those tags (prior=%d):\n%s\n%s", c.Prior, tagged, declared)
	}
	a, err := c.write(tagged, tA)
	if err != nil {
		o.Rejected()
		return nil
	}
	b, err := c.write(declared, tB)
	if err != nil {
		return kit.Failf("c17/structtag/write-error", "the declared-tags type failed where the replaced-tags schema succeeded: %v", err)
	}
	o.Digest(sum(a))
	if !bytes.Equal(a, b) {
		return kit.Failf("c17/structtag/bytes-differ", "the same rows through SchemaOf(T, StructTag...) and through the type declaring those tags give different files (%d vs %d bytes, prior=%d): %s", len(a), len(b), c.Prior, firstDiff(a, b))
	}
	o.Class(fmt.Sprintf("prior-%d", c.Prior))
	if c.Rows > 0 {
		o.NonTrivial()
	}
	return nil
}

var tagSpec = &kit.Spec[TagCase]{
	Property: "C17",
	Name:     "structtag",
	Rule: "a struct type of 1-4 fields built at run time (a new Go type per case) is written through SchemaOf(T, StructTag(...)...) with generated tag replacements (rename, encoding, compression, optional) — " +
		"after nothing, after the plain SchemaOf(T), or before and after it — and through a second type that declares the replaced tags itself; the schemas must print identically and the files must be byte-identical. Non-trivial = at least one row.",
	Assumptions: []string{"anonymous struct types: both schemas have the same (empty) root name"},
	Scale:       4,
	Gen:         genTagCase,
	Run:         runTagCase,
}

func TestPropStructTag(t *testing.T) { kit.Both(t, tagSpec) }
