package c17

import (
	"bytes"
	"errors"
	"fmt"
	"sort"
	"testing"

	"github.com/parquet-go/parquet-go"
	"pgregory.net/rapid"

	"verifharness/gen"
	"verifharness/kit"
	"verifharness/pq"
	"verifharness/ref"
)

// RGCase: files assembled from row groups (WriteRowGroup of buffers that
// declare sorting columns or not, of row groups of another file) mixed with
// row writes, by a fresh writer and by one that assembled another file before.
type RGCase struct {
	Schema ref.Node       `json:"schema"`
	Plan   gen.RowPlan    `json:"plan"`
	Prior  gen.RowPlan    `json:"prior"`
	Opts   gen.WriterOpts `json:"opts"`
	Parts  []RGPart       `json:"parts"`
	PParts []RGPart       `json:"pparts"`
	Close  bool           `json:"close"` // the prior file is closed (or abandoned)
}

type RGPart struct {
	N    int    `json:"n"`    // rows of the part (the last part takes the rest)
	Kind string `json:"kind"` // rows | buffer | sorted-buffer | file-rowgroup | sorted-file-rowgroup
}

var rgKinds = []string{"rows", "buffer", "sorted-buffer", "sorted-buffer", "file-rowgroup", "sorted-file-rowgroup"}

func genRGCase(t *rapid.T) RGCase {
	var c RGCase
	c.Schema = gen.Schema(t, gen.SchemaOpts{MaxDepth: 2, MaxLeaves: 4})
	c.Schema.Children = append([]ref.Node{{Name: "akey", Rep: "req", Kind: "leaf", Leaf: "int64"}}, c.Schema.Children...)
	cols := ref.Columns(&c.Schema)
	vo := gen.ValueOpts{Style: gen.SmallDom, Leaf: gen.Opts{MaxBytes: 12}}
	c.Plan = gen.RowsAtLeast(t, &c.Schema, 6, 1, 120, vo)
	c.Prior = gen.RowsAtLeast(t, &c.Schema, 6, 1, 120, vo)
	c.Opts = gen.WriterOptions(t, cols, gen.OptsBias{SmallPages: true, NoBloom: true, EncFor: pq.ValidEncodings})
	c.Opts.Pool, c.Opts.MaxRows = "", int64([]int{0, 0, 5, 16}[rapid.IntRange(0, 3).Draw(t, "maxrows")])
	parts := func(label string) []RGPart {
		var ps []RGPart
		for n := rapid.IntRange(1, 4).Draw(t, label+"n"); n > 0; n-- {
			ps = append(ps, RGPart{N: rapid.IntRange(1, 60).Draw(t, label+"rows"), Kind: rgKinds[rapid.IntRange(0, len(rgKinds)-1).Draw(t, label+"kind")]})
		}
		return ps
	}
	c.Parts, c.PParts = parts("p"), parts("q")
	c.Close = rapid.IntRange(0, 3).Draw(t, "close") != 0
	return c
}

var errRowCount = errors.New("row count")

func (c RGCase) assemble(w *parquet.Writer, schema *parquet.Schema, rows []parquet.Row, parts []RGPart) error {
	sorting := parquet.SortingRowGroupConfig(parquet.SortingColumns(parquet.Ascending("akey")))
	at := 0
	for i, p := range parts {
		n := p.N
		if i == len(parts)-1 || at+n > len(rows) {
			n = len(rows) - at
		}
		part := rows[at : at+n]
		at += n
		if n == 0 {
			continue
		}
		switch p.Kind {
		case "rows":
			if _, err := w.WriteRows(part); err != nil {
				return err
			}
		case "buffer", "sorted-buffer":
			var b *parquet.Buffer
			if p.Kind == "buffer" {
				b = parquet.NewBuffer(schema)
			} else {
				b = parquet.NewBuffer(schema, sorting)
			}
			if _, err := b.WriteRows(part); err != nil {
				return err
			}
			if p.Kind == "sorted-buffer" {
				sort.Stable(b)
			}
			if k, err := w.WriteRowGroup(b); err != nil {
				return err
			} else if k != int64(n) {
				return fmt.Errorf("%w: WriteRowGroup of a buffer of %d rows returned %d, nil", errRowCount, n, k)
			}
		default:
			var tmp bytes.Buffer
			var tw *parquet.Writer
			if p.Kind == "file-rowgroup" {
				tw = parquet.NewWriter(&tmp, schema)
			} else {
				tw = parquet.NewWriter(&tmp, schema, parquet.SortingWriterConfig(parquet.SortingColumns(parquet.Ascending("akey"))))
			}
			if _, err := tw.WriteRows(part); err != nil {
				return err
			}
			if err := tw.Close(); err != nil {
				return err
			}
			f, err := pq.Open(tmp.Bytes())
			if err != nil {
				return err
			}
			for _, rg := range f.RowGroups() {
				if k, err := w.WriteRowGroup(rg); err != nil {
					return err
				} else if k != rg.NumRows() {
					return fmt.Errorf("%w: WriteRowGroup of a row group of %d rows returned %d, nil", errRowCount, rg.NumRows(), k)
				}
			}
		}
	}
	return nil
}

func runRGCase(c RGCase, o *kit.Obs) (fl *kit.Failure) {
	defer func() {
		if r := recover(); r != nil {
			fl = kit.Failf("c17/rowgroups/panic", "%v", r)
		}
	}()
	cols := ref.Columns(&c.Schema)
	schema := pq.BuildSchema(&c.Schema)
	opts := append([]parquet.WriterOption{schema}, pq.Options(c.Opts, cols, "")...)
	if _, err := parquet.NewWriterConfig(opts...); err != nil {
		o.Rejected()
		return nil
	}
	key := func(plan gen.RowPlan) []parquet.Row {
		vs := plan.Expand()
		for i := range vs {
			f := append([]ref.V{}, vs[i].F...)
			f[0] = ref.V{I: int64(i)} // ascending keys: the sorted row groups tell the truth
			vs[i] = ref.V{F: f}
		}
		return pq.Rows(&c.Schema, cols, vs)
	}
	rows, prior := key(c.Plan), key(c.Prior)
	write := func(reuse bool) ([]byte, error) {
		var out bytes.Buffer
		var w *parquet.Writer
		if reuse {
			var first bytes.Buffer
			w = parquet.NewWriter(&first, opts...)
			if err := c.assemble(w, schema, prior, c.PParts); err != nil {
				return nil, fmt.Errorf("prior: %w", err)
			}
			if c.Close {
				if err := w.Close(); err != nil {
					return nil, fmt.Errorf("prior: %w", err)
				}
			}
			w.Reset(&out)
		} else {
			w = parquet.NewWriter(&out, opts...)
		}
		if err := c.assemble(w, schema, rows, c.Parts); err != nil {
			return nil, err
		}
		if err := w.Close(); err != nil {
			return nil, err
		}
		return out.Bytes(), nil
	}
	fresh, err := write(false)
	if errors.Is(err, errRowCount) {
		return kit.Failf("c17/rowgroups/returned-count", "%v (MaxRowsPerRowGroup %d)", err, c.Opts.MaxRows)
	}
	if err != nil {
		o.Rejected()
		o.Class("write-error")
		return nil
	}
	reused, err := write(true)
	if errors.Is(err, errRowCount) {
		return kit.Failf("c17/rowgroups/returned-count", "%v (MaxRowsPerRowGroup %d)", err, c.Opts.MaxRows)
	}
	if err != nil {
		return kit.Failf("c17/rowgroups/reused-write-error", "the reused writer failed where the fresh one succeeded: %v", err)
	}
	o.Digest(sum(fresh))
	if !bytes.Equal(fresh, reused) {
		return kit.Failf("c17/rowgroups/reset-differs", "a writer that assembled another file before Reset produced different bytes than a fresh one (%d vs %d bytes): %s; %s", len(reused), len(fresh), firstDiff(fresh, reused), footerDiff(fresh, reused))
	}
	// what the file says about sorting is what the row groups handed in said
	f, err := pq.Open(fresh)
	if err != nil {
		return kit.Failf("c17/rowgroups/open", "%v", err)
	}
	claims := "none"
	for _, rg := range f.RowGroups() {
		if len(rg.SortingColumns()) > 0 {
			claims = "some"
		}
	}
	kinds := map[string]bool{}
	for _, p := range c.Parts {
		kinds[p.Kind] = true
		o.Class("part-" + p.Kind)
	}
	o.Class("claims-" + claims)
	if len(c.Parts) >= 2 || kinds["sorted-buffer"] || kinds["sorted-file-rowgroup"] {
		o.NonTrivial()
	}
	return nil
}

var rgSpec = &kit.Spec[RGCase]{
	Property: "C17",
	Name:     "rowgroups",
	Rule: "a file assembled from 1-4 parts — WriteRows, WriteRowGroup of a Buffer (plain, or sorted and declaring sorting columns), WriteRowGroup of the row groups of another file (written with or without sorting columns) — by a writer without sorting configuration, fresh and after it assembled another such file (closed or abandoned) and was Reset: the bytes must be identical; the digest is compared across builds. " +
		"Non-trivial = two parts or a part that declares sorting columns.",
	Gen: genRGCase,
	Run: runRGCase,
}

func TestPropRowGroups(t *testing.T) { kit.Both(t, rgSpec) }
