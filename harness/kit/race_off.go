//go:build !race

package kit

// RaceEnabled reports that the binary was built with the race detector.
const RaceEnabled = false
