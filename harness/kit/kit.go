// Package kit is the shared plumbing of every property check: it runs a rapid
// property whose case is plain JSON data, counts what was generated, matches
// failures against the committed known-findings file, dumps the (shrunk)
// failing case for the driver, and replays saved cases without rapid.
package kit

import (
	"crypto/sha256"
	"encoding/hex"
	"encoding/json"
	"flag"
	"fmt"
	"os"
	"path/filepath"
	"runtime"
	"runtime/debug"
	"sort"
	"strconv"
	"strings"
	"sync"
	"testing"
	"time"

	"pgregory.net/rapid"
)

// Failure is an oracle verdict. Sig is stable across inputs with the same
// root cause (assertion id + discriminating features), Msg is for humans.
type Failure struct {
	Sig string `json:"sig"`
	Msg string `json:"msg"`
}

func Failf(sig, format string, args ...any) *Failure {
	return &Failure{Sig: sig, Msg: fmt.Sprintf(format, args...)}
}

// Obs collects what a single case execution looked like.
type Obs struct {
	nontrivial bool
	classes    []string
	rejected   bool
	digest     string
	metrics    map[string]int
}

// Metric adds n to a named counter summed over all cases (e.g. fault
// positions tried), reported in the evidence.
func (o *Obs) Metric(name string, n int) {
	if o.metrics == nil {
		o.metrics = map[string]int{}
	}
	o.metrics[name] += n
}

func (o *Obs) NonTrivial()        { o.nontrivial = true }
func (o *Obs) Class(name string)  { o.classes = append(o.classes, name) }
func (o *Obs) Rejected()          { o.rejected = true }
func (o *Obs) Digest(d string)    { o.digest = d }
func (o *Obs) IsNonTrivial() bool { return o.nontrivial }
func (o *Obs) ClassIf(b bool, name string) {
	if b {
		o.Class(name)
	}
}

// Spec describes one generated check.
type Spec[C any] struct {
	Property    string // e.g. "C06"
	Name        string // sub-check name, unique within the property
	Rule        string // generation + non-trivial rule, in words (goes to evidence)
	Assumptions []string
	Scale       float64 // multiplies the tier's base case count (default 1)
	Gen         func(t *rapid.T) C
	Run         func(c C, o *Obs) *Failure
	CaseTimeout time.Duration // watchdog per case (default 60s)
}

type subStats struct {
	Name        string            `json:"name"`
	Rule        string            `json:"rule"`
	Assumptions []string          `json:"assumptions"`
	Evaluations int               `json:"evaluations"`
	Requested   int               `json:"requested"`
	Rejected    int               `json:"rejected"`
	Classes     map[string]int    `json:"classes"`
	KnownHits   map[string]int    `json:"known_hits"`
	Metrics     map[string]int    `json:"metrics"`
	Samples     []json.RawMessage `json:"samples"`
	nontrivial  map[uint64]struct{}
	sampleSeen  map[string]bool
}

var (
	mu    sync.Mutex
	stats = map[string]*subStats{}
	order []string
)

func env(k, def string) string {
	if v := os.Getenv(k); v != "" {
		return v
	}
	return def
}

func envInt(k string, def int) int {
	if v := os.Getenv(k); v != "" {
		n, err := strconv.Atoi(v)
		if err == nil {
			return n
		}
	}
	return def
}

// Tier returns "quick" or "thorough".
func Tier() string { return env("VERIF_TIER", "quick") }

// Thorough reports whether the thorough tier is running.
func Thorough() bool { return Tier() == "thorough" }

// Pick returns q in the quick tier and th in the thorough tier.
func Pick[T any](q, th T) T {
	if Thorough() {
		return th
	}
	return q
}

// ---- known findings -------------------------------------------------------

type Finding struct {
	ID        string `json:"id"`
	Property  string `json:"property"`
	Status    string `json:"status"` // "known" | "fixed"
	Signature string `json:"signature"`
	Replay    string `json:"replay,omitempty"`
	What      string `json:"what"`
	Commit    string `json:"commit,omitempty"`
}

var (
	knownOnce sync.Once
	known     []Finding
)

func loadKnown() {
	path := os.Getenv("VERIF_KNOWN")
	if path == "" {
		// walk up from cwd looking for known_findings.json
		dir, _ := os.Getwd()
		for i := 0; i < 6; i++ {
			p := filepath.Join(dir, "known_findings.json")
			if _, err := os.Stat(p); err == nil {
				path = p
				break
			}
			dir = filepath.Dir(dir)
		}
	}
	if path == "" {
		return
	}
	b, err := os.ReadFile(path)
	if err != nil {
		return
	}
	var doc struct {
		Findings []Finding `json:"findings"`
	}
	if err := json.Unmarshal(b, &doc); err != nil {
		fmt.Fprintf(os.Stderr, "kit: cannot parse %s: %v\n", path, err)
		os.Exit(4)
	}
	known = doc.Findings
}

// KnownSig reports whether sig matches a recorded (status "known") finding of
// the property. A signature ending in '*' is a prefix pattern.
func KnownSig(property, sig string) bool {
	knownOnce.Do(loadKnown)
	for _, f := range known {
		if f.Status != "known" || f.Property != property {
			continue
		}
		if matchSig(f.Signature, sig) {
			return true
		}
	}
	return false
}

// Known reports whether a finding with this exact signature is recorded as
// still open; generators use it to steer around the region by construction.
func Known(property, sig string) bool { return KnownSig(property, sig) }

// KnownPrefix reports whether an open finding of the property has a signature
// (pattern) starting with prefix; generators use it to keep a whole region
// (e.g. one catalogue type) out of the search by construction.
func KnownPrefix(property, prefix string) bool {
	knownOnce.Do(loadKnown)
	for _, f := range known {
		if f.Status == "known" && f.Property == property && strings.HasPrefix(f.Signature, prefix) {
			return true
		}
	}
	return false
}

// Excluded counts a generator decision that was redirected because of an open
// finding (reported in evidence as excluded_by_known_finding).
func Excluded(name string) {
	mu.Lock()
	excluded[name]++
	mu.Unlock()
}

var excluded = map[string]int{}

func matchSig(pat, sig string) bool {
	if strings.HasSuffix(pat, "*") {
		return strings.HasPrefix(sig, strings.TrimSuffix(pat, "*"))
	}
	return pat == sig
}

// ---- running ----------------------------------------------------------------

func hashCase(b []byte) (uint64, string) {
	h := sha256.Sum256(b)
	var u uint64
	for i := 0; i < 8; i++ {
		u = u<<8 | uint64(h[i])
	}
	return u, hex.EncodeToString(h[:8])
}

// Exec runs the case with panic recovery and a watchdog.
func Exec[C any](s *Spec[C], c C, o *Obs) (f *Failure) {
	to := s.CaseTimeout
	if to == 0 {
		to = 120 * time.Second
	}
	if RaceEnabled {
		to *= 10
	}
	timer := time.AfterFunc(to, func() {
		b, _ := json.Marshal(c)
		fmt.Fprintf(os.Stderr, "WATCHDOG: %s/%s case ran longer than %v\ncase: %s\n", s.Property, s.Name, to, trunc(string(b), 4000))
		buf := make([]byte, 1<<16)
		n := runtime.Stack(buf, true)
		os.Stderr.Write(buf[:n])
		os.Exit(3)
	})
	defer timer.Stop()
	defer func() {
		if r := recover(); r != nil {
			f = &Failure{Sig: "panic/" + panicSite(debug.Stack()), Msg: fmt.Sprintf("panic: %v\n%s", r, trunc(string(debug.Stack()), 3000))}
		}
	}()
	return s.Run(c, o)
}

func trunc(s string, n int) string {
	if len(s) > n {
		return s[:n] + "…"
	}
	return s
}

// panicSite extracts the first parquet-go (or other non-runtime, non-harness)
// function below the panic frame.
func panicSite(stack []byte) string {
	lines := strings.Split(string(stack), "\n")
	seenPanic := false
	for _, l := range lines {
		if strings.HasPrefix(l, "panic(") {
			seenPanic = true
			continue
		}
		if !seenPanic || strings.HasPrefix(l, "\t") || strings.HasPrefix(l, "runtime.") || l == "" {
			continue
		}
		// e.g. github.com/parquet-go/parquet-go.(*optionalColumnBuffer).Swap(...)
		name := l
		if i := strings.LastIndex(name, "("); i > 0 {
			name = name[:i]
		}
		if i := strings.LastIndex(name, "/"); i >= 0 {
			name = name[i+1:]
		}
		return name
	}
	return "unknown"
}

func getStats[C any](s *Spec[C]) *subStats {
	mu.Lock()
	defer mu.Unlock()
	st := stats[s.Name]
	if st == nil {
		st = &subStats{Name: s.Name, Rule: s.Rule, Assumptions: s.Assumptions,
			Classes: map[string]int{}, KnownHits: map[string]int{}, Metrics: map[string]int{},
			nontrivial: map[uint64]struct{}{}, sampleSeen: map[string]bool{}}
		stats[s.Name] = st
		order = append(order, s.Name)
	}
	return st
}

func record[C any](st *subStats, raw []byte, h uint64, o *Obs) {
	mu.Lock()
	defer mu.Unlock()
	st.Evaluations++
	if o.rejected {
		st.Rejected++
	}
	for _, c := range o.classes {
		st.Classes[c]++
	}
	for k, v := range o.metrics {
		st.Metrics[k] += v
	}
	if o.nontrivial {
		st.Classes["nontrivial"]++
		st.nontrivial[h] = struct{}{}
	}
	// keep up to 4 samples: prefer non-trivial, one per distinct class-set, small ones
	if len(raw) <= 6000 {
		key := fmt.Sprint(o.nontrivial, o.classes)
		if !st.sampleSeen[key] && len(st.Samples) < 4 && (o.nontrivial || len(st.Samples) == 0) {
			st.sampleSeen[key] = true
			st.Samples = append(st.Samples, json.RawMessage(append([]byte(nil), raw...)))
		}
	}
}

// Check runs the spec under rapid with the tier's base case count.
func Check[C any](t *testing.T, s *Spec[C]) {
	if os.Getenv("VERIF_REPLAY") != "" {
		t.Skip("replay mode")
	}
	base := envInt("VERIF_CHECKS", 100)
	scale := s.Scale
	if scale == 0 {
		scale = 1
	}
	n := int(float64(base) * scale)
	if n < 1 {
		n = 1
	}
	seed := uint64(envInt("VERIF_SHARD_SEED", 1))
	if seed == 0 {
		seed = 0x9e3779b97f4a7c15
	}
	flag.Set("rapid.checks", strconv.Itoa(n))
	flag.Set("rapid.seed", strconv.FormatUint(seed, 10))
	flag.Set("rapid.nofailfile", "true")
	if os.Getenv("VERIF_SHRINKTIME") != "" {
		flag.Set("rapid.shrinktime", os.Getenv("VERIF_SHRINKTIME"))
	}
	st := getStats(s)
	st.Requested += n
	dumpHash := os.Getenv("VERIF_DUMP_HASH")
	digests := openDigests()
	rapid.Check(t, func(rt *rapid.T) {
		c := s.Gen(rt)
		raw, err := json.Marshal(c)
		if err != nil {
			panic(fmt.Sprintf("kit: case not serialisable: %v", err))
		}
		h, hs := hashCase(raw)
		if dumpHash != "" && dumpHash == hs {
			writeFail(s.Property, s.Name, raw, &Failure{Sig: "digest-mismatch", Msg: "case requested by hash " + hs}, "dump")
		}
		o := &Obs{}
		f := Exec(s, c, o)
		record[C](st, raw, h, o)
		if digests != nil && o.digest != "" {
			fmt.Fprintf(digests, "%s %s %s\n", s.Name, hs, o.digest)
		}
		if f == nil {
			return
		}
		if KnownSig(s.Property, f.Sig) {
			mu.Lock()
			st.KnownHits[f.Sig]++
			mu.Unlock()
			return
		}
		writeFail(s.Property, s.Name, raw, f, "fail")
		rt.Fatalf("FAIL %s/%s sig=%s: %s", s.Property, s.Name, f.Sig, f.Msg)
	})
}

var (
	digOnce sync.Once
	digFile *os.File
)

func openDigests() *os.File {
	digOnce.Do(func() {
		if p := os.Getenv("VERIF_DIGESTS"); p != "" {
			f, err := os.OpenFile(p, os.O_CREATE|os.O_WRONLY|os.O_APPEND, 0o644)
			if err == nil {
				digFile = f
			}
		}
	})
	return digFile
}

type failDoc struct {
	Property string          `json:"property"`
	Name     string          `json:"name"`
	Sig      string          `json:"sig"`
	Msg      string          `json:"msg"`
	Case     json.RawMessage `json:"case"`
}

func writeFail(property, name string, raw []byte, f *Failure, kind string) {
	dir := os.Getenv("VERIF_FAILDIR")
	if dir == "" {
		return
	}
	os.MkdirAll(dir, 0o755)
	doc := failDoc{Property: property, Name: name, Sig: f.Sig, Msg: trunc(f.Msg, 6000), Case: raw}
	b, _ := json.MarshalIndent(doc, "", " ")
	// rapid re-runs the minimal case last, so the last write is the shrunk one.
	os.WriteFile(filepath.Join(dir, kind+"-"+name+".json"), b, 0o644)
}

// Replay runs the case stored in $VERIF_REPLAY (if it belongs to this spec)
// directly through Run: no rapid, no generator.
func Replay[C any](t *testing.T, s *Spec[C]) {
	path := os.Getenv("VERIF_REPLAY")
	if path == "" {
		t.Skip("no VERIF_REPLAY")
	}
	b, err := os.ReadFile(path)
	if err != nil {
		t.Fatalf("replay: %v", err)
	}
	var doc failDoc
	if err := json.Unmarshal(b, &doc); err != nil {
		t.Fatalf("replay: %v", err)
	}
	if doc.Name != s.Name {
		t.Skipf("replay file is for %q", doc.Name)
	}
	var c C
	if err := json.Unmarshal(doc.Case, &c); err != nil {
		t.Fatalf("replay: case: %v", err)
	}
	o := &Obs{}
	f := Exec(s, c, o)
	digests := openDigests()
	if digests != nil && o.digest != "" {
		_, hs := hashCase(doc.Case)
		fmt.Fprintf(digests, "%s %s %s\n", s.Name, hs, o.digest)
	}
	if f != nil {
		fmt.Printf("REPLAY-FAIL name=%s sig=%s\n%s\n", s.Name, f.Sig, f.Msg)
		t.Fatalf("replay failed: sig=%s", f.Sig)
	}
	fmt.Printf("REPLAY-PASS name=%s\n", s.Name)
}

// Fuzz exposes the spec to Go's native coverage-guided fuzzer: the fuzzer's
// bytes are rapid's bit stream, so the generator and the oracle are the ones of
// the rapid search. A failing case is written to $VERIF_FAILDIR like in Check
// (the saved corpus entry under testdata/fuzz is removed by the driver).
func Fuzz[C any](f *testing.F, s *Spec[C]) {
	if os.Getenv("VERIF_REPLAY") != "" {
		f.Skip("replay mode")
	}
	f.Fuzz(rapid.MakeFuzz(func(rt *rapid.T) {
		c := s.Gen(rt)
		raw, err := json.Marshal(c)
		if err != nil {
			panic(fmt.Sprintf("kit: case not serialisable: %v", err))
		}
		o := &Obs{}
		fl := Exec(s, c, o)
		if fl == nil || KnownSig(s.Property, fl.Sig) {
			return
		}
		writeFail(s.Property, s.Name, raw, fl, "fail")
		rt.Fatalf("FAIL %s/%s sig=%s: %s", s.Property, s.Name, fl.Sig, fl.Msg)
	}))
}

// Both registers the usual pair: generated search, or replay when VERIF_REPLAY is set.
func Both[C any](t *testing.T, s *Spec[C]) {
	if os.Getenv("VERIF_REPLAY") != "" {
		Replay(t, s)
		return
	}
	Check(t, s)
}

// Main writes the stats file after the tests ran.
func Main(m *testing.M) {
	// The shards run under ulimit -v (10 GiB): keep the collector ahead of it. Some library paths
	// allocate gigabytes for a moment (a page size read from a header after a failed read) and
	// several such dead buffers must not pile up until the address space is exhausted.
	debug.SetMemoryLimit(5 << 30)
	code := m.Run()
	flush()
	os.Exit(code)
}

func flush() {
	p := os.Getenv("VERIF_STATS")
	if p == "" {
		return
	}
	mu.Lock()
	defer mu.Unlock()
	type out struct {
		Subs       []*subStats         `json:"subs"`
		Nontrivial map[string][]string `json:"nontrivial"`
		Excluded   map[string]int      `json:"excluded"`
	}
	o := out{Nontrivial: map[string][]string{}, Excluded: excluded}
	sort.Strings(order)
	for _, name := range order {
		st := stats[name]
		o.Subs = append(o.Subs, st)
		hs := make([]string, 0, len(st.nontrivial))
		for h := range st.nontrivial {
			hs = append(hs, strconv.FormatUint(h, 16))
		}
		sort.Strings(hs)
		o.Nontrivial[name] = hs
	}
	b, _ := json.Marshal(o)
	os.WriteFile(p, b, 0o644)
}
