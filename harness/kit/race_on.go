//go:build race

package kit

// RaceEnabled reports that the binary was built with the race detector, under
// which the code runs 5-20 times slower: watchdogs are stretched and the
// checks whose cost grows with input size cap their sizes.
const RaceEnabled = true
