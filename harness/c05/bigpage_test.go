package c05

import (
	"bytes"
	"fmt"
	"testing"

	"github.com/parquet-go/parquet-go"
	"pgregory.net/rapid"

	"verifharness/kit"
	"verifharness/pq"
	"verifharness/ref"
)

// BigCase: one column, one very large page (the combined min/max kernels of
// the accelerated builds only run on ≥1 MiB of values, with scalar tails).
type BigCase struct {
	Leaf  string `json:"leaf"`
	N     int    `json:"n"`
	Seed  uint64 `json:"seed"`
	Mode  int    `json:"mode"`  // 0 random full range, 1 small magnitudes with rare extremes, 2 extremes in the tail only
	TailN int    `json:"tailn"` // number of tail values forced to extremes in mode 2
	Opt   bool   `json:"optional"`
}

var bigLeaves = []string{"int32", "uint32", "int64", "uint64", "float", "double", "uuid", "date", "ts:us"}

func genBig(t *rapid.T) BigCase {
	return BigCase{
		Leaf:  bigLeaves[rapid.IntRange(0, len(bigLeaves)-1).Draw(t, "leaf")],
		N:     []int{262144, 262145, 262147, 262175, 262176, 270001, 300007, 524289}[rapid.IntRange(0, 7).Draw(t, "n")],
		Seed:  rapid.Uint64().Draw(t, "seed"),
		Mode:  rapid.IntRange(0, 2).Draw(t, "mode"),
		TailN: rapid.IntRange(1, 40).Draw(t, "tailn"),
		Opt:   rapid.IntRange(0, 3).Draw(t, "opt") == 0,
	}
}

func (c BigCase) values(l ref.Leaf) []ref.V {
	x := c.Seed | 1
	next := func() uint64 { // xorshift64*: deterministic expansion of the drawn seed
		x ^= x >> 12
		x ^= x << 25
		x ^= x >> 27
		return x * 2685821657736338717
	}
	out := make([]ref.V, c.N)
	extremes := []int64{-1 << 63, 1<<63 - 1, -1, 0, 1 << 31, -(1 << 31), 1<<31 - 1, 1<<32 - 1}
	for i := range out {
		r := next()
		var v int64
		switch c.Mode {
		case 0:
			v = int64(r)
		case 1:
			v = int64(r % 2000)
			if r>>40%5000 == 0 {
				v = extremes[r>>20%uint64(len(extremes))]
			}
		default:
			v = 1000 + int64(r%1000)
			if i >= c.N-c.TailN {
				v = extremes[r>>20%uint64(len(extremes))]
			}
		}
		switch l.Phys {
		case ref.Int32:
			out[i] = ref.V{I: int64(int32(v))}
		case ref.Int64:
			out[i] = ref.V{I: v}
		case ref.Float:
			f := float32(int32(v))
			out[i] = ref.V{I: int64(int32(f32bits(f)))}
		case ref.Double:
			out[i] = ref.V{I: int64(f64bits(float64(v)))}
		case ref.FLBA:
			b := make([]byte, l.Len)
			for k := 0; k < 8 && k < l.Len; k++ {
				b[k] = byte(uint64(v) >> (56 - 8*uint(k)))
			}
			out[i] = ref.V{B: b}
		}
	}
	return out
}

func runBig(c BigCase, o *kit.Obs) *kit.Failure {
	l := ref.ParseLeaf(c.Leaf)
	vals := c.values(l)
	node := pq.LeafNode(c.Leaf)
	def := 0
	if c.Opt {
		node = parquet.Optional(node)
		def = 1
	}
	schema := parquet.NewSchema("root", parquet.Group{"x": node})
	var buf bytes.Buffer
	w := parquet.NewWriter(&buf, schema, parquet.PageBufferSize(16<<20), parquet.DefaultEncoding(&parquet.Plain))
	pv := make([]parquet.Value, len(vals))
	for i, v := range vals {
		pv[i] = pq.Scalar(l, v.I, v.B).Level(0, def, 0)
	}
	if _, err := w.ColumnWriters()[0].WriteRowValues(pv); err != nil {
		o.Rejected()
		return nil
	}
	if err := w.Close(); err != nil {
		o.Rejected()
		return nil
	}
	f, err := pq.Open(buf.Bytes())
	if err != nil {
		return kit.Failf("c05/big/open", "%v", err)
	}
	cc := f.RowGroups()[0].ColumnChunks()[0]
	ci, err := cc.ColumnIndex()
	if err != nil {
		return kit.Failf("c05/big/column-index", "%v", err)
	}
	mn, mx := vals[0], vals[0]
	for _, v := range vals[1:] {
		if ref.IsNaN(l, v.I) {
			continue
		}
		if cmp, ok := ref.Compare(l, v.I, v.B, mn.I, mn.B); ok && cmp < 0 {
			mn = v
		}
		if cmp, ok := ref.Compare(l, v.I, v.B, mx.I, mx.B); ok && cmp > 0 {
			mx = v
		}
	}
	feat := fmt.Sprintf("{leaf=%s}", c.Leaf)
	for p := 0; p < ci.NumPages(); p++ {
		if ci.NumPages() != 1 {
			break // several pages: bounds per page are covered by the main check
		}
		rmn, rmx := pq.FromValue(l, ci.MinValue(p)), pq.FromValue(l, ci.MaxValue(p))
		if cmp, ok := ref.Compare(l, mn.I, mn.B, rmn.I, rmn.B); ok && cmp < 0 {
			return kit.Failf("c05/big/min-not-lower-bound"+feat, "page of %d values: recorded min %v is above the smallest value %v", c.N, rmn, mn)
		}
		if cmp, ok := ref.Compare(l, mx.I, mx.B, rmx.I, rmx.B); ok && cmp > 0 {
			return kit.Failf("c05/big/max-not-upper-bound"+feat, "page of %d values: recorded max %v is below the largest value %v", c.N, rmx, mx)
		}
	}
	o.Class("leaf-" + c.Leaf)
	o.ClassIf(ci.NumPages() == 1, "single-big-page")
	if ci.NumPages() == 1 && c.N%32 != 0 {
		o.NonTrivial()
	}
	return nil
}

var bigSpec = &kit.Spec[BigCase]{
	Property: "C05",
	Name:     "bigpage",
	Scale:    0.04,
	Rule: "one column (int32/uint32/int64/uint64/float/double/uuid/date/timestamp, required or optional) holding a single page of 262144..524289 values expanded deterministically from a drawn seed " +
		"(full-range random, small magnitudes with rare extremes, or extremes only in the last 1-40 values), so the ≥1 MiB combined min/max kernels and their scalar tails run; the column-index bounds must bound the true min/max. " +
		"Non-trivial = the file has one page and its length is not a multiple of 32.",
	Assumptions: []string{"value expansion uses a fixed xorshift generator seeded from the drawn case (pure function of the case)"},
	Gen:         genBig,
	Run:         runBig,
}

func TestPropBigPage(t *testing.T) { kit.Both(t, bigSpec) }
