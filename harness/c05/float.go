package c05

import "math"

func f32bits(f float32) uint32 { return math.Float32bits(f) }
func f64bits(f float64) uint64 { return math.Float64bits(f) }
