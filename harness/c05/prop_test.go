package c05

import (
	"bytes"
	"encoding/binary"
	"fmt"
	"testing"

	"github.com/parquet-go/parquet-go"
	"pgregory.net/rapid"

	"verifharness/c02"
	"verifharness/gen"
	"verifharness/kit"
	"verifharness/pq"
	"verifharness/ref"
)

func TestMain(m *testing.M) { kit.Main(m) }

type Case struct {
	Schema  ref.Node       `json:"schema"`
	Plan    gen.RowPlan    `json:"plan"`
	Opts    gen.WriterOpts `json:"opts"`
	Ops     []gen.Op       `json:"ops"`
	Path    string         `json:"path"`
	SrcOpts gen.WriterOpts `json:"srcopts"`
	Sorting []int          `json:"sorting,omitempty"`
	Lead    int            `json:"lead,omitempty"` // >0: byte array leaves are empty in the first Lead rows and non-empty afterwards
	// Carry (klen, 0xFF run, period, desc) > 0: byte array leaves are ordered keys
	// alternating with long values ending in a 0xFF run (gen.Carry)
	Carry []int `json:"carry,omitempty"`
	// Mono (mode, fine step, rotation, desc): full-range numeric leaves are a wrapping progression of the row index (gen.Mono)
	Mono []int `json:"mono,omitempty"`
}

var paths = []string{"WriteRows", "WriteRows", "WriteRows", "WriteRowGroup(file)", "WriteRowGroup(file,same-config)"}

func genCase(t *rapid.T) Case {
	var c Case
	c.Schema = gen.Schema(t, gen.SchemaOpts{MaxDepth: 2, MaxLeaves: 4, LeafIDs: gen.AllLeafIDs, PerLeafEnc: true, EncFor: pq.ValidEncodings})
	cols := ref.Columns(&c.Schema)
	st := []gen.Style{gen.Mixed, gen.Mixed, gen.SmallDom, gen.Wide}[rapid.IntRange(0, 3).Draw(t, "style")]
	special := rapid.IntRange(0, 11).Draw(t, "carry")
	carry, mono := special <= 1, special >= 2 && special <= 3
	minRows := []int{0, 20, 60, 150}[rapid.IntRange(0, 3).Draw(t, "min")]
	if (carry || mono) && minRows < 60 {
		minRows = 60
	}
	c.Plan = gen.RowsAtLeast(t, &c.Schema, 10, minRows, kit.Pick(400, 3000), gen.ValueOpts{Style: st, Leaf: gen.Opts{MaxBytes: 40}})
	c.Plan.Uniq = rapid.IntRange(0, 2).Draw(t, "uniq") == 0
	bias := gen.OptsBias{SmallPages: rapid.IntRange(0, 3).Draw(t, "small") != 0, NoBloom: true, EncFor: pq.ValidEncodings, Codecs: []string{"", "", "snappy"}}
	c.Opts = gen.WriterOptions(t, cols, bias)
	c.Opts.Pool = ""
	c.Ops = gen.WriteOps(t, c.Plan.NumRows())
	c.Path = paths[rapid.IntRange(0, len(paths)-1).Draw(t, "path")]
	c.SrcOpts = gen.WriterOptions(t, cols, bias)
	c.SrcOpts.Pool = ""
	if rapid.IntRange(0, 3).Draw(t, "lead") == 0 {
		c.Lead = rapid.IntRange(1, 48).Draw(t, "leadn")
	}
	if carry {
		// the key ends inside the size limit of the column index and the 0xFF run crosses it (usually)
		lim := c.Opts.IndexLimit
		if lim == 0 {
			lim = 16
		}
		if lim < 2 || lim > 64 {
			lim = 8
		}
		klen := rapid.IntRange(1, lim-1).Draw(t, "klen")
		ff := lim - klen + rapid.IntRange(-1, 6).Draw(t, "ff")
		if ff < 1 {
			ff = 1
		}
		c.Carry = []int{klen, ff, rapid.IntRange(2, 4).Draw(t, "period"), rapid.IntRange(0, 1).Draw(t, "cdesc")}
	}
	if mono {
		n := c.Plan.NumRows()
		c.Mono = []int{rapid.IntRange(0, 2).Draw(t, "mmode"), pickOf(t, []int{0, 0, 1, 3}, "mfine"), pickOf(t, []int{0, 0, n / 2, rapid.IntRange(0, n).Draw(t, "mrot")}, "mrotk"), rapid.IntRange(0, 1).Draw(t, "mdesc")}
	}
	if carry || mono {
		c.Opts.PageBuf = pickOf(t, []int{32, 48, 64, 100, 128, 256}, "cpagebuf")
		// page sizes are evaluated once per write call: many short writes make many pages
		c.Ops = nil
		for left := c.Plan.NumRows(); left > 0; {
			n := min(rapid.IntRange(1, 5).Draw(t, "cbn"), left)
			c.Ops = append(c.Ops, gen.Op{Kind: "w", N: n})
			left -= n
			if rapid.IntRange(0, 39).Draw(t, "cflush") == 0 {
				c.Ops = append(c.Ops, gen.Op{Kind: "f"})
			}
		}
	}
	if rapid.IntRange(0, 3).Draw(t, "sorting") == 0 {
		for i, col := range cols {
			if col.MaxRep == 0 && len(col.Path) == 1 && len(c.Sorting) < 3 && rapid.Bool().Draw(t, "sc") {
				c.Sorting = append(c.Sorting, i)
			}
		}
		// the priority order of the keys need not be the order of the columns in the schema
		if len(c.Sorting) > 1 && rapid.Bool().Draw(t, "screv") {
			for i, j := 0, len(c.Sorting)-1; i < j; i, j = i+1, j-1 {
				c.Sorting[i], c.Sorting[j] = c.Sorting[j], c.Sorting[i]
			}
		}
	}
	return c
}

func pickOf(t *rapid.T, xs []int, label string) int {
	return xs[rapid.IntRange(0, len(xs)-1).Draw(t, label)]
}

func (c Case) sortingOption(cols []ref.Column) []parquet.WriterOption {
	if len(c.Sorting) == 0 {
		return nil
	}
	var sc []parquet.SortingColumn
	for k, i := range c.Sorting {
		if k%2 == 0 {
			sc = append(sc, parquet.Ascending(cols[i].Path...))
		} else {
			sc = append(sc, parquet.NullsFirst(parquet.Descending(cols[i].Path...)))
		}
	}
	return []parquet.WriterOption{parquet.SortingWriterConfig(parquet.SortingColumns(sc...))}
}

func produce(c Case, cols []ref.Column, rows []ref.V) ([]byte, error) {
	schema := pq.BuildSchema(&c.Schema)
	dstOpts := append([]parquet.WriterOption{schema}, pq.Options(c.Opts, cols, "")...)
	dstOpts = append(dstOpts, c.sortingOption(cols)...)
	if _, err := parquet.NewWriterConfig(dstOpts...); err != nil {
		return nil, err
	}
	var out bytes.Buffer
	w := parquet.NewWriter(&out, dstOpts...)
	if c.Path == "WriteRows" {
		if err := pq.ApplyOps(w, pq.Rows(&c.Schema, cols, rows), c.Ops); err != nil {
			return nil, err
		}
	} else {
		so := c.SrcOpts
		if c.Path == "WriteRowGroup(file,same-config)" {
			so = c.Opts
		}
		src, err := pq.WriteFile(&c.Schema, cols, rows, so, c.Ops)
		if err != nil {
			return nil, err
		}
		f, err := pq.Open(src)
		if err != nil {
			return nil, err
		}
		for _, rg := range f.RowGroups() {
			if _, err := w.WriteRowGroup(rg); err != nil {
				return nil, err
			}
		}
	}
	if err := w.Close(); err != nil {
		return nil, err
	}
	return out.Bytes(), nil
}

// statValue decodes a statistics / column-index bound (PLAIN without length prefix).
func statValue(l ref.Leaf, b []byte) (ref.LV, error) {
	switch l.Phys {
	case ref.Boolean:
		if len(b) != 1 {
			return ref.LV{}, fmt.Errorf("boolean bound of %d bytes", len(b))
		}
		return ref.LV{I: int64(b[0] & 1)}, nil
	case ref.Int32, ref.Float:
		if len(b) != 4 {
			return ref.LV{}, fmt.Errorf("32-bit bound of %d bytes", len(b))
		}
		return ref.LV{I: int64(int32(binary.LittleEndian.Uint32(b)))}, nil
	case ref.Int64, ref.Double:
		if len(b) != 8 {
			return ref.LV{}, fmt.Errorf("64-bit bound of %d bytes", len(b))
		}
		return ref.LV{I: int64(binary.LittleEndian.Uint64(b))}, nil
	}
	return ref.LV{B: b}, nil
}

type unit struct {
	what   string
	values []ref.LV // non-null values of the unit
}

// checkBounds verifies min <= v <= max for all non-NaN values.
func checkBounds(l ref.Leaf, u unit, minB, maxB []byte, feat string) *kit.Failure {
	if l.Order == ref.OrderNone {
		return nil
	}
	mn, err := statValue(l, minB)
	if err != nil {
		return kit.Failf("c05/bound-format"+feat, "%s: min: %v", u.what, err)
	}
	mx, err := statValue(l, maxB)
	if err != nil {
		return kit.Failf("c05/bound-format"+feat, "%s: max: %v", u.what, err)
	}
	for _, v := range u.values {
		if ref.IsNaN(l, v.I) {
			continue
		}
		// a NaN bounds nothing: it is only the bound of a unit holding nothing but NaN
		if (l.Phys == ref.Float || l.Phys == ref.Double) && (ref.IsNaN(l, mn.I) || ref.IsNaN(l, mx.I)) {
			return kit.Failf("c05/nan-bound-with-values"+feat, "%s: the recorded bounds are NaN although the unit holds the value %v", u.what, v)
		}
		if c, ok := ref.Compare(l, v.I, v.B, mn.I, mn.B); ok && c < 0 {
			return kit.Failf("c05/min-not-lower-bound"+feat, "%s: value %v is below the recorded min %v", u.what, v, mn)
		}
		if c, ok := ref.Compare(l, v.I, v.B, mx.I, mx.B); ok && c > 0 {
			return kit.Failf("c05/max-not-upper-bound"+feat, "%s: value %v is above the recorded max %v", u.what, v, mx)
		}
	}
	return nil
}

// bufferIndex checks the column indexes of a Buffer holding the rows.
func bufferIndex(c Case, cols []ref.Column, rows []ref.V) *kit.Failure {
	if len(rows) == 0 {
		return nil
	}
	b := parquet.NewBuffer(pq.BuildSchema(&c.Schema))
	if _, err := b.WriteRows(pq.Rows(&c.Schema, cols, rows)); err != nil {
		return nil
	}
	streams := ref.ShredRows(&c.Schema, rows)
	for ci, cc := range b.ColumnChunks() {
		l := cols[ci].Leaf
		if l.Order == ref.OrderNone {
			continue
		}
		ix, err := cc.ColumnIndex()
		if err != nil || ix == nil || ix.NumPages() != 1 {
			continue
		}
		var vals []ref.LV
		nulls := int64(0)
		for _, e := range streams[ci] {
			if e.Null {
				nulls++
			} else {
				vals = append(vals, e)
			}
		}
		feat := fmt.Sprintf("{leaf=%s,buffer}", leafClass(l))
		where := fmt.Sprintf("Buffer column %d (%s %s)", ci, ref.PathString(cols[ci].Path), l.ID)
		if ix.NullCount(0) != nulls {
			return kit.Failf("c05/null-count"+feat, "%s: the column index counts %d nulls, the column holds %d", where, ix.NullCount(0), nulls)
		}
		if ix.NullPage(0) != (len(vals) == 0) {
			return kit.Failf("c05/null-page"+feat, "%s: NullPage is %v with %d non-null values", where, ix.NullPage(0), len(vals))
		}
		if len(vals) == 0 {
			continue
		}
		mn, mx := pq.FromValue(l, ix.MinValue(0)), pq.FromValue(l, ix.MaxValue(0))
		for _, v := range vals {
			if ref.IsNaN(l, v.I) {
				continue
			}
			if cmp, ok := ref.Compare(l, v.I, v.B, mn.I, mn.B); ok && cmp < 0 {
				return kit.Failf("c05/min-not-lower-bound"+feat, "%s: value %v is below the min %v of the column index", where, v, mn)
			}
			if cmp, ok := ref.Compare(l, v.I, v.B, mx.I, mx.B); ok && cmp > 0 {
				return kit.Failf("c05/max-not-upper-bound"+feat, "%s: value %v is above the max %v of the column index", where, v, mx)
			}
		}
	}
	return nil
}

func histogram(levels []int, max int) []int64 {
	h := make([]int64, max+1)
	for _, l := range levels {
		h[l]++
	}
	return h
}

func sameHist(rec []ref.TVal, want []int64) bool {
	if len(rec) != len(want) {
		return false
	}
	for i := range rec {
		if rec[i].I != want[i] {
			return false
		}
	}
	return true
}

func runCase(c Case, o *kit.Obs) *kit.Failure {
	cols := ref.Columns(&c.Schema)
	rows := c.Plan.ExpandWith(&c.Schema)
	if c.Lead > 0 {
		gen.LeadEmpty(&c.Schema, rows, c.Lead)
		o.Class("lead-empty")
	}
	if len(c.Carry) == 4 && c.Carry[0] > 0 && c.Carry[1] > 0 && c.Carry[2] > 1 {
		gen.Carry(&c.Schema, rows, c.Carry[0], c.Carry[1], c.Carry[2], c.Carry[3] != 0)
		o.Class("carry-bounds")
	}
	if len(c.Mono) == 4 {
		gen.Mono(&c.Schema, rows, c.Mono[0], c.Mono[1], c.Mono[2], c.Mono[3] != 0)
		o.Class("monotone-wrapping")
	}
	data, err := produce(c, cols, rows)
	if err != nil {
		o.Rejected()
		o.Class("write-error")
		return nil
	}
	// the same rows in an in-memory buffer: the column index its chunks offer (one page per column)
	// is held to the same rule as the index of a file
	if fl := bufferIndex(c, cols, rows); fl != nil {
		return fl
	}
	info, is := c02.Verify(data, c02.Expect{Cols: cols, Streams: ref.ShredRows(&c.Schema, rows)})
	if is != nil {
		// structural problems belong to C02; counts (null counts, null pages) are also C05's
		return kit.Failf("c05/structure/"+is.Rule, "%s", is.Msg)
	}
	f := info.File
	nullPages, truncated, nan, multiPage := 0, 0, 0, false
	knownHits := 0
	skipped := map[int]bool{}
	for _, i := range c.Opts.SkipBounds {
		skipped[i] = true
	}
	if c.Path != "WriteRows" {
		for _, i := range c.SrcOpts.SkipBounds {
			skipped[i] = true
		}
	}
	for gi := range f.RowGroups {
		rg := &f.RowGroups[gi]
		// sorting metadata must be what was declared
		rec := rg.V.List(4)
		if len(rec) > len(c.Sorting) {
			return kit.Failf("c05/sorting-columns", "row group %d records %d sorting columns, %d were declared", gi, len(rec), len(c.Sorting))
		}
		for k, sc := range rec {
			wantDesc, wantNF := k%2 == 1, k%2 == 1
			if int(sc.Int(1, -1)) != c.Sorting[k] || (sc.Int(2, 0) != 0) != wantDesc || (sc.Int(3, 0) != 0) != wantNF {
				return kit.Failf("c05/sorting-columns", "row group %d sorting column %d is (col %d, desc %v, nulls first %v), declared (col %d, desc %v, nulls first %v)",
					gi, k, sc.Int(1, -1), sc.Int(2, 0) != 0, sc.Int(3, 0) != 0, c.Sorting[k], wantDesc, wantNF)
			}
		}
		for ci := range rg.Chunks {
			ch := &rg.Chunks[ci]
			col := cols[ci]
			l := col.Leaf
			feat := fmt.Sprintf("{leaf=%s,path=%s}", leafClass(l), c.Path)
			where := fmt.Sprintf("row group %d column %d (%s %s)", gi, ci, ref.PathString(col.Path), l.ID)
			var chunkVals []ref.LV
			var dataPages []*ref.PPage
			var allRep, allDef []int
			for pi := range ch.Pages {
				p := &ch.Pages[pi]
				if p.Type == 2 {
					continue
				}
				dataPages = append(dataPages, p)
				chunkVals = append(chunkVals, p.Values...)
				allRep = append(allRep, p.Rep...)
				allDef = append(allDef, p.Def...)
				for _, v := range p.Values {
					if ref.IsNaN(l, v.I) {
						nan++
					}
				}
				if p.Stats != nil && p.Stats.Has(5) && p.Stats.Has(6) && len(p.Values) > 0 {
					if fl := checkBounds(l, unit{fmt.Sprintf("%s page at %d (header statistics)", where, p.Offset), p.Values}, p.Stats.Bytes(6), p.Stats.Bytes(5), feat); fl != nil {
						return fl
					}
				}
			}
			if len(dataPages) >= 3 {
				multiPage = true
			}
			if st, ok := ch.Meta.Field(12); ok && st.Has(5) && st.Has(6) && len(chunkVals) > 0 {
				if fl := checkBounds(l, unit{where + " (chunk statistics)", chunkVals}, st.Bytes(6), st.Bytes(5), feat); fl != nil {
					return fl
				}
			}
			// size statistics histograms
			if ss, ok := ch.Meta.Field(16); ok {
				if h := ss.List(2); len(h) > 0 && !sameHist(h, histogram(allRep, col.MaxRep)) {
					return kit.Failf("c05/rep-histogram"+feat, "%s: repetition_level_histogram %v, counted %v", where, ints(h), histogram(allRep, col.MaxRep))
				}
				if h := ss.List(3); len(h) > 0 && !sameHist(h, histogram(allDef, col.MaxDef)) {
					return kit.Failf("c05/def-histogram"+feat, "%s: definition_level_histogram %v, counted %v", where, ints(h), histogram(allDef, col.MaxDef))
				}
			}
			// column index
			if !ch.Top.Has(6) || ch.Top.Int(6, 0) == 0 {
				continue
			}
			off, ln := ch.Top.Int(6, 0), ch.Top.Int(7, 0)
			cix, _, err := ref.ReadThriftStruct(data[off : off+ln])
			if err != nil {
				return kit.Failf("c05/structure/column-index", "%s: %v", where, err)
			}
			np, mins, maxs := cix.List(1), cix.List(2), cix.List(3)
			if len(np) != len(dataPages) {
				continue // C02 reports it
			}
			var prevMin, prevMax *ref.LV
			order := cix.Int(4, 0)
			for i, p := range dataPages {
				if np[i].I != 0 {
					nullPages++
					continue
				}
				if len(p.Values) == 0 {
					continue
				}
				if l.IsBytes() && c.Opts.IndexLimit > 0 && (len(maxs[i].B) < maxLen(p.Values) || len(mins[i].B) < maxLen(p.Values)) {
					truncated++
				}
				if fl := checkBounds(l, unit{fmt.Sprintf("%s page %d (column index)", where, i), p.Values}, mins[i].B, maxs[i].B, feat); fl != nil {
					if skipped[ci] {
						// bounds were skipped on request, yet the column index records zero placeholders as bounds
						fl.Sig = "c05/skipped-bounds-recorded-as-placeholders"
						if kit.KnownSig("C05", fl.Sig) {
							knownHits++
							break
						}
					}
					return fl
				}
				if l.Order != ref.OrderNone && order != 0 {
					mn, _ := statValue(l, mins[i].B)
					mx, _ := statValue(l, maxs[i].B)
					if prevMin != nil {
						c1, ok1 := ref.Compare(l, prevMin.I, prevMin.B, mn.I, mn.B)
						c2, ok2 := ref.Compare(l, prevMax.I, prevMax.B, mx.I, mx.B)
						if ok1 && ok2 {
							if order == 1 && (c1 > 0 || c2 > 0) {
								return kit.Failf("c05/false-ascending"+feat, "%s: boundary_order ASCENDING but page %d bounds are below the previous non-null page", where, i)
							}
							if order == 2 && (c1 < 0 || c2 < 0) {
								return kit.Failf("c05/false-descending"+feat, "%s: boundary_order DESCENDING but page %d bounds are above the previous non-null page", where, i)
							}
						}
					}
					prevMin, prevMax = &mn, &mx
				}
			}
			if h := cix.List(6); len(h) > 0 {
				var want []int64
				for _, p := range dataPages {
					want = append(want, histogram(p.Rep, col.MaxRep)...)
				}
				if !sameHist(h, want) {
					return kit.Failf("c05/page-rep-histograms"+feat, "%s: column index repetition_level_histograms %v, counted %v", where, ints(h), want)
				}
			}
			if h := cix.List(7); len(h) > 0 {
				var want []int64
				for _, p := range dataPages {
					want = append(want, histogram(p.Def, col.MaxDef)...)
				}
				if !sameHist(h, want) {
					return kit.Failf("c05/page-def-histograms"+feat, "%s: column index definition_level_histograms %v, counted %v", where, ints(h), want)
				}
			}
		}
	}
	o.Class("path-" + c.Path)
	o.ClassIf(knownHits > 0, "known-finding-tolerated:skipped-bounds")
	o.ClassIf(nullPages > 0, "null-page")
	o.ClassIf(truncated > 0, "truncated-bound")
	o.ClassIf(nan > 0, "nan")
	o.ClassIf(multiPage, "pages>=3")
	if multiPage && (nullPages > 0 || truncated > 0 || nan > 0) {
		o.NonTrivial()
	}
	return nil
}

func maxLen(vs []ref.LV) int {
	m := 0
	for _, v := range vs {
		if len(v.B) > m {
			m = len(v.B)
		}
	}
	return m
}

func ints(vs []ref.TVal) []int64 {
	out := make([]int64, len(vs))
	for i, v := range vs {
		out[i] = v.I
	}
	return out
}

func leafClass(l ref.Leaf) string {
	switch l.Order {
	case ref.OrderUnsigned:
		return "unsigned"
	case ref.OrderFloat:
		return "float"
	case ref.OrderDecBytes:
		return "decimal-bytes"
	case ref.OrderBytes:
		if l.Phys == ref.FLBA {
			return "flba"
		}
		return "bytes"
	case ref.OrderNone:
		return "unordered"
	case ref.OrderBool:
		return "bool"
	}
	return "signed"
}

var spec = &kit.Spec[Case]{
	Property: "C05",
	Name:     "stats",
	Rule: "files over ≤4-leaf schemas drawn from 38 leaf types (signed/unsigned ints, floats with NaN/-0/±Inf, byte arrays with long 0xFF prefixes, decimals on int/bytes/fixed, uuid, INT96), required/optional/repeated, small pages, " +
		"ColumnIndexSizeLimit in {default,1,2,16,64,1<<20}, stats options, declared sorting columns, written directly or re-written through WriteRowGroup from a file with the same/different configuration (verbatim copy keeps the source statistics); " +
		"the independent decoder of C02 yields the true values per page; every recorded min_value/max_value (page header, chunk statistics, column index) must bound the non-null non-NaN values under the reference comparator of the column's order, " +
		"null counts/null pages/level histograms must equal the recount, a claimed boundary order must hold, sorting metadata must be the declaration. Non-trivial = a chunk with ≥3 pages and (an all-null page, a truncated bound or a NaN).",
	Assumptions: []string{
		"deprecated min/max fields are not checked against an order (documented as possibly wrong for unsigned columns)",
		"bounds that are themselves NaN compare as unordered and are accepted; INT96 bounds are not checked (no defined order)",
		"is_min_value_exact / is_max_value_exact are not asserted",
	},
	Gen: genCase,
	Run: runCase,
}

func TestProp(t *testing.T) { kit.Both(t, spec) }
