package c14

import (
	"bytes"
	"errors"
	"fmt"
	"io"
	"testing"
	"time"

	"github.com/parquet-go/parquet-go"
	"pgregory.net/rapid"

	"verifharness/c02"
	"verifharness/gen"
	"verifharness/kit"
	"verifharness/pq"
	"verifharness/ref"
	"verifharness/typed"
)

func TestMain(m *testing.M) { kit.Main(m) }

type Case struct {
	Schema ref.Node       `json:"schema"`
	Plan   gen.RowPlan    `json:"plan"`
	Opts   gen.WriterOpts `json:"opts"`
	Ops    []gen.Op       `json:"ops"`
	Enc    int            `json:"enc,omitempty"` // 0 none, 1 encrypted footer, 2 signed plaintext footer
	Short  bool           `json:"short"`         // failing sink reports io.ErrShortWrite instead of its own error
	Stride int            `json:"stride"`        // offsets tried: every Stride-th (1 = all)
	Phase  int            `json:"phase"`
	// Transient: the sink fails once and accepts every later write.
	Transient bool `json:"transient,omitempty"`
	// Wrap: the rows reach the writer through a row-writer wrapper ("" none | filter | transform | multi | dedupe).
	Wrap string `json:"wrap,omitempty"`
	// Big: one row group whose columns hold tens of kilobytes (several chunks of a pooled page buffer).
	Big bool `json:"big,omitempty"`
}

func genCase(t *rapid.T) Case {
	var c Case
	c.Schema = gen.Schema(t, gen.SchemaOpts{MaxDepth: 2, MaxLeaves: 3, PerLeafEnc: true, PerLeafCodec: true, EncFor: pq.ValidEncodings, Codecs: []string{"none", "snappy", "gzip", "zstd"}})
	cols := ref.Columns(&c.Schema)
	c.Plan = gen.Rows(t, &c.Schema, 5, 120, gen.ValueOpts{Style: gen.SmallDom, Leaf: gen.Opts{MaxBytes: 10}})
	c.Opts = gen.WriterOptions(t, cols, gen.OptsBias{SmallPages: true, EncFor: pq.ValidEncodings, Codecs: []string{"", "snappy"}})
	c.Ops = gen.WriteOps(t, c.Plan.NumRows())
	c.Enc = []int{0, 0, 0, 1, 2}[rapid.IntRange(0, 4).Draw(t, "enc")]
	c.Short = rapid.Bool().Draw(t, "short")
	c.Stride = kit.Pick([]int{1, 1, 3, 7}, []int{1})[rapid.IntRange(0, kit.Pick(3, 0)).Draw(t, "stride")]
	c.Phase = rapid.IntRange(0, 6).Draw(t, "phase")
	c.Transient = rapid.IntRange(0, 2).Draw(t, "transient") == 0
	c.Wrap = []string{"", "", "", "filter", "transform", "multi", "dedupe"}[rapid.IntRange(0, 6).Draw(t, "wrap")]
	if c.Wrap != "" && rapid.Bool().Draw(t, "wrapaim") {
		// an error that only the wrapper's WriteRows sees: unbuffered writer, sink failing once
		// (row groups flushed from inside WriteRows)
		c.Transient, c.Opts.WriteBuf, c.Opts.MaxRows = true, -1, int64([]int{3, 7, 20}[rapid.IntRange(0, 2).Draw(t, "wrapmr")])
	}
	if rapid.IntRange(0, 5).Draw(t, "big") == 0 {
		c.Big = true
		c.Plan = gen.RowsAtLeast(t, &c.Schema, 6, 500, 700, gen.ValueOpts{Style: gen.Mixed, Leaf: gen.Opts{MaxBytes: 200}})
		c.Plan.Uniq = true
		c.Ops, c.Opts.MaxRows, c.Opts.PageBuf = nil, 0, []int{0, 4096}[rapid.IntRange(0, 1).Draw(t, "bigpb")]
	}
	return c
}

type sink struct {
	buf       bytes.Buffer
	limit     int
	short     bool
	n         int
	transient bool // fail once, then accept everything
	failed    bool
}

var errSink = errors.New("verif: injected sink failure")

func (s *sink) Write(p []byte) (int, error) {
	if s.transient && s.failed {
		s.buf.Write(p)
		s.n += len(p)
		return len(p), nil
	}
	room := s.limit - s.n
	if room >= len(p) {
		s.buf.Write(p)
		s.n += len(p)
		return len(p), nil
	}
	if room < 0 {
		room = 0
	}
	s.buf.Write(p[:room])
	s.n += room
	s.failed = true
	if s.short {
		return room, io.ErrShortWrite
	}
	return room, errSink
}

// writeTo runs the whole write history against w; it returns the first error
// reported by Write/Flush/Close (Close is always called).
// shortWrites is the number of short-count-nil-error WriteRows calls of the last writeTo.
var shortWrites int

// lastCloseErr is what Close returned in the last writeTo (also when an earlier call had failed).
var lastCloseErr error

func writeTo(c Case, cols []ref.Column, rows []parquet.Row, out io.Writer, tmp string) (err error, panicked any) {
	defer func() {
		if r := recover(); r != nil {
			panicked = r
		}
	}()
	schema := pq.BuildSchema(&c.Schema)
	opts := append([]parquet.WriterOption{schema}, pq.Options(c.Opts, cols, tmp)...)
	if c.Enc != 0 {
		opts = append(opts, parquet.WithEncryption(&parquet.EncryptionConfig{FooterKey: []byte("0123456789abcdef"), EncryptedFooter: c.Enc == 1, FileIdentifier: []byte("verif-id")}))
	}
	w := parquet.NewWriter(out, opts...)
	short := 0
	werr := pq.ApplyOps(wrapped{Writer: w, rw: wrapRows(c.Wrap, w), short: &short}, rows, c.Ops)
	cerr := w.Close()
	shortWrites = short
	lastCloseErr = cerr
	if werr != nil {
		return werr, nil
	}
	return cerr, nil
}

// wrapped sends WriteRows through a row-writer wrapper; Flush and Close go to the writer.
type wrapped struct {
	*parquet.Writer
	rw    parquet.RowWriter
	short *int // number of WriteRows calls that returned fewer rows than given and a nil error
}

// WriteRows reports a short count with a nil error as a full write (counting it): the
// property asks for a non-nil error from some call, a short count alone is not one.
func (w wrapped) WriteRows(rows []parquet.Row) (int, error) {
	n, err := w.rw.WriteRows(rows)
	if err == nil && n < len(rows) {
		*w.short++
		return len(rows), nil
	}
	return n, err
}

func wrapRows(kind string, w *parquet.Writer) parquet.RowWriter {
	switch kind {
	case "filter":
		return parquet.FilterRowWriter(w, func(parquet.Row) bool { return true })
	case "transform":
		return parquet.TransformRowWriter(w, func(dst, src parquet.Row) (parquet.Row, error) { return append(dst, src...), nil })
	case "multi":
		return parquet.MultiRowWriter(w)
	case "dedupe":
		return parquet.DedupeRowWriter(w, func(a, b parquet.Row) int { return 1 }) // never equal: nothing is dropped
	}
	return w
}

// boundedStride keeps the number of fault positions per case bounded (by case
// count and size, never by wall clock): file-backed pools create temp files
// per column and row group, so they get fewer positions.
func boundedStride(c Case, size int) int {
	max := kit.Pick(500, 2000)
	if c.Opts.Pool == "file" {
		max /= 8
	}
	stride := c.Stride
	if need := (size + max - 1) / max; need > stride {
		stride = need
	}
	if stride < 1 {
		stride = 1
	}
	return stride
}

func regionOf(pf *ref.PFile, off int64) string {
	if pf == nil {
		return "encrypted-file"
	}
	if off < 4 {
		return "magic"
	}
	if off >= pf.FooterPos {
		return "footer"
	}
	for gi := range pf.RowGroups {
		for ci := range pf.RowGroups[gi].Chunks {
			c := &pf.RowGroups[gi].Chunks[ci]
			if off >= c.Start && off < c.End {
				return "pages"
			}
		}
	}
	return "bloom-or-index"
}

func runSink(c Case, o *kit.Obs) *kit.Failure {
	cols := ref.Columns(&c.Schema)
	rows := pq.Rows(&c.Schema, cols, c.Plan.ExpandWith(&c.Schema))
	tmp, cleanup := pq.TempDir(c.Opts)
	defer cleanup()
	var clean bytes.Buffer
	err, p := writeTo(c, cols, rows, &clean, tmp)
	if p != nil {
		return kit.Failf("c14/sink/panic-without-fault", "panic: %v", p)
	}
	if err != nil {
		o.Rejected()
		return nil
	}
	size := clean.Len()
	pf, _ := ref.ParseFile(clean.Bytes())
	if pf != nil {
		for gi := range pf.RowGroups {
			for ci := range pf.RowGroups[gi].Chunks {
				pf.WalkChunk(&pf.RowGroups[gi].Chunks[ci])
			}
		}
	}
	feat := fmt.Sprintf("{writebuf=%d,pool=%s,defer=%v,enc=%d}", c.Opts.WriteBuf, c.Opts.Pool, c.Opts.DeferBloom, c.Enc)
	regions := map[string]bool{}
	stride := boundedStride(c, size)
	var offsets []int
	for L := c.Phase % stride; L < size; L += stride {
		offsets = append(offsets, L)
	}
	if stride > 1 { // the first and last 16 offsets are always tried (magic, footer length, trailing magic)
		for L := 0; L < 16 && L < size; L++ {
			offsets = append(offsets, L)
		}
		for L := size - 16; L < size; L++ {
			if L >= 16 {
				offsets = append(offsets, L)
			}
		}
	}
	for _, L := range offsets {
		s := &sink{limit: L, short: c.Short, transient: c.Transient}
		err, p := writeTo(c, cols, rows, s, tmp)
		if p != nil {
			return kit.Failf("c14/sink/panic"+feat, "sink failing at offset %d of %d (%s): panic: %v", L, size, regionOf(pf, int64(L)), p)
		}
		if err == nil {
			return kit.Failf("c14/sink/error-absorbed"+feat+"{region="+regionOf(pf, int64(L))+"}", "sink accepted only %d of %d bytes (failure inside %s) but Write/Flush/Close all returned nil (%d WriteRows calls returned a short count with a nil error)", L, size, regionOf(pf, int64(L)), shortWrites)
		}
		if lastCloseErr == nil && c.Enc == 0 {
			// an earlier call reported the failure and Close, called after it, claims success:
			// then what the sink holds must at least be a well-formed file
			if _, is := c02.Verify(s.buf.Bytes(), c02.Expect{}); is != nil {
				return kit.Failf("c14/sink/close-nil-on-broken-file"+feat+"{region="+regionOf(pf, int64(L))+"}", "the sink failed at offset %d of %d (inside %s), a call reported %q, and Close then returned nil although the %d bytes the sink holds are not a well-formed file: %s: %s",
					L, size, regionOf(pf, int64(L)), err, s.buf.Len(), is.Rule, is.Msg)
			}
			o.Metric("close_nil_after_failure_wellformed", 1)
		}
		regions[regionOf(pf, int64(L))] = true
		o.Metric("sink_offsets_tried", 1)
	}
	// a sink that accepts everything: nil error and identical bytes
	s := &sink{limit: size + 10}
	if err, p := writeTo(c, cols, rows, s, tmp); err != nil || p != nil {
		return kit.Failf("c14/sink/spurious-error"+feat, "sink with room for the whole file: err=%v panic=%v", err, p)
	}
	if c.Enc == 0 && !bytes.Equal(s.buf.Bytes(), clean.Bytes()) {
		return kit.Failf("c14/sink/bytes-differ"+feat, "same history produced different bytes through the counting sink")
	}
	for r := range regions {
		o.Class("sink-region-" + r)
	}
	o.ClassIf(stride == 1, "exhaustive-offsets")
	o.ClassIf(c.Transient, "transient-failure")
	o.ClassIf(c.Wrap != "", "through-"+c.Wrap+"-row-writer")
	o.ClassIf(c.Big, "big-row-group")
	if len(regions) >= 3 || c.Enc != 0 {
		o.NonTrivial()
	}
	return nil
}

var sinkSpec = &kit.Spec[Case]{
	Property: "C14",
	Name:     "sink",
	Rule: "a small generated file (≤3 leaves, ≤120 rows, all option combinations incl. WriteBufferSize 0/64/1000/default, chunk and file-backed page buffer pools, bloom filters immediate/deferred/gzip, several row groups, optionally encrypted with an encrypted or signed plaintext footer) " +
		"is first written fault-free (size S); then the same Write/Flush/Close history is replayed against a sink that accepts exactly L bytes and then returns (k<len(p), err) with err either its own error or io.ErrShortWrite, " +
		"(in a third of the cases the sink fails only once and accepts every later write; in a sixth the file is one row group of 500-700 rows with values up to 200 bytes, so page buffers span several pooled chunks) for every L < S (or every k-th for large files; metrics.sink_offsets_tried counts them): some call must return non-nil and nothing may panic, and when Close, called after the failure was reported, returns nil, the bytes the sink holds must be a well-formed file for the independent walker of C02 (unencrypted cases); with room for S bytes the result must be nil and byte-identical. " +
		"Non-trivial = the tried offsets fall in at least 3 of the regions magic / pages / bloom-or-index / footer.",
	Assumptions: []string{"only contract-respecting sinks (a short count always comes with a non-nil error)"},
	Gen:         genCase,
	Run:         runSink,
	CaseTimeout: 15 * time.Minute,
}

func TestPropSink(t *testing.T) { kit.Both(t, sinkSpec) }

// ---- truncation and source faults ---------------------------------------------------------

// limitedReader serves only the first n bytes (short reads get io.EOF /
// io.ErrUnexpectedEOF as io.ReaderAt requires a non-nil error with a short count).
type limitedReader struct {
	data []byte
	n    int
}

func (r *limitedReader) ReadAt(p []byte, off int64) (int, error) {
	if off >= int64(r.n) {
		return 0, io.EOF
	}
	k := copy(p, r.data[off:r.n])
	if k < len(p) {
		return k, io.EOF
	}
	return k, nil
}

// faultyReader fails its i-th call.
type faultyReader struct {
	data  []byte
	calls int
	fail  int  // call index to fail (-1 never)
	short bool // short count + error instead of 0 + error
	kind  int  // 0 errSource | 1 an error wrapping io.EOF (a dropped connection) | 2 a plain io.EOF (the source ends early)
}

var errSource = errors.New("verif: injected source failure")
var errWrappedEOF = fmt.Errorf("verif: connection lost: %w", io.EOF)

func (r *faultyReader) ReadAt(p []byte, off int64) (int, error) {
	i := r.calls
	r.calls++
	if i == r.fail {
		err := []error{errSource, errWrappedEOF, io.EOF}[r.kind]
		if r.short && len(p) > 1 && off < int64(len(r.data)) {
			k := copy(p[:len(p)/2], r.data[off:])
			return k, err
		}
		return 0, err
	}
	if off >= int64(len(r.data)) {
		return 0, io.EOF
	}
	k := copy(p, r.data[off:])
	if k < len(p) {
		return k, io.EOF
	}
	return k, nil
}

// readAll opens and reads everything; it returns the rows delivered and the first error.
func readAll(r io.ReaderAt, size int64, cols []ref.Column, opts ...parquet.FileOption) (rows []parquet.Row, err error, panicked any) {
	defer func() {
		if rec := recover(); rec != nil {
			panicked = rec
		}
	}()
	f, err := parquet.OpenFile(r, size, opts...)
	if err != nil {
		return nil, err, nil
	}
	for _, rg := range f.RowGroups() {
		rr := rg.Rows()
		got, err := readRowsStrict(rr, 50)
		rr.Close()
		rows = append(rows, got...)
		if err != nil {
			return rows, err, nil
		}
	}
	// the column-level page readers (Column.Pages spans the row groups) must see the same failures:
	// they either fail or deliver every value of their column
	if err := readColumnPages(f, cols, len(rows)); err != nil {
		return rows, err, nil
	}
	// touching the lazily loaded metadata is part of "reading the file"
	for _, rg := range f.RowGroups() {
		for _, cc := range rg.ColumnChunks() {
			if _, err := cc.OffsetIndex(); err != nil && !errors.Is(err, parquet.ErrMissingOffsetIndex) {
				return rows, err, nil
			}
			if bf := cc.BloomFilter(); bf != nil {
				if _, err := bf.Check(parquet.Int32Value(1)); err != nil {
					return rows, err, nil
				}
			}
		}
	}
	return rows, nil, nil
}

// readRowsStrict drains a row reader; only io.EOF itself is the end (a source
// error that wraps io.EOF, like a dropped connection, is a failure).
func readRowsStrict(r parquet.RowReader, batch int) ([]parquet.Row, error) {
	var out []parquet.Row
	buf := make([]parquet.Row, batch)
	zero := 0
	for {
		n, err := r.ReadRows(buf)
		for _, row := range buf[:n] {
			out = append(out, row.Clone())
		}
		if err == io.EOF {
			return out, nil
		}
		if err != nil {
			return out, err
		}
		if n == 0 {
			if zero++; zero > 3 {
				return out, fmt.Errorf("ReadRows returned 0, nil repeatedly")
			}
		} else {
			zero = 0
		}
	}
}

// errIncompleteColumn marks a column page reader that ended cleanly before its column was complete.
type errIncompleteColumn struct {
	col       int
	rows, num int64
}

func (e *errIncompleteColumn) Error() string {
	return fmt.Sprintf("Column.Pages of column %d ended with io.EOF after %d of %d rows", e.col, e.rows, e.num)
}

func readColumnPages(f *parquet.File, cols []ref.Column, numRows int) error {
	for ci := range cols {
		col := f.Root()
		for _, name := range cols[ci].Path {
			if col = col.Column(name); col == nil {
				return nil
			}
		}
		pages := col.Pages()
		rows := int64(0)
		for {
			p, err := pages.ReadPage()
			if err != nil {
				pages.Close()
				if err == io.EOF { // the end is io.EOF itself: an error that wraps it (a dropped connection) is a failure
					break
				}
				return err
			}
			vals := make([]parquet.Value, p.NumValues())
			if _, err := p.Values().ReadValues(vals); err != nil && !errors.Is(err, io.EOF) {
				parquet.Release(p)
				pages.Close()
				return err
			}
			rows += p.NumRows()
			parquet.Release(p)
		}
		if rows != f.NumRows() {
			return &silentLoss{&errIncompleteColumn{col: ci, rows: rows, num: f.NumRows()}}
		}
	}
	return nil
}

// silentLoss wraps a defect detected by the harness itself (not an error reported by the library).
type silentLoss struct{ err error }

func (s *silentLoss) Error() string { return s.err.Error() }

func prefixOK(cols []ref.Column, want [][][]ref.LV, got []parquet.Row) string {
	if len(got) > len(want) {
		return fmt.Sprintf("%d rows delivered, only %d were written", len(got), len(want))
	}
	for i, row := range got {
		s, err := pq.Streams(cols, []parquet.Row{row})
		if err != nil {
			return err.Error()
		}
		if d := pq.DiffStreams(cols, want[i], s); d != "" {
			return fmt.Sprintf("row %d: %s", i, d)
		}
	}
	return ""
}

func runRead(c Case, o *kit.Obs) *kit.Failure {
	cols := ref.Columns(&c.Schema)
	vrows := c.Plan.ExpandWith(&c.Schema)
	data, err := pq.WriteFile(&c.Schema, cols, vrows, c.Opts, c.Ops)
	if err != nil {
		o.Rejected()
		return nil
	}
	want, err := ref.SplitRows(ref.ShredRows(&c.Schema, vrows))
	if err != nil {
		return kit.Failf("harness/split", "%v", err)
	}
	size := len(data)
	pf, _ := ref.ParseFile(data)
	if pf != nil {
		for gi := range pf.RowGroups {
			for ci := range pf.RowGroups[gi].Chunks {
				pf.WalkChunk(&pf.RowGroups[gi].Chunks[ci])
			}
		}
	}
	// fault-free baseline
	base := &faultyReader{data: data, fail: -1}
	rows, err, p := readAll(base, int64(size), cols)
	if p != nil || err != nil {
		return kit.Failf("c14/read/baseline", "fault-free read failed: err=%v panic=%v", err, p)
	}
	if d := prefixOK(cols, want, rows); d != "" || len(rows) != len(want) {
		return kit.Failf("c14/read/baseline", "fault-free read returned wrong rows (%d of %d): %s", len(rows), len(want), d)
	}
	ncalls := base.calls
	regions := map[string]bool{}
	// 1. truncation: every strict prefix, opened with its own length and with the true length
	stride := boundedStride(c, size)
	var points []int
	for n := c.Phase % stride; n < size; n += stride {
		points = append(points, n)
	}
	// aimed: the file ends exactly where a page starts, or between a page header and its body
	// (a read that begins there gets zero bytes and a plain io.EOF)
	if pf != nil {
		aimed := 0
		for gi := range pf.RowGroups {
			for ci := range pf.RowGroups[gi].Chunks {
				for pi := range pf.RowGroups[gi].Chunks[ci].Pages {
					pg := &pf.RowGroups[gi].Chunks[ci].Pages[pi]
					if aimed < kit.Pick(60, 400) && pg.Offset > 0 && int(pg.BodyOffset) < size {
						points = append(points, int(pg.Offset), int(pg.BodyOffset))
						aimed += 2
					}
				}
			}
		}
		o.Metric("truncation_at_page_boundaries", aimed)
	}
	for _, n := range points {
		for mode := 0; mode < 2; mode++ {
			var rows []parquet.Row
			var err error
			var p any
			if mode == 0 {
				rows, err, p = readAll(bytes.NewReader(data[:n]), int64(n), cols)
			} else {
				rows, err, p = readAll(&limitedReader{data: data, n: n}, int64(size), cols)
			}
			what := []string{"opened with its own length", "served under the true size"}[mode]
			var sl *silentLoss
			if errors.As(err, &sl) {
				return kit.Failf("c14/truncation/column-pages-silent-loss", "prefix of %d/%d bytes %s: %v", n, size, what, sl)
			}
			if p != nil {
				return kit.Failf("c14/truncation/panic{region="+regionOf(pf, int64(n))+"}", "prefix of %d/%d bytes %s: panic: %v", n, size, what, p)
			}
			if err == nil {
				return kit.Failf("c14/truncation/accepted{region="+regionOf(pf, int64(n))+"}", "prefix of %d/%d bytes %s: OpenFile and a complete read reported no error (%d rows)", n, size, what, len(rows))
			}
			if d := prefixOK(cols, want, rows); d != "" {
				return kit.Failf("c14/truncation/altered-rows", "prefix of %d/%d bytes %s: rows delivered before the error are not a prefix of the written rows: %s", n, size, what, d)
			}
			o.Metric("truncation_lengths_tried", 1)
		}
		regions[regionOf(pf, int64(n))] = true
	}
	// 2. source faults: every ReadAt call of the baseline, failing outright or with a short count
	for i := 0; i < ncalls; i++ {
		for mode := 0; mode < 6; mode++ {
			short := mode%2 == 1
			src := &faultyReader{data: data, fail: i, short: short, kind: mode / 2}
			rows, err, p := readAll(src, int64(size), cols)
			var sl *silentLoss
			if errors.As(err, &sl) {
				return kit.Failf("c14/source/column-pages-silent-loss", "ReadAt call %d of %d failing (short=%v kind=%d): %v", i, ncalls, short, mode/2, sl)
			}
			if p != nil {
				return kit.Failf("c14/source/panic", "ReadAt call %d of %d failing (short=%v kind=%d): panic: %v", i, ncalls, short, mode/2, p)
			}
			if d := prefixOK(cols, want, rows); d != "" {
				return kit.Failf("c14/source/altered-rows", "ReadAt call %d of %d failing (short=%v kind=%d): delivered rows differ from the written ones: %s (err=%v)", i, ncalls, short, mode/2, d, err)
			}
			if err == nil && len(rows) != len(want) {
				return kit.Failf("c14/source/missing-rows", "ReadAt call %d of %d failing (short=%v kind=%d): read completed without error with %d of %d rows", i, ncalls, short, mode/2, len(rows), len(want))
			}
			if err == nil {
				o.Metric("source_faults_survived_with_complete_rows", 1)
			}
			o.Metric("source_faults_tried", 1)
		}
	}
	for r := range regions {
		o.Class("trunc-region-" + r)
	}
	if len(regions) >= 3 && ncalls >= 3 {
		o.NonTrivial()
	}
	return nil
}

var readSpec = &kit.Spec[Case]{
	Property: "C14",
	Name:     "read",
	Rule: "for a small generated file of size S: (1) every strict prefix length n < S (or every 3rd/7th in some quick cases), opened both as a file of n bytes and as a source that serves only n bytes under size S: " +
		"OpenFile or the complete read (all row groups, offset indexes, bloom filters) must return an error, must not panic, and rows delivered before the error must be a prefix of the written rows; " +
		"(2) every ReadAt call index of a fault-free open+read is made to fail, with (0, err) and with a short count + err: no panic, delivered rows are a prefix of the truth, and a nil error is only acceptable with the complete correct rows. " +
		"Non-trivial = truncation points in ≥3 file regions and ≥3 ReadAt calls.",
	Assumptions: []string{"only contract-respecting sources (short count ⇒ non-nil error)", "memory blow-up on garbage footer lengths is out of scope (exit 2 if the shard's memory cap is hit)"},
	Gen:         genCase,
	Run:         runRead,
	CaseTimeout: 15 * time.Minute,
}

func TestPropRead(t *testing.T) { kit.Both(t, readSpec) }

var _ = typed.ErrSink
