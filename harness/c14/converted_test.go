package c14

import (
	"bytes"
	"fmt"
	"io"
	"runtime"
	"testing"

	"github.com/parquet-go/parquet-go"
	"pgregory.net/rapid"

	"verifharness/kit"
)

// ConvCase: a file read through a target schema that adds a column inside a
// repeated group (its levels are mirrored from a sibling column, read through a
// second page reader), column-wise (MultiRowGroup over the converted row group)
// or row-wise; every ReadAt call of the fault-free read is made to fail once.
type ConvCase struct {
	Rows    int    `json:"rows"`
	Lens    []int  `json:"lens"` // elements per list (0 or 1), cycled
	PageBuf int    `json:"pagebuf"`
	Via     string `json:"via"` // MultiRowGroup(converted).Rows | converted.Rows | NewReader(schema)
	Batch   int    `json:"batch"`
	Kind    int    `json:"kind"` // error kind of the source (see faultyReader)
	Short   bool   `json:"short"`
	ReadBuf int    `json:"readbuf"` // ReadBufferSize (0: default): small buffers mean many ReadAt calls
}

func genConvCase(t *rapid.T) ConvCase {
	c := ConvCase{
		Rows:    rapid.IntRange(1, 400).Draw(t, "rows"),
		PageBuf: []int{64, 256, 1024}[rapid.IntRange(0, 2).Draw(t, "pagebuf")],
		Via:     []string{"NewRowGroupRowReader(converted)", "NewRowGroupRowReader(converted)", "MultiRowGroup(converted).Rows", "converted.Rows", "NewReader(schema)"}[rapid.IntRange(0, 4).Draw(t, "via")],
		Batch:   []int{1, 7, 64, 1000}[rapid.IntRange(0, 3).Draw(t, "batch")],
		Kind:    rapid.IntRange(0, 2).Draw(t, "kind"),
		Short:   rapid.Bool().Draw(t, "short"),
	}
	if rapid.IntRange(0, 3).Draw(t, "long") == 0 {
		// (not more: a column-wise read of a converted row group keeps every page of the mirrored
		// sibling alive until it is closed, several MiB per thousand one-row pages)
		c.Rows = rapid.IntRange(400, 1100).Draw(t, "rowslong")
	}
	c.ReadBuf = []int{0, 256, 1024}[rapid.IntRange(0, 2).Draw(t, "readbuf")]
	for n := rapid.IntRange(1, 5).Draw(t, "nlens"); n > 0; n-- {
		c.Lens = append(c.Lens, rapid.IntRange(0, 1).Draw(t, "len"))
	}
	return c
}

func runConvCase(c ConvCase, o *kit.Obs) *kit.Failure {
	if len(c.Lens) == 0 || c.Rows <= 0 {
		return kit.Failf("harness/bad-case", "empty")
	}
	elem := func(extra bool) parquet.Node {
		g := parquet.Group{"x": parquet.Int(64)}
		if extra {
			g["y"] = parquet.Optional(parquet.Int(64))
		}
		return parquet.Repeated(g)
	}
	src := parquet.NewSchema("t", parquet.Group{"id": parquet.Int(64), "l": elem(false)})
	tgt := parquet.NewSchema("t", parquet.Group{"id": parquet.Int(64), "l": elem(true)})
	var buf bytes.Buffer
	w := parquet.NewWriter(&buf, src, parquet.PageBufferSize(c.PageBuf))
	for i := 0; i < c.Rows; i++ {
		row := parquet.Row{parquet.Int64Value(int64(i)).Level(0, 0, 0)}
		if c.Lens[i%len(c.Lens)] == 0 {
			row = append(row, parquet.NullValue().Level(0, 0, 1))
		} else {
			row = append(row, parquet.Int64Value(int64(1000+i)).Level(0, 1, 1))
		}
		if _, err := w.WriteRows([]parquet.Row{row}); err != nil {
			return kit.Failf("c14/converted/write", "%v", err)
		}
	}
	if err := w.Close(); err != nil {
		return kit.Failf("c14/converted/write", "%v", err)
	}
	data := buf.Bytes()
	// read returns the number of rows delivered (each checked) and the first error
	read := func(r io.ReaderAt) (n int, err error, bad string) {
		defer func() {
			if p := recover(); p != nil {
				err = fmt.Errorf("panic: %v", p)
				bad = err.Error()
			}
		}()
		var fo []parquet.FileOption
		if c.ReadBuf > 0 {
			fo = append(fo, parquet.ReadBufferSize(c.ReadBuf))
		}
		f, err := parquet.OpenFile(r, int64(len(data)), fo...)
		if err != nil {
			return 0, err, ""
		}
		var rows parquet.Rows
		switch c.Via {
		case "NewReader(schema)":
			rows = parquet.NewReader(f, tgt)
		default:
			conv, err := parquet.Convert(tgt, src)
			if err != nil {
				return 0, err, "Convert: " + err.Error()
			}
			var rgs []parquet.RowGroup
			for _, rg := range f.RowGroups() {
				rgs = append(rgs, parquet.ConvertRowGroup(rg, conv))
			}
			switch c.Via {
			case "converted.Rows":
				rows = rgs[0].Rows()
			case "NewRowGroupRowReader(converted)":
				rows = parquet.NewRowGroupRowReader(rgs[0]) // the column chunks of the converted row group, read in lockstep
			default:
				rows = parquet.MultiRowGroup(rgs...).Rows()
			}
		}
		defer rows.Close()
		b := make([]parquet.Row, c.Batch)
		for {
			k, rerr := rows.ReadRows(b)
			for _, row := range b[:k] {
				// id, x of the row; y must be null
				var id, x int64 = -1, -1
				hasX := false
				for _, v := range row {
					switch v.Column() {
					case 0:
						id = v.Int64()
					case 1:
						if !v.IsNull() {
							x, hasX = v.Int64(), true
						}
					case 2:
						if !v.IsNull() {
							return n, nil, fmt.Sprintf("row %d: the added column holds %v", n, v)
						}
					}
				}
				wantX := c.Lens[n%len(c.Lens)] == 1
				if id != int64(n) || hasX != wantX || (hasX && x != int64(1000+n)) {
					return n, nil, fmt.Sprintf("row %d read as %+v", n, row)
				}
				n++
			}
			if rerr != nil {
				if rerr == io.EOF {
					return n, nil, ""
				}
				return n, rerr, ""
			}
			if k == 0 {
				return n, fmt.Errorf("no progress"), ""
			}
		}
	}
	base := &faultyReader{data: data, fail: -1}
	n, err, bad := read(base)
	feat := fmt.Sprintf("{via=%s,short=%v,kind=%d}", c.Via, c.Short, c.Kind)
	if bad != "" || err != nil || n != c.Rows {
		// the fault-free read is not this check's subject (C12 judges conversions)
		o.Class("baseline-not-clean")
		return nil
	}
	ncalls := base.calls
	for i := 0; i < ncalls; i++ {
		src := &faultyReader{data: data, fail: i, short: c.Short, kind: c.Kind}
		var m0, m1 runtime.MemStats
		runtime.ReadMemStats(&m0)
		n, err, bad := read(src)
		runtime.ReadMemStats(&m1)
		if grown := m1.TotalAlloc - m0.TotalAlloc; grown > 256<<20 {
			// (the file is a few tens of KiB: a failed read must surface as an error, not as an
			// attempt to allocate the size found in whatever was taken for a page header)
			return kit.Failf("c14/converted/allocation"+feat, "ReadAt call %d of %d failing (short=%v kind=%d): reading the %d-byte file allocated %d MiB (err=%v)", i, ncalls, c.Short, c.Kind, len(data), grown>>20, err)
		}
		if bad != "" {
			return kit.Failf("c14/converted/altered-rows"+feat, "ReadAt call %d of %d failing (short=%v kind=%d): %s", i, ncalls, c.Short, c.Kind, bad)
		}
		if err == nil && n != c.Rows {
			return kit.Failf("c14/converted/missing-rows"+feat, "ReadAt call %d of %d failing (short=%v kind=%d): the read ended without an error after %d of %d rows", i, ncalls, c.Short, c.Kind, n, c.Rows)
		}
		o.Metric("source_faults_tried", 1)
	}
	o.Class("via-" + c.Via)
	if ncalls >= 4 {
		o.NonTrivial()
	}
	return nil
}

var convSpec = &kit.Spec[ConvCase]{
	Property: "C14",
	Name:     "converted",
	Rule: "1-400 (a quarter: 400-1100) rows {id, repeated group l{x}} (lists of 0 or 1 element, small pages, read buffers of 256 / 1024 bytes or default) read through a target schema that adds an optional column y inside the repeated group — column-wise through NewRowGroupRowReader / MultiRowGroup over the converted row groups, through the converted row group's Rows(), through NewReader(file, schema) — while every ReadAt call of the fault-free read fails once (own error, an error wrapping io.EOF, a plain io.EOF; outright or with a short count): " +
		"the read reports an error or delivers every row (each compared), and no faulted read of these small files allocates more than 256 MiB. Non-trivial = at least 4 ReadAt calls.",
	Assumptions: []string{"lists of at most one element: the chunk synthesized for an added column under a repeated group is wrong for longer lists (known family F36), which C12 judges"},
	Gen:         genConvCase,
	Run:         runConvCase,
}

func TestPropConverted(t *testing.T) { kit.Both(t, convSpec) }
