package c14

import (
	"bytes"
	"fmt"
	"runtime/debug"
	"testing"
	"time"

	"github.com/parquet-go/parquet-go"
	"pgregory.net/rapid"

	"verifharness/gen"
	"verifharness/kit"
	"verifharness/pq"
	"verifharness/ref"
)

// CopyCase: a source file whose reader fails at a given ReadAt call (or serves
// only a prefix under the true size) while Writer.WriteRowGroup copies its row
// groups (verbatim when the destination has the source's configuration,
// re-encoded when its codec differs).
type CopyCase struct {
	Case
	DstCodec string `json:"dstcodec"` // "" = same options as the source (verbatim copy), else another codec
	Via      string `json:"via,omitempty"` // "" WriteRowGroup | "CopyRows" | "ReadRowsFrom": the rows travel through a row reader
}

func genCopy(t *rapid.T) CopyCase {
	c := CopyCase{Case: genCase(t)}
	c.Plan = gen.RowsAtLeast(t, &c.Schema, 5, 20, 150, gen.ValueOpts{Style: gen.SmallDom, Leaf: gen.Opts{MaxBytes: 10}})
	c.Ops = gen.WriteOps(t, c.Plan.NumRows())
	c.Opts.Pool = ""
	c.DstCodec = []string{"", "", "zstd", "none"}[rapid.IntRange(0, 3).Draw(t, "dstcodec")]
	c.Via = []string{"", "", "CopyRows", "ReadRowsFrom"}[rapid.IntRange(0, 3).Draw(t, "via")]
	return c
}

// copyFrom opens the source and copies every row group; it reports the first
// error of OpenFile / WriteRowGroup / Close and the bytes written.
func copyFrom(c CopyCase, cols []ref.Column, src interface {
	ReadAt([]byte, int64) (int, error)
}, size int64) (out []byte, err error, panicked any) {
	defer func() {
		if r := recover(); r != nil {
			panicked = fmt.Sprintf("%v\n%s", r, debug.Stack())
		}
	}()
	f, err := parquet.OpenFile(src, size)
	if err != nil {
		return nil, err, nil
	}
	dst := c.Opts
	if c.DstCodec != "" {
		dst.Codec = c.DstCodec
	}
	var buf bytes.Buffer
	w := parquet.NewWriter(&buf, append([]parquet.WriterOption{pq.BuildSchema(&c.Schema)}, pq.Options(dst, cols, "")...)...)
	var werr error
	switch c.Via {
	case "CopyRows":
		r := parquet.NewReader(f)
		_, werr = parquet.CopyRows(w, r)
		r.Close()
	case "ReadRowsFrom":
		for _, rg := range f.RowGroups() {
			rows := rg.Rows()
			_, werr = w.ReadRowsFrom(rows)
			rows.Close()
			if werr != nil {
				break
			}
		}
	default:
		for _, rg := range f.RowGroups() {
			if _, werr = w.WriteRowGroup(rg); werr != nil {
				break
			}
		}
	}
	cerr := w.Close()
	if werr != nil {
		return buf.Bytes(), werr, nil
	}
	return buf.Bytes(), cerr, nil
}

func runCopy(c CopyCase, o *kit.Obs) *kit.Failure {
	cols := ref.Columns(&c.Schema)
	vrows := c.Plan.ExpandWith(&c.Schema)
	data, err := pq.WriteFile(&c.Schema, cols, vrows, c.Opts, c.Ops)
	if err != nil {
		o.Rejected()
		return nil
	}
	want, err := ref.SplitRows(ref.ShredRows(&c.Schema, vrows))
	if err != nil {
		return kit.Failf("harness/split", "%v", err)
	}
	size := int64(len(data))
	feat := fmt.Sprintf("{copy,dst=%s,via=%s}", map[bool]string{true: "same-config", false: "other-codec"}[c.DstCodec == ""], c.Via)
	check := func(what string, out []byte, err error, p any) *kit.Failure {
		if p != nil {
			return kit.Failf("c14/copy/panic"+feat, "%s: panic: %v", what, p)
		}
		if err != nil {
			return nil
		}
		// no error reported: the destination must be the complete copy
		rows, rerr, rp := readAll(bytes.NewReader(out), int64(len(out)), cols)
		if rp != nil || rerr != nil {
			return kit.Failf("c14/copy/silent-corruption"+feat, "%s: OpenFile, WriteRowGroup and Close reported no error, but the output cannot be read back: err=%v panic=%v", what, rerr, rp)
		}
		if d := prefixOK(cols, want, rows); d != "" || len(rows) != len(want) {
			return kit.Failf("c14/copy/silent-loss"+feat, "%s: no error reported, the output holds %d of %d rows %s", what, len(rows), len(want), d)
		}
		return nil
	}
	base := &faultyReader{data: data, fail: -1}
	out, err, p := copyFrom(c, cols, base, size)
	if err != nil || p != nil {
		o.Rejected() // the destination configuration does not accept the source (not a fault case)
		return nil
	}
	if f := check("fault-free copy", out, err, p); f != nil {
		return f
	}
	ncalls := base.calls
	for i := 0; i < ncalls; i++ {
		for mode := 0; mode < 6; mode++ {
			short := mode%2 == 1
			out, err, p := copyFrom(c, cols, &faultyReader{data: data, fail: i, short: short, kind: mode / 2}, size)
			if f := check(fmt.Sprintf("source ReadAt call %d of %d failing (short=%v kind=%d)", i, ncalls, short, mode/2), out, err, p); f != nil {
				return f
			}
			if err == nil {
				o.Metric("source_faults_survived_with_complete_copy", 1)
			}
			o.Metric("source_faults_tried", 1)
		}
	}
	// a source that ends early (EOF) under the true size: every Stride-th length
	stride := boundedStride(c.Case, int(size)) * 3
	for n := c.Phase % stride; n < int(size); n += stride {
		out, err, p := copyFrom(c, cols, &limitedReader{data: data, n: n}, size)
		if f := check(fmt.Sprintf("source serving only %d of %d bytes", n, size), out, err, p); f != nil {
			return f
		}
		o.Metric("truncated_sources_tried", 1)
	}
	o.Class(map[bool]string{true: "verbatim-copy-config", false: "re-encode-config"}[c.DstCodec == ""])
	o.Class("via-" + c.Via)
	if ncalls >= 3 {
		o.NonTrivial()
	}
	return nil
}

var copySpec = &kit.Spec[CopyCase]{
	Property: "C14",
	Name:     "copy",
	Rule: "a small generated source file is copied with Writer.WriteRowGroup into a destination with the same configuration (verbatim copy path) or another codec (re-encode path); every ReadAt call index of the fault-free open+copy is made to fail ((0, err) and short count + err), " +
		"and the source is also made to end early (io.EOF) at every k-th length under its true size. Oracle: no panic; when OpenFile, every WriteRowGroup and Close all return nil, the destination must read back as the complete written rows. Non-trivial = ≥3 ReadAt calls.",
	Assumptions: []string{"only contract-respecting sources (short count ⇒ non-nil error)"},
	Scale:       0.5,
	Gen:         genCopy,
	Run:         runCopy,
	CaseTimeout: 15 * time.Minute,
}

func TestPropCopy(t *testing.T) { kit.Both(t, copySpec) }
