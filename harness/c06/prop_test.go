package c06

import (
	"bytes"
	"crypto/sha256"
	"encoding/hex"
	"fmt"
	"sort"
	"testing"

	"github.com/parquet-go/parquet-go"
	"pgregory.net/rapid"

	"verifharness/gen"
	"verifharness/kit"
	"verifharness/pq"
	"verifharness/ref"
)

func TestMain(m *testing.M) { kit.Main(m) }

// Page is one planned page: either all-null or a list of non-null values plus
// some interleaved nulls.
type Page struct {
	Nulls  int     `json:"nulls"`
	Values []ref.V `json:"values,omitempty"`
}

type Case struct {
	Leaf   string  `json:"leaf"`
	Limit  int     `json:"limit"`
	Via    string  `json:"via"`              // "indexer" | "writer" | "multi" (writer + row group cuts, index of the MultiRowGroup)
	Splits []int   `json:"splits,omitempty"` // "multi": a row group ends after these page positions
	Pages  []Page  `json:"pages"`
	Probes []ref.V `json:"probes"`
}

var leafIDs = []string{
	"int32", "int64", "int8", "uint8", "uint32", "uint64", "float", "double",
	"bytes", "string", "flba:3", "flba:20", "uuid", "date", "ts:us",
	"dec32:9:2", "dec64:18:4", "decflba:5:10:3", "decbytes:20:5", "bool",
}

func genCase(t *rapid.T) Case {
	c := Case{}
	c.Leaf = gen.LeafID(t, leafIDs, "leaf")
	l := ref.ParseLeaf(c.Leaf)
	c.Limit = []int{1, 2, 4, 16, 64, 1 << 20}[rapid.IntRange(0, 5).Draw(t, "limit")]
	c.Via = []string{"indexer", "indexer", "indexer", "writer", "multi", "buffer"}[rapid.IntRange(0, 5).Draw(t, "via")]
	layout := rapid.IntRange(0, 5).Draw(t, "layout") // 0-2 ascending, 3 descending, 4-5 arbitrary
	st := []gen.Style{gen.Mixed, gen.SmallDom, gen.Wide}[rapid.IntRange(0, 2).Draw(t, "style")]
	o := gen.Opts{NoNaN: true, MaxBytes: 24}
	nvals := rapid.IntRange(1, 24).Draw(t, "nvals")
	vals := make([]ref.V, nvals)
	for i := range vals {
		vals[i] = gen.LeafV(t, l, st, o, "v")
	}
	if layout <= 3 {
		sort.SliceStable(vals, func(i, j int) bool {
			c, _ := ref.Compare(l, vals[i].I, vals[i].B, vals[j].I, vals[j].B)
			if layout == 3 {
				return c > 0
			}
			return c < 0
		})
	}
	// split into pages
	for i := 0; i < len(vals); {
		n := []int{1, 1, 1, 2, 3, 4}[rapid.IntRange(0, 5).Draw(t, "psize")]
		if i+n > len(vals) {
			n = len(vals) - i
		}
		p := Page{Values: vals[i : i+n]}
		if rapid.IntRange(0, 3).Draw(t, "pn") == 0 {
			p.Nulls = rapid.IntRange(1, 3).Draw(t, "pnn")
		}
		c.Pages = append(c.Pages, p)
		i += n
	}
	// perturbations of an ordered layout: repeated leading/trailing pages and a
	// dip somewhere after them (boundary-order detection must notice the dip)
	if layout <= 3 && len(c.Pages) >= 2 {
		if rapid.IntRange(0, 2).Draw(t, "duplead") == 0 {
			k := rapid.IntRange(1, 3).Draw(t, "ndup")
			first := c.Pages[0]
			for i := 0; i < k; i++ {
				c.Pages = append([]Page{first}, c.Pages...)
			}
		}
		if rapid.IntRange(0, 3).Draw(t, "duptail") == 0 {
			c.Pages = append(c.Pages, c.Pages[len(c.Pages)-1])
		}
		switch rapid.IntRange(0, 5).Draw(t, "dip") {
		case 0: // swap two pages
			i := rapid.IntRange(0, len(c.Pages)-1).Draw(t, "si")
			j := rapid.IntRange(0, len(c.Pages)-1).Draw(t, "sj")
			c.Pages[i], c.Pages[j] = c.Pages[j], c.Pages[i]
		case 1: // copy an earlier page to a later position
			i := rapid.IntRange(0, len(c.Pages)-1).Draw(t, "ci")
			j := rapid.IntRange(i, len(c.Pages)).Draw(t, "cj")
			pg := c.Pages[i]
			c.Pages = append(c.Pages[:j], append([]Page{pg}, c.Pages[j:]...)...)
		}
	}
	// insert null pages: aimed (where the zero placeholder keeps the claimed order) and anywhere
	nNull := rapid.IntRange(0, 3).Draw(t, "nnull")
	for k := 0; k < nNull; k++ {
		pos := rapid.IntRange(0, len(c.Pages)).Draw(t, "npos")
		if rapid.IntRange(0, 3).Draw(t, "aim") != 0 {
			pos = aimedNullPos(l, c.Pages, layout == 3, pos)
		}
		np := Page{Nulls: rapid.IntRange(1, 3).Draw(t, "nn")}
		c.Pages = append(c.Pages[:pos], append([]Page{np}, c.Pages[pos:]...)...)
	}
	// probes: present values and neighbours
	seen := map[string]bool{}
	add := func(v ref.V) {
		k := fmt.Sprint(v.I, v.B)
		if !seen[k] && len(c.Probes) < 48 {
			seen[k] = true
			c.Probes = append(c.Probes, v)
		}
	}
	for _, v := range vals {
		add(v)
	}
	nabs := rapid.IntRange(0, 6).Draw(t, "nabs")
	for k := 0; k < nabs; k++ {
		add(gen.LeafV(t, l, st, o, "probe"))
	}
	if c.Via == "multi" && len(c.Pages) >= 2 {
		ns := rapid.IntRange(1, 2).Draw(t, "nsplits")
		for k := 0; k < ns; k++ {
			c.Splits = append(c.Splits, rapid.IntRange(1, len(c.Pages)-1).Draw(t, "split"))
		}
	}
	return c
}

// aimedNullPos returns a position where a page whose recorded bounds are the
// zero placeholder keeps the pages ordered, if there is one (else def).
func aimedNullPos(l ref.Leaf, pages []Page, desc bool, def int) int {
	zero := ref.V{}
	if l.IsBytes() {
		zero.B = make([]byte, l.Len)
	}
	cmpZero := func(v ref.V) int {
		c, _ := ref.Compare(l, v.I, v.B, zero.I, zero.B)
		if desc {
			c = -c
		}
		return c
	}
	// first position such that all pages before are <= zero and all after >= zero
	for pos := 0; pos <= len(pages); pos++ {
		ok := true
		for i, p := range pages {
			for _, v := range p.Values {
				c := cmpZero(v)
				if (i < pos && c > 0) || (i >= pos && c < 0) {
					ok = false
				}
			}
		}
		if ok {
			return pos
		}
	}
	return def
}

func minMax(l ref.Leaf, vs []ref.V) (mn, mx ref.V) {
	mn, mx = vs[0], vs[0]
	for _, v := range vs[1:] {
		if c, _ := ref.Compare(l, v.I, v.B, mn.I, mn.B); c < 0 {
			mn = v
		}
		if c, _ := ref.Compare(l, v.I, v.B, mx.I, mx.B); c > 0 {
			mx = v
		}
	}
	return
}

// bufferIndex: the column index and the type an in-memory Buffer reports for
// its (single page) column chunk.
func bufferIndex(c Case, l ref.Leaf, node parquet.Node) (parquet.ColumnIndex, parquet.Type, error) {
	nulls := 0
	for _, p := range c.Pages {
		nulls += p.Nulls
	}
	n := parquet.Node(parquet.Optional(node))
	def := 1
	if nulls == 0 && c.Limit%4 == 0 {
		n, def = parquet.Required(node), 0
	}
	b := parquet.NewBuffer(parquet.NewSchema("root", parquet.Group{"x": n}))
	for _, p := range c.Pages {
		for i, v := range p.Values {
			if _, err := b.WriteRows([]parquet.Row{{pq.Scalar(l, v.I, v.B).Level(0, def, 0)}}); err != nil {
				return nil, nil, err
			}
			for k := 0; i == 0 && k < p.Nulls; k++ {
				if _, err := b.WriteRows([]parquet.Row{{parquet.NullValue().Level(0, 0, 0)}}); err != nil {
					return nil, nil, err
				}
			}
		}
		for k := 0; len(p.Values) == 0 && k < p.Nulls; k++ {
			if _, err := b.WriteRows([]parquet.Row{{parquet.NullValue().Level(0, 0, 0)}}); err != nil {
				return nil, nil, err
			}
		}
	}
	chunk := b.ColumnChunks()[0]
	ix, err := chunk.ColumnIndex()
	return ix, chunk.Type(), err
}

func buildIndex(c Case, l ref.Leaf, node parquet.Node) (parquet.ColumnIndex, error) {
	typ := node.Type()
	if c.Via == "indexer" {
		ix := typ.NewColumnIndexer(c.Limit)
		for _, p := range c.Pages {
			if len(p.Values) == 0 {
				ix.IndexPage(int64(p.Nulls), int64(p.Nulls), parquet.Value{}, parquet.Value{})
				continue
			}
			mn, mx := minMax(l, p.Values)
			ix.IndexPage(int64(p.Nulls+len(p.Values)), int64(p.Nulls), pq.Scalar(l, mn.I, mn.B), pq.Scalar(l, mx.I, mx.B))
		}
		ci := ix.ColumnIndex()
		return parquet.NewColumnIndex(typ.Kind(), &ci), nil
	}
	// via the writer: one optional column, one explicit Flush per planned page
	schema := parquet.NewSchema("root", parquet.Group{"x": parquet.Optional(node)})
	var buf bytes.Buffer
	w := parquet.NewWriter(&buf, schema, parquet.ColumnIndexSizeLimit(func([]string) int { return c.Limit }))
	cw := w.ColumnWriters()[0]
	for pi, p := range c.Pages {
		var vals []parquet.Value
		// nulls interleaved after the first value (or alone)
		for i, v := range p.Values {
			vals = append(vals, pq.Scalar(l, v.I, v.B).Level(0, 1, 0))
			if i == 0 {
				for k := 0; k < p.Nulls; k++ {
					vals = append(vals, parquet.NullValue().Level(0, 0, 0))
				}
			}
		}
		if len(p.Values) == 0 {
			for k := 0; k < p.Nulls; k++ {
				vals = append(vals, parquet.NullValue().Level(0, 0, 0))
			}
		}
		if _, err := cw.WriteRowValues(vals); err != nil {
			return nil, fmt.Errorf("WriteRowValues: %w", err)
		}
		if err := cw.Flush(); err != nil {
			return nil, fmt.Errorf("Flush: %w", err)
		}
		for _, sp := range c.Splits {
			if c.Via == "multi" && sp == pi+1 {
				if err := w.Flush(); err != nil {
					return nil, fmt.Errorf("Writer.Flush: %w", err)
				}
				break
			}
		}
	}
	if err := w.Close(); err != nil {
		return nil, fmt.Errorf("Close: %w", err)
	}
	f, err := parquet.OpenFile(bytes.NewReader(buf.Bytes()), int64(buf.Len()))
	if err != nil {
		return nil, fmt.Errorf("OpenFile: %w", err)
	}
	if c.Via == "multi" {
		// the index a MultiRowGroup derives from the indexes of its members
		return parquet.MultiRowGroup(f.RowGroups()...).ColumnChunks()[0].ColumnIndex()
	}
	if len(f.RowGroups()) != 1 {
		return nil, fmt.Errorf("want 1 row group, got %d", len(f.RowGroups()))
	}
	return f.RowGroups()[0].ColumnChunks()[0].ColumnIndex()
}

func runCase(c Case, o *kit.Obs) *kit.Failure {
	l := ref.ParseLeaf(c.Leaf)
	node := pq.LeafNode(c.Leaf)
	typ := node.Type()
	var index parquet.ColumnIndex
	var err error
	if c.Via == "buffer" {
		// one page holding everything
		var one Page
		for _, p := range c.Pages {
			one.Nulls += p.Nulls
			one.Values = append(one.Values, p.Values...)
		}
		c.Pages = []Page{one}
		index, typ, err = bufferIndex(c, l, node)
	} else {
		index, err = buildIndex(c, l, node)
	}
	if err != nil {
		return kit.Failf("c06/build-error{via="+c.Via+"}", "building the index failed: %v", err)
	}
	np := index.NumPages()
	if np != len(c.Pages) {
		return kit.Failf("c06/numpages{leaf="+c.Leaf+"}", "index has %d pages, %d were written", np, len(c.Pages))
	}
	// recorded bounds in model form
	type bound struct {
		null   bool
		mn, mx ref.LV
	}
	bounds := make([]bound, np)
	nullNotLast, anyNull, nullsAllFirst := false, false, true
	seenNonNull := false
	for i := 0; i < np; i++ {
		if index.NullPage(i) {
			bounds[i].null = true
			anyNull = true
			if i != np-1 {
				nullNotLast = true
			}
			if seenNonNull {
				nullsAllFirst = false
			}
			if len(c.Pages[i].Values) != 0 {
				return kit.Failf("c06/nullpage-flag", "page %d flagged null but holds values", i)
			}
			continue
		}
		seenNonNull = true
		if len(c.Pages[i].Values) == 0 {
			return kit.Failf("c06/nullpage-flag", "page %d is all null but not flagged", i)
		}
		bounds[i].mn = pq.FromValue(l, index.MinValue(i))
		bounds[i].mx = pq.FromValue(l, index.MaxValue(i))
	}
	contains := func(i int, v ref.V) bool {
		if bounds[i].null {
			return false
		}
		a, _ := ref.Compare(l, bounds[i].mn.I, bounds[i].mn.B, v.I, v.B)
		b, _ := ref.Compare(l, v.I, v.B, bounds[i].mx.I, bounds[i].mx.B)
		return a <= 0 && b <= 0
	}
	ordered := index.IsAscending() || index.IsDescending()
	o.ClassIf(index.IsAscending(), "ascending")
	o.ClassIf(index.IsDescending(), "descending")
	o.ClassIf(anyNull, "has-null-page")
	o.ClassIf(index.IsAscending() && nullNotLast, "ascending+null-not-last")
	o.Class("via-" + c.Via)
	overlap := false
	for i := 1; i < np; i++ {
		if bounds[i].null || bounds[i-1].null {
			continue
		}
		if c, _ := ref.Compare(l, bounds[i].mn.I, bounds[i].mn.B, bounds[i-1].mx.I, bounds[i-1].mx.B); c <= 0 {
			overlap = true
		}
	}
	o.ClassIf(overlap, "overlapping-bounds")
	if (ordered && nullNotLast) || (ordered && overlap) {
		o.NonTrivial()
	}

	// a claimed boundary order must be true of the recorded bounds of the
	// non-null pages (binary search relies on it)
	if ordered {
		prev := -1
		for i := 0; i < np; i++ {
			if bounds[i].null {
				continue
			}
			if prev >= 0 {
				cmn, _ := ref.Compare(l, bounds[prev].mn.I, bounds[prev].mn.B, bounds[i].mn.I, bounds[i].mn.B)
				cmx, _ := ref.Compare(l, bounds[prev].mx.I, bounds[prev].mx.B, bounds[i].mx.I, bounds[i].mx.B)
				if index.IsAscending() && (cmn > 0 || cmx > 0) {
					return kit.Failf("c06/false-ascending{leaf="+l.ID+"}", "index claims ASCENDING but bounds of page %d are below those of page %d", i, prev)
				}
				if index.IsDescending() && (cmn < 0 || cmx < 0) {
					return kit.Failf("c06/false-descending{leaf="+l.ID+"}", "index claims DESCENDING but bounds of page %d are above those of page %d", i, prev)
				}
			}
			prev = i
		}
	}

	type finder struct {
		name string
		f    func(v parquet.Value) int
	}
	finders := []finder{
		{"Search", func(v parquet.Value) int { return parquet.Search(index, v, typ) }},
		{"Find/nulls-last", func(v parquet.Value) int {
			return parquet.Find(index, v, parquet.CompareNullsLast(typ.Compare))
		}},
	}
	if nullsAllFirst {
		finders = append(finders, finder{"Find/nulls-first", func(v parquet.Value) int {
			return parquet.Find(index, v, parquet.CompareNullsFirst(typ.Compare))
		}})
	}
	// claimed order and every search result: compared between the assembly and the portable build
	dg := sha256.New()
	fmt.Fprintf(dg, "%v,%v|", index.IsAscending(), index.IsDescending())
	defer func() { o.Digest(hex.EncodeToString(dg.Sum(nil)[:8])) }()
	for _, probe := range c.Probes {
		first := -1
		for i, p := range c.Pages {
			for _, v := range p.Values {
				if eq, ok := ref.Compare(l, v.I, v.B, probe.I, probe.B); ok && eq == 0 {
					if first < 0 {
						first = i
					}
				}
			}
		}
		pv := pq.Scalar(l, probe.I, probe.B)
		for _, fd := range finders {
			r := fd.f(pv)
			fmt.Fprintf(dg, "%d,", r)
			feat := fmt.Sprintf("{fn=%s,order=%s,nullpages=%s}", fd.name, orderName(index), nullName(anyNull, nullNotLast))
			if r < 0 || r > np {
				return kit.Failf("c06/out-of-range"+feat, "%s returned %d for %d pages", fd.name, r, np)
			}
			if first >= 0 && r > first {
				return kit.Failf("c06/missed-page"+feat, "%s(%v) = %d but the value occurs in page %d (of %d)", fd.name, pv, r, first, np)
			}
			if r < np && !contains(r, probe) {
				return kit.Failf("c06/page-does-not-contain"+feat, "%s(%v) = %d but that page's recorded bounds do not contain the value", fd.name, pv, r)
			}
			if r == np {
				for i := 0; i < np; i++ {
					if contains(i, probe) {
						return kit.Failf("c06/numpages-but-candidate"+feat, "%s(%v) = NumPages but page %d's bounds contain the value", fd.name, pv, i)
					}
				}
			}
		}
	}
	return nil
}

func orderName(ix parquet.ColumnIndex) string {
	switch {
	case ix.IsAscending():
		return "asc"
	case ix.IsDescending():
		return "desc"
	}
	return "unordered"
}

func nullName(any, notLast bool) string {
	switch {
	case !any:
		return "none"
	case notLast:
		return "not-last"
	}
	return "last"
}

var spec = &kit.Spec[Case]{
	Property: "C06",
	Name:     "search",
	Rule: "page plans (sorted ascending / descending / arbitrary values of 20 leaf types split into 1-4 value pages, all-null pages inserted " +
		"where the zero placeholder keeps the claimed order or anywhere, ColumnIndexSizeLimit in {1,2,4,16,64,1<<20}) turned into a column index " +
		"either through Type.NewColumnIndexer/IndexPage/NewColumnIndex, by writing a one-column file with one Flush per page (also cut into row groups and indexed through MultiRowGroup), or by writing everything to a Buffer (one page; searched with the type its column chunk reports); probes = every " +
		"present value plus generated absent ones. Non-trivial = the index claims ASCENDING/DESCENDING and has a null page that is not last, or has equal/overlapping bounds.",
	Assumptions: []string{
		"NaN is kept out of values and probes (no order defined)",
		"Find with CompareNullsFirst is asserted only when every null page precedes every non-null page",
		"bounds passed to IndexPage are the true min/max under the reference comparator, as a correct writer computes them (C05 checks the writer's own bounds)",
	},
	Gen: genCase,
	Run: runCase,
}

func TestProp(t *testing.T) { kit.Both(t, spec) }
