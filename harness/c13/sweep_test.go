package c13

import (
	"errors"
	"fmt"
	"io"
	"testing"

	"github.com/parquet-go/parquet-go"
	"pgregory.net/rapid"

	"verifharness/c02"
	"verifharness/gen"
	"verifharness/kit"
	"verifharness/pq"
	"verifharness/ref"
)

// SweepCase: a small file whose checksummed page bodies are corrupted at EVERY
// byte offset, one fault at a time (the sampled check draws one offset per file).
type SweepCase struct {
	Schema ref.Node       `json:"schema"`
	Plan   gen.RowPlan    `json:"plan"`
	Opts   gen.WriterOpts `json:"opts"`
	Bit    int            `json:"bit"`   // the flipped bit is (Bit + offset) mod 8
	Pages  bool           `json:"pages"` // read through ColumnChunk.Pages instead of RowGroup.Rows
	Skip   bool           `json:"skipindex,omitempty"`
}

func genSweep(t *rapid.T) SweepCase {
	var c SweepCase
	c.Schema = gen.Schema(t, gen.SchemaOpts{MaxDepth: 2, MaxLeaves: 2, PerLeafEnc: true, EncFor: pq.ValidEncodings})
	cols := ref.Columns(&c.Schema)
	c.Plan = gen.RowsAtLeast(t, &c.Schema, 5, 10, 70, gen.ValueOpts{Style: gen.SmallDom, Leaf: gen.Opts{MaxBytes: 8}})
	c.Opts = gen.WriterOptions(t, cols, gen.OptsBias{SmallPages: true, NoBloom: true, EncFor: pq.ValidEncodings})
	c.Opts.Pool, c.Opts.KV = "", nil
	c.Opts.PageBuf = []int{48, 64, 256}[rapid.IntRange(0, 2).Draw(t, "pb")]
	c.Opts.MaxRows = int64([]int{0, 0, 64}[rapid.IntRange(0, 2).Draw(t, "mr")])
	c.Bit = rapid.IntRange(0, 7).Draw(t, "bit")
	c.Pages = rapid.Bool().Draw(t, "pages")
	c.Skip = rapid.IntRange(0, 3).Draw(t, "skipindex") == 0
	return c
}

func runSweep(c SweepCase, o *kit.Obs) *kit.Failure {
	cols := ref.Columns(&c.Schema)
	rows := c.Plan.ExpandWith(&c.Schema)
	data, err := pq.WriteFile(&c.Schema, cols, rows, c.Opts, nil)
	if err != nil {
		o.Rejected()
		return nil
	}
	want := ref.ShredRows(&c.Schema, rows)
	info, is := c02.Verify(data, c02.Expect{Cols: cols, Streams: want})
	if is != nil {
		return kit.Failf("c13/structure/"+is.Rule, "the unmodified file is not well formed: %s", is.Msg)
	}
	wantRows, err := ref.SplitRows(want)
	if err != nil {
		return kit.Failf("harness/split", "%v", err)
	}
	pf := info.File
	var fo []parquet.FileOption
	if c.Skip {
		fo = append(fo, parquet.SkipPageIndex(true))
	}
	bad := append([]byte{}, data...)
	faults, pages := 0, 0
	rgBase := int64(0)
	for gi := range pf.RowGroups {
		rgRows := pf.RowGroups[gi].V.Int(3, 0)
		for ci := range pf.RowGroups[gi].Chunks {
			chunk := &pf.RowGroups[gi].Chunks[ci]
			dictUsed := false
			for _, p := range chunk.Pages {
				if p.Type != 2 && isDictEnc(p.Encoding) {
					dictUsed = true
				}
			}
			for pi := range chunk.Pages {
				page := &chunk.Pages[pi]
				if page.CompSize == 0 || !page.HasCRC || (page.Type == 2 && !dictUsed) {
					continue
				}
				pages++
				for off := 0; off < page.CompSize; off++ {
					pos := int(page.BodyOffset) + off
					bad[pos] ^= 1 << uint((c.Bit+off)%8)
					f, err := pq.Open(bad, fo...)
					if err != nil {
						return kit.Failf("c13/open-error", "opening a file with a corrupted page body failed (the footer is intact): %v", err)
					}
					feat := fmt.Sprintf("{sweep,pages=%v,dict=%v,index=%v}", c.Pages, page.Type == 2, !c.Skip)
					var readErr error
					if c.Pages {
						p := f.RowGroups()[gi].ColumnChunks()[ci].Pages()
						for {
							pg, err := p.ReadPage()
							if err != nil {
								readErr = err
								break
							}
							vals := make([]parquet.Value, pg.NumValues())
							_, verr := pg.Values().ReadValues(vals)
							parquet.Release(pg)
							if verr != nil && !errors.Is(verr, io.EOF) {
								readErr = verr
								break
							}
						}
						p.Close()
					} else {
						r := f.RowGroups()[gi].Rows()
						buf := make([]parquet.Row, 16)
						cursor := int64(0)
						for {
							n, err := r.ReadRows(buf)
							for j := 0; j < n; j++ {
								got, serr := pq.Streams(cols, []parquet.Row{buf[j]})
								if serr != nil || cursor+int64(j) >= rgRows {
									r.Close()
									return kit.Failf("c13/altered-data"+feat, "malformed or surplus row delivered from the corrupted file (%v)", serr)
								}
								if d := pq.DiffStreams(cols, wantRows[rgBase+cursor+int64(j)], got); d != "" {
									r.Close()
									return kit.Failf("c13/altered-data"+feat, "fault at byte %d of page %d (row group %d column %d): row %d delivered altered with no error so far: %s", off, pi, gi, ci, cursor+int64(j), d)
								}
							}
							cursor += int64(n)
							if err != nil {
								readErr = err
								break
							}
							if n == 0 {
								readErr = fmt.Errorf("no progress")
								break
							}
						}
						r.Close()
					}
					bad[pos] = data[pos]
					faults++
					if readErr == nil || errors.Is(readErr, io.EOF) {
						return kit.Failf("c13/corruption-not-reported"+feat, "bit flipped at byte %d of %d of the body of page %d (type %d) of row group %d column %d: the read completed with %v", off, page.CompSize, pi, page.Type, gi, ci, readErr)
					}
					if !errors.Is(readErr, parquet.ErrCorrupted) {
						return kit.Failf("c13/error-not-ErrCorrupted"+feat, "corrupted page body (byte %d of page %d) reported as %q, which is not ErrCorrupted", off, pi, readErr)
					}
				}
			}
		}
		rgBase += rgRows
	}
	o.Metric("faults_enumerated", faults)
	o.Metric("pages_swept", pages)
	o.ClassIf(c.Pages, "via-pages")
	o.ClassIf(!c.Pages, "via-rows")
	if pages >= 2 && faults >= 50 {
		o.NonTrivial()
	}
	return nil
}

var sweepSpec = &kit.Spec[SweepCase]{
	Property: "C13",
	Name:     "sweep",
	Rule: "a tiny generated file (≤2 leaves, 10-70 rows, all codecs/encodings, v1/v2); EVERY byte of EVERY checksummed page body that a read touches (data pages, and dictionary pages referenced by a data page) gets one bit flipped, one fault at a time " +
		"(bit index = generated start + offset mod 8), and the row group is read sequentially through RowGroup.Rows or ColumnChunk.Pages with or without page index. Oracle as in the sampled check: ErrCorrupted, nothing altered delivered before it. " +
		"The fault space of the file (bytes x this bit pattern x this access path) is enumerated completely; metrics count the faults. Non-trivial = ≥2 pages and ≥50 faults.",
	Assumptions: []string{"exhaustive over byte offsets of one file and one single-bit pattern per offset; the set of files, the other 7 bits and the seek paths are sampled by the other sub-check"},
	Scale:       0.2,
	Gen:         genSweep,
	Run:         runSweep,
}

func TestPropSweep(t *testing.T) { kit.Both(t, sweepSpec) }
