package c13

import (
	"bytes"
	"errors"
	"fmt"
	"io"
	"testing"

	"github.com/parquet-go/parquet-go"
	"pgregory.net/rapid"

	"verifharness/c02"
	"verifharness/gen"
	"verifharness/kit"
	"verifharness/pq"
	"verifharness/ref"
)

// WrapCase: a file sorted by a unique int64 key in front of generated columns,
// one page body corrupted, read to the end through one of the row reader
// combinators of the library (merges with a clean copy, filter / transform /
// dedupe / scan / convert wrappers, CopyRows): the corruption must surface as
// an error from the combinator, whatever sits between the caller and the file.
type WrapCase struct {
	Schema  ref.Node       `json:"schema"`
	Plan    gen.RowPlan    `json:"plan"`
	Opts    gen.WriterOpts `json:"opts"`
	Fault   Fault          `json:"fault"`
	Wrapper string         `json:"wrapper"`
	Batch   int            `json:"batch"`
}

var wrappers = []string{
	"MergeRowGroups(corrupt,clean)", "MergeRowGroups(clean,corrupt)", "MergeRowGroups(corrupt,clean,clean)",
	"MergeRowReaders(corrupt,clean)", "MergeRowReaders(Filter(corrupt),clean)", "MergeRowGroups(corrupt,clean)+dedupe",
	"Filter", "Transform", "Transform(Filter)", "Dedupe", "Scan", "ConvertRowReader", "CopyRows(Filter)", "MultiRowGroup",
}

func genWrapCase(t *rapid.T) WrapCase {
	var c WrapCase
	c.Schema = gen.Schema(t, gen.SchemaOpts{MaxDepth: 2, MaxLeaves: 3, PerLeafEnc: true, EncFor: pq.ValidEncodings})
	c.Schema.Children = append([]ref.Node{{Name: "zkey", Rep: "req", Kind: "leaf", Leaf: "int64"}}, c.Schema.Children...)
	cols := ref.Columns(&c.Schema)
	c.Plan = gen.RowsAtLeast(t, &c.Schema, 6, []int{40, 120, 300}[rapid.IntRange(0, 2).Draw(t, "min")], 600, gen.ValueOpts{Style: gen.SmallDom, Leaf: gen.Opts{MaxBytes: 12}})
	c.Opts = gen.WriterOptions(t, cols, gen.OptsBias{SmallPages: true, NoBloom: true, EncFor: pq.ValidEncodings})
	c.Opts.Pool, c.Opts.KV = "", nil
	c.Opts.PageBuf = []int{48, 64, 100, 256, 1024}[rapid.IntRange(0, 4).Draw(t, "pb")]
	c.Opts.MaxRows = 0 // one row group
	c.Fault = Fault{Col: rapid.IntRange(0, len(cols)-1).Draw(t, "fcol"), Page: rapid.IntRange(0, 40).Draw(t, "fpage"), Off: rapid.IntRange(0, 999).Draw(t, "foff")}
	if rapid.Bool().Draw(t, "bit") {
		c.Fault.Mask = []byte{1 << uint(rapid.IntRange(0, 7).Draw(t, "bitn"))}
	} else {
		c.Fault.Mask = []byte{byte(rapid.IntRange(1, 255).Draw(t, "m0")), rapid.Byte().Draw(t, "m1")}
	}
	c.Wrapper = wrappers[rapid.IntRange(0, len(wrappers)-1).Draw(t, "wrapper")]
	c.Batch = []int{1, 7, 64, 200, 1000}[rapid.IntRange(0, 4).Draw(t, "batch")]
	return c
}

// plainReader hides everything but ReadRows.
type plainReader struct{ r parquet.RowReader }

func (p plainReader) ReadRows(rows []parquet.Row) (int, error) { return p.r.ReadRows(rows) }

func runWrapCase(c WrapCase, o *kit.Obs) *kit.Failure {
	cols := ref.Columns(&c.Schema)
	rows := c.Plan.Expand()
	for i := range rows {
		// unique ascending keys: the file is sorted and a merge with its own copy advances in lockstep
		r := rows[i]
		f := append([]ref.V{}, r.F...)
		if len(f) == 0 {
			f = []ref.V{{}}
		}
		f[0] = ref.V{I: int64(i)}
		rows[i] = ref.V{F: f}
	}
	data, err := pq.WriteFile(&c.Schema, cols, rows, c.Opts, nil)
	if err != nil {
		o.Rejected()
		return nil
	}
	info, is := c02.Verify(data, c02.Expect{Cols: cols, Streams: ref.ShredRows(&c.Schema, rows)})
	if is != nil {
		return kit.Failf("c13/structure/"+is.Rule, "the unmodified file is not well formed: %s", is.Msg)
	}
	pf := info.File
	if len(pf.RowGroups) != 1 {
		o.Class("not-one-rowgroup")
		return nil
	}
	chunk := &pf.RowGroups[0].Chunks[c.Fault.Col%len(cols)]
	if len(chunk.Pages) == 0 {
		o.Class("no-pages")
		return nil
	}
	page := &chunk.Pages[c.Fault.Page%len(chunk.Pages)]
	if page.CompSize == 0 || !page.HasCRC {
		o.Class("unprotected-or-empty-page")
		return nil
	}
	bad := append([]byte{}, data...)
	pos := int(page.BodyOffset) + c.Fault.Off*(page.CompSize-1)/999
	for i, m := range c.Fault.Mask {
		if pos+i < int(page.BodyOffset)+page.CompSize {
			bad[pos+i] ^= m
		}
	}
	if pf.CRCOf(page) == crcOf(bad[page.BodyOffset:page.BodyOffset+int64(page.CompSize)]) {
		o.Class("crc-collision")
		return nil
	}
	fb, err := pq.Open(bad)
	if err != nil {
		return kit.Failf("c13/open-error", "%v", err)
	}
	fc, err := pq.Open(data)
	if err != nil {
		return kit.Failf("c13/open-error", "%v", err)
	}
	feat := "{wrapper=" + c.Wrapper + "}"
	sorting := parquet.SortingRowGroupConfig(parquet.SortingColumns(parquet.Ascending("zkey")))
	schema := fb.Schema()
	cmp := schema.Comparator(parquet.Ascending("zkey"))
	corrupt, clean := fb.RowGroups()[0], fc.RowGroups()[0]
	keep := func(parquet.Row) bool { return true }
	ident := func(dst, src parquet.Row) (parquet.Row, error) { return append(dst, src...), nil }

	var rr parquet.RowReader
	var closers []io.Closer
	open := func(rg parquet.RowGroup) parquet.Rows {
		r := rg.Rows()
		closers = append(closers, r)
		return r
	}
	defer func() {
		for _, c := range closers {
			c.Close()
		}
	}()
	want := len(rows)
	var merr error
	switch c.Wrapper {
	case "MergeRowGroups(corrupt,clean)", "MergeRowGroups(clean,corrupt)", "MergeRowGroups(corrupt,clean,clean)", "MergeRowGroups(corrupt,clean)+dedupe":
		in := []parquet.RowGroup{corrupt, clean}
		opts := []parquet.RowGroupOption{sorting}
		switch c.Wrapper {
		case "MergeRowGroups(clean,corrupt)":
			in = []parquet.RowGroup{clean, corrupt}
		case "MergeRowGroups(corrupt,clean,clean)":
			in = append(in, clean)
		case "MergeRowGroups(corrupt,clean)+dedupe":
			opts = []parquet.RowGroupOption{parquet.SortingRowGroupConfig(parquet.SortingColumns(parquet.Ascending("zkey")), parquet.DropDuplicatedRows(true))}
		}
		var m parquet.RowGroup
		if m, merr = parquet.MergeRowGroups(in, opts...); merr == nil {
			rr = open(m)
		}
		want = len(rows) * len(in)
	case "MergeRowReaders(corrupt,clean)":
		rr = parquet.MergeRowReaders([]parquet.RowReader{open(corrupt), open(clean)}, cmp)
		want = 2 * len(rows)
	case "MergeRowReaders(Filter(corrupt),clean)":
		rr = parquet.MergeRowReaders([]parquet.RowReader{parquet.FilterRowReader(open(corrupt), keep), open(clean)}, cmp)
		want = 2 * len(rows)
	case "Filter":
		rr = parquet.FilterRowReader(open(corrupt), keep)
	case "Transform":
		rr = parquet.TransformRowReader(open(corrupt), ident)
	case "Transform(Filter)":
		rr = parquet.TransformRowReader(parquet.FilterRowReader(open(corrupt), keep), ident)
	case "Dedupe":
		rr = parquet.DedupeRowReader(open(corrupt), cmp)
	case "Scan":
		rr = parquet.ScanRowReader(open(corrupt), func(parquet.Row, int64) bool { return true })
	case "ConvertRowReader":
		conv, err := parquet.Convert(schema, schema)
		if err != nil {
			return kit.Failf("c13/convert-error", "%v", err)
		}
		rr = parquet.ConvertRowReader(plainReader{open(corrupt)}, conv)
	case "CopyRows(Filter)":
		var out bytes.Buffer
		w := parquet.NewWriter(&out, schema)
		n, err := parquet.CopyRows(w, parquet.FilterRowReader(open(corrupt), keep))
		if err == nil {
			err = w.Close()
		}
		return judge(c, o, feat, int(n), err, want)
	case "MultiRowGroup":
		rr = open(parquet.MultiRowGroup(clean, corrupt))
		want = 2 * len(rows)
	default:
		return kit.Failf("harness/wrapper", "unknown wrapper %q", c.Wrapper)
	}
	if merr != nil {
		return judge(c, o, feat, 0, merr, want)
	}
	buf := make([]parquet.Row, c.Batch)
	total, idle := 0, 0
	for {
		n, err := rr.ReadRows(buf)
		total += n
		if err != nil {
			return judge(c, o, feat, total, err, want)
		}
		if n == 0 {
			if idle++; idle > 3 {
				return judge(c, o, feat, total, fmt.Errorf("no progress"), want)
			}
		} else {
			idle = 0
		}
		if total > 4*want+10 {
			return kit.Failf("c13/wrapper-surplus"+feat, "%d rows delivered, the inputs hold %d", total, want)
		}
	}
}

func judge(c WrapCase, o *kit.Obs, feat string, total int, err error, want int) *kit.Failure {
	o.Class("wrapper-" + c.Wrapper)
	if err == nil || errors.Is(err, io.EOF) {
		return kit.Failf("c13/corruption-not-reported"+feat, "a page body of the file was altered (column %d, page %d); reading every row through %s ended with %v after %d rows (the inputs hold %d)", c.Fault.Col, c.Fault.Page, c.Wrapper, err, total, want)
	}
	if !errors.Is(err, parquet.ErrCorrupted) {
		return kit.Failf("c13/error-not-ErrCorrupted"+feat, "corrupted page body reported through %s as %q, which is not ErrCorrupted", c.Wrapper, err)
	}
	o.NonTrivial()
	return nil
}

var wrapSpec = &kit.Spec[WrapCase]{
	Property: "C13",
	Name:     "wrappers",
	Rule: "a one-row-group file sorted by a unique key, one page body altered (CRC changes), read to the end through a combinator of the library: 2- and 3-way MergeRowGroups / MergeRowReaders with a clean copy of the same file (equal keys: the inputs advance in lockstep), " +
		"with duplicate dropping, over a FilterRowReader; FilterRowReader, TransformRowReader (also stacked), DedupeRowReader, ScanRowReader, ConvertRowReader, CopyRows from a filtered reader, MultiRowGroup. " +
		"The read must end with an error wrapping ErrCorrupted, never with io.EOF. Non-trivial = every evaluated case (the fault is always on the path of a complete read).",
	Assumptions: []string{"rows delivered before the error are not compared here (the direct access paths of the main sub-check do that)"},
	Gen:         genWrapCase,
	Run:         runWrapCase,
}

func TestPropWrappers(t *testing.T) { kit.Both(t, wrapSpec) }
