package c13

import (
	"bytes"
	"errors"
	"fmt"
	"io"
	"testing"

	"github.com/parquet-go/parquet-go"
	"pgregory.net/rapid"

	"verifharness/c02"
	"verifharness/gen"
	"verifharness/kit"
	"verifharness/pq"
	"verifharness/ref"
)

func TestMain(m *testing.M) { kit.Main(m) }

// Fault is a corruption of one page body.
type Fault struct {
	RG, Col, Page int    // page index within the chunk's page list (dictionary page included)
	Off           int    // per-mille position inside the body
	Mask          []byte // 1-3 bytes XORed at that position
}

type Case struct {
	Schema    ref.Node       `json:"schema"`
	Plan      gen.RowPlan    `json:"plan"`
	Opts      gen.WriterOpts `json:"opts"`
	Fault     Fault          `json:"fault"`
	Access    string         `json:"access"`
	SeekMode  string         `json:"seekmode,omitempty"` // "before" | "inside" | "start"
	SkipIndex bool           `json:"skipindex,omitempty"`
	Async     bool           `json:"async,omitempty"`
	Batch     int            `json:"batch"`
	Retry     bool           `json:"retry,omitempty"` // Rows access: after the error a second reader of the same File reads the page again
}

var accesses = []string{"Rows", "Reader", "Pages", "Rows+seek", "Reader+seek", "Pages+seek", "Rows+seek", "Pages+seek", "WriteRowGroup"}

func genCase(t *rapid.T) Case {
	var c Case
	c.Schema = gen.Schema(t, gen.SchemaOpts{MaxDepth: 2, MaxLeaves: 3, PerLeafEnc: true, EncFor: pq.ValidEncodings})
	cols := ref.Columns(&c.Schema)
	c.Plan = gen.RowsAtLeast(t, &c.Schema, 6, []int{10, 40, 120}[rapid.IntRange(0, 2).Draw(t, "min")], 400, gen.ValueOpts{Style: gen.SmallDom, Leaf: gen.Opts{MaxBytes: 12}})
	c.Plan.Uniq = rapid.Bool().Draw(t, "uniq")
	c.Opts = gen.WriterOptions(t, cols, gen.OptsBias{SmallPages: true, NoBloom: true, EncFor: pq.ValidEncodings})
	c.Opts.Pool, c.Opts.KV = "", nil
	c.Opts.PageBuf = []int{48, 64, 100, 256, 1024}[rapid.IntRange(0, 4).Draw(t, "pb")]
	c.Opts.MaxRows = int64([]int{0, 0, 0, 64, 100}[rapid.IntRange(0, 4).Draw(t, "mr")])
	c.Fault = Fault{
		RG: rapid.IntRange(0, 7).Draw(t, "frg"), Col: rapid.IntRange(0, len(cols)-1).Draw(t, "fcol"),
		Page: []int{0, 0, 1, -1}[rapid.IntRange(0, 3).Draw(t, "fpagek")], // page 0 is the dictionary page when there is one
		Off:  []int{0, 999, 500, 1, 998}[rapid.IntRange(0, 4).Draw(t, "foffk")],
	}
	if c.Fault.Page < 0 {
		c.Fault.Page = rapid.IntRange(0, 30).Draw(t, "fpage")
	}
	if rapid.Bool().Draw(t, "foffr") {
		c.Fault.Off = rapid.IntRange(0, 999).Draw(t, "foff")
	}
	switch rapid.IntRange(0, 3).Draw(t, "mask") {
	case 0:
		c.Fault.Mask = []byte{1 << uint(rapid.IntRange(0, 7).Draw(t, "bit"))}
	case 1:
		c.Fault.Mask = []byte{0xFF}
	case 2:
		c.Fault.Mask = []byte{byte(rapid.IntRange(1, 255).Draw(t, "m0"))}
	default:
		c.Fault.Mask = []byte{byte(rapid.IntRange(1, 255).Draw(t, "m0")), rapid.Byte().Draw(t, "m1"), rapid.Byte().Draw(t, "m2")}
	}
	c.Access = accesses[rapid.IntRange(0, len(accesses)-1).Draw(t, "access")]
	c.SeekMode = []string{"before", "inside", "start", "back", "back", "after-read", "after-read"}[rapid.IntRange(0, 6).Draw(t, "seekmode")]
	c.SkipIndex = rapid.IntRange(0, 3).Draw(t, "skipindex") == 0
	c.Async = rapid.IntRange(0, 3).Draw(t, "async") == 0
	c.Batch = []int{1, 7, 64, 500}[rapid.IntRange(0, 3).Draw(t, "batch")]
	c.Retry = rapid.Bool().Draw(t, "retry")
	return c
}

func isDictEnc(e int) bool { return e == ref.EncRLEDict || e == ref.EncPlainDict }

func runCase(c Case, o *kit.Obs) *kit.Failure {
	cols := ref.Columns(&c.Schema)
	rows := c.Plan.ExpandWith(&c.Schema)
	data, err := pq.WriteFile(&c.Schema, cols, rows, c.Opts, nil)
	if err != nil {
		o.Rejected()
		return nil
	}
	want := ref.ShredRows(&c.Schema, rows)
	info, is := c02.Verify(data, c02.Expect{Cols: cols, Streams: want})
	if is != nil {
		return kit.Failf("c13/structure/"+is.Rule, "the unmodified file is not well formed: %s", is.Msg)
	}
	pf := info.File
	if len(pf.RowGroups) == 0 {
		o.Class("empty")
		return nil
	}
	gi := c.Fault.RG % len(pf.RowGroups)
	ci := c.Fault.Col % len(cols)
	chunk := &pf.RowGroups[gi].Chunks[ci]
	if len(chunk.Pages) == 0 {
		o.Class("no-pages")
		return nil
	}
	pi := c.Fault.Page % len(chunk.Pages)
	page := &chunk.Pages[pi]
	if page.CompSize == 0 {
		o.Class("empty-body")
		return nil
	}
	if !page.HasCRC {
		o.Class("zero-crc-page") // true crc is 0: the reader skips verification by design (2^-32)
		return nil
	}
	// apply the fault
	bad := append([]byte{}, data...)
	pos := int(page.BodyOffset) + c.Fault.Off*(page.CompSize-1)/999
	for i, m := range c.Fault.Mask {
		if pos+i < int(page.BodyOffset)+page.CompSize {
			bad[pos+i] ^= m
		}
	}
	if pf.CRCOf(page) == crcOf(bad[page.BodyOffset:page.BodyOffset+int64(page.CompSize)]) {
		o.Class("crc-collision")
		return nil
	}
	isDict := page.Type == 2
	// rows of this row group covered by the page
	var firstRow, lastRow int64 // [firstRow, lastRow)
	rgRows := pf.RowGroups[gi].V.Int(3, 0)
	if !isDict {
		firstRow, lastRow = page.FirstRowInChunk, page.FirstRowInChunk+int64(page.DecodedRows)
	}
	rgBase := int64(0)
	for i := 0; i < gi; i++ {
		rgBase += pf.RowGroups[i].V.Int(3, 0)
	}

	var fo []parquet.FileOption
	if c.SkipIndex {
		fo = append(fo, parquet.SkipPageIndex(true))
	}
	if c.Async {
		fo = append(fo, parquet.FileReadMode(parquet.ReadModeAsync))
	}
	f, err := pq.Open(bad, fo...)
	if err != nil {
		return kit.Failf("c13/open-error", "opening a file with a corrupted page body failed (the footer is intact): %v", err)
	}
	feat := fmt.Sprintf("{access=%s,dict=%v,index=%v}", c.Access, isDict, !c.SkipIndex)

	// choose the seek target (row within the row group)
	ahead := int64(-1) // "back" mode: row beyond the faulted page visited first
	readFirst := false // "after-read" mode: read at row 0 before the seek
	seek := int64(-1)
	touched := true
	if c.Access == "Rows+seek" || c.Access == "Reader+seek" || c.Access == "Pages+seek" {
		if isDict {
			// any position from which at least one dictionary-encoded data page is still read
			lastDictRow := int64(-1)
			for _, p := range chunk.Pages {
				if p.Type != 2 && isDictEnc(p.Encoding) && p.DecodedRows > 0 {
					lastDictRow = p.FirstRowInChunk + int64(p.DecodedRows) - 1
				}
			}
			if lastDictRow < 0 {
				touched = false // dictionary never needed
				seek = 0
			} else {
				seek = lastDictRow * int64(c.Fault.Off) / 999
			}
		} else {
			switch c.SeekMode {
			case "before":
				seek = firstRow * int64(c.Fault.Off) / 999
			case "back":
				// first a seek beyond the faulted page and a read there, then back into it
				seek = firstRow + (lastRow-firstRow)/2
				if lastRow < rgRows {
					ahead = lastRow + (rgRows-lastRow)*int64(c.Fault.Off)/1000
				}
			case "after-read":
				// first a read at the start of the chunk (an asynchronous reader prefetches
				// ahead of it), then a seek into the faulted page
				seek = firstRow + (lastRow-firstRow)/2
				readFirst = firstRow > 0
			case "start":
				seek = firstRow
			default:
				seek = firstRow + (lastRow-firstRow)/2
			}
			if seek >= lastRow {
				seek = firstRow
			}
		}
		if seek < 0 {
			seek = 0
		}
		if seek >= rgRows {
			o.Class("no-seek-target")
			return nil
		}
	}
	if isDict {
		any := false
		for _, p := range chunk.Pages {
			if p.Type != 2 && isDictEnc(p.Encoding) {
				any = true
			}
		}
		if !any {
			touched = false
		}
	}

	wantRows, err := ref.SplitRows(want)
	if err != nil {
		return kit.Failf("harness/split", "%v", err)
	}
	var readErr error
	delivered := 0
	switch c.Access {
	case "Rows", "Rows+seek":
		r := f.RowGroups()[gi].Rows()
		defer r.Close()
		cursor := int64(0)
		buf := make([]parquet.Row, c.Batch)
		if readFirst {
			n, err := r.ReadRows(buf[:1])
			if errors.Is(err, parquet.ErrCorrupted) {
				readErr = err
				break
			}
			if n == 1 {
				got, serr := pq.Streams(cols, []parquet.Row{buf[0]})
				if serr != nil {
					return kit.Failf("c13/altered-data"+feat, "malformed first row: %v", serr)
				}
				if d := pq.DiffStreams(cols, wantRows[rgBase], got); d != "" {
					return kit.Failf("c13/altered-data"+feat, "row 0 (read before the seek): %s", d)
				}
			}
			o.Class("read-then-seek")
		}
		if ahead >= 0 {
			// reads beyond the faulted page do not touch it: they must succeed with the true rows
			// (with the page index; without it the pages in between are crossed, and checked, on the way)
			if err := r.SeekToRow(ahead); err != nil {
				if errors.Is(err, parquet.ErrCorrupted) {
					readErr = err
					break
				}
				return kit.Failf("c13/unexpected-error"+feat, "SeekToRow(%d) beyond the faulted page: %v", ahead, err)
			}
			n, err := r.ReadRows(buf[:1])
			if errors.Is(err, parquet.ErrCorrupted) {
				readErr = err
				break
			}
			if n == 1 {
				got, serr := pq.Streams(cols, []parquet.Row{buf[0]})
				if serr != nil {
					return kit.Failf("c13/altered-data"+feat, "malformed row beyond the faulted page: %v", serr)
				}
				if d := pq.DiffStreams(cols, wantRows[rgBase+ahead], got); d != "" {
					return kit.Failf("c13/altered-data"+feat, "row %d beyond the faulted page: %s", ahead, d)
				}
			} else if err != nil && !errors.Is(err, io.EOF) {
				return kit.Failf("c13/unexpected-error"+feat, "read at row %d beyond the faulted page: %v", ahead, err)
			}
			o.Class("seek-beyond-then-back")
		}
		if seek >= 0 {
			if err := r.SeekToRow(seek); err != nil {
				readErr = err
				break
			}
			cursor = seek
		}
		for {
			n, err := r.ReadRows(buf)
			for j := 0; j < n; j++ {
				got, serr := pq.Streams(cols, []parquet.Row{buf[j]})
				if serr != nil || cursor+int64(j) >= rgRows {
					return kit.Failf("c13/altered-data"+feat, "malformed or surplus row delivered from the corrupted file (%v)", serr)
				}
				if d := pq.DiffStreams(cols, wantRows[rgBase+cursor+int64(j)], got); d != "" {
					return kit.Failf("c13/altered-data"+feat, "row %d of row group %d delivered with altered values and no error so far: %s", cursor+int64(j), gi, d)
				}
			}
			cursor += int64(n)
			delivered += n
			if err != nil {
				readErr = err
				break
			}
			if n == 0 {
				readErr = fmt.Errorf("no progress")
				break
			}
		}
		// a second reader on the same File (the File caches lazily loaded state): it must fail too,
		// and deliver nothing altered before failing
		if readErr != nil && c.Retry {
			from := firstRow
			if isDict {
				from = 0
			}
			r2 := f.RowGroups()[gi].Rows()
			defer r2.Close()
			var err2 error
			if from > 0 {
				err2 = r2.SeekToRow(from)
			}
			cursor2 := from
			for err2 == nil {
				var n int
				n, err2 = r2.ReadRows(buf)
				for j := 0; j < n; j++ {
					got, serr := pq.Streams(cols, []parquet.Row{buf[j]})
					if serr != nil || cursor2+int64(j) >= rgRows {
						return kit.Failf("c13/altered-data-second-reader"+feat, "malformed or surplus row delivered by a second reader of the same File (%v)", serr)
					}
					if d := pq.DiffStreams(cols, wantRows[rgBase+cursor2+int64(j)], got); d != "" {
						return kit.Failf("c13/altered-data-second-reader"+feat, "a second reader of the same File delivered row %d altered with no error so far: %s", cursor2+int64(j), d)
					}
				}
				cursor2 += int64(n)
				if n == 0 && err2 == nil {
					break
				}
			}
			if touched && (err2 == nil || errors.Is(err2, io.EOF)) {
				return kit.Failf("c13/corruption-not-reported-second-reader"+feat, "the first reader reported %v; a second reader of the same File read rows %d.. to the end with %v", readErr, from, err2)
			}
			o.Class("second-reader")
		}
	case "Reader", "Reader+seek":
		r := parquet.NewReader(f)
		defer r.Close()
		cursor := int64(0)
		if seek >= 0 {
			if err := r.SeekToRow(rgBase + seek); err != nil {
				readErr = err
				break
			}
			cursor = rgBase + seek
		}
		buf := make([]parquet.Row, c.Batch)
		for {
			n, err := r.ReadRows(buf)
			for j := 0; j < n; j++ {
				got, serr := pq.Streams(cols, []parquet.Row{buf[j]})
				if serr != nil || cursor+int64(j) >= int64(len(wantRows)) {
					return kit.Failf("c13/altered-data"+feat, "malformed or surplus row delivered from the corrupted file (%v)", serr)
				}
				if d := pq.DiffStreams(cols, wantRows[cursor+int64(j)], got); d != "" {
					return kit.Failf("c13/altered-data"+feat, "row %d delivered with altered values and no error so far: %s", cursor+int64(j), d)
				}
			}
			cursor += int64(n)
			delivered += n
			if err != nil {
				readErr = err
				break
			}
			if n == 0 {
				readErr = fmt.Errorf("no progress")
				break
			}
		}
	case "WriteRowGroup":
		// the corrupted row group is copied into another file (verbatim when the configuration
		// matches, re-encoded when the codec differs): the copy fails, or whoever reads the copy
		// gets the error or the true rows
		dst := c.Opts
		if c.Batch%2 == 0 {
			dst.Codec = map[string]string{"": "zstd", "zstd": "snappy"}[dst.Codec]
			if dst.Codec == "" {
				dst.Codec = "zstd"
			}
		}
		var out bytes.Buffer
		w := parquet.NewWriter(&out, append([]parquet.WriterOption{pq.BuildSchema(&c.Schema)}, pq.Options(dst, cols, "")...)...)
		_, werr := w.WriteRowGroup(f.RowGroups()[gi])
		cerr := w.Close()
		switch {
		case werr != nil:
			readErr = werr
		case cerr != nil:
			readErr = cerr
		default:
			f2, err := pq.Open(out.Bytes())
			if err != nil {
				readErr = err
				break
			}
			r := parquet.NewReader(f2)
			got, err := pq.ReadAllRows(r, 64)
			r.Close()
			for j := range got {
				s, serr := pq.Streams(cols, got[j:j+1])
				if serr != nil || int64(j) >= rgRows {
					return kit.Failf("c13/altered-data"+feat, "the copy of the corrupted row group holds a malformed or surplus row (%v)", serr)
				}
				if d := pq.DiffStreams(cols, wantRows[rgBase+int64(j)], s); d != "" {
					return kit.Failf("c13/altered-data"+feat, "WriteRowGroup of the corrupted row group reported no error and row %d of the copy reads back altered: %s", j, d)
				}
			}
			delivered = len(got)
			if err == nil && int64(len(got)) != rgRows {
				return kit.Failf("c13/altered-data"+feat, "WriteRowGroup of the corrupted row group reported no error and the copy holds %d of its %d rows", len(got), rgRows)
			}
			if err == nil && touched {
				// every row is there and correct: only possible if the fault did not change any value
				// (e.g. padding bits); the CRC said otherwise, so the copy must have carried the fault
				return kit.Failf("c13/corruption-not-reported"+feat, "WriteRowGroup copied a row group with a corrupted page and neither the copy nor reading it reported anything")
			}
			readErr = err
		}
	default: // Pages
		p := f.RowGroups()[gi].ColumnChunks()[ci].Pages()
		defer p.Close()
		cursor := int64(0)
		if readFirst {
			pg, err := p.ReadPage()
			if errors.Is(err, parquet.ErrCorrupted) {
				readErr = err
				break
			}
			if pg != nil {
				parquet.Release(pg)
			}
			o.Class("read-then-seek")
		}
		if ahead >= 0 {
			if err := p.SeekToRow(ahead); err != nil {
				if errors.Is(err, parquet.ErrCorrupted) {
					readErr = err
					break
				}
				return kit.Failf("c13/unexpected-error"+feat, "Pages.SeekToRow(%d) beyond the faulted page: %v", ahead, err)
			}
			pg, err := p.ReadPage()
			if errors.Is(err, parquet.ErrCorrupted) {
				readErr = err
				break
			}
			if err != nil && !errors.Is(err, io.EOF) {
				return kit.Failf("c13/unexpected-error"+feat, "ReadPage at row %d beyond the faulted page: %v", ahead, err)
			}
			if pg != nil {
				parquet.Release(pg)
			}
			o.Class("seek-beyond-then-back")
		}
		if seek >= 0 {
			if err := p.SeekToRow(seek); err != nil {
				readErr = err
				break
			}
			cursor = seek
		}
		for {
			pg, err := p.ReadPage()
			if err != nil {
				readErr = err
				break
			}
			vals := make([]parquet.Value, pg.NumValues())
			m, verr := pg.Values().ReadValues(vals)
			if verr != nil && !errors.Is(verr, io.EOF) {
				parquet.Release(pg)
				readErr = verr
				break
			}
			nr := pg.NumRows()
			var wantVals []ref.LV
			for _, r := range wantRows[rgBase+cursor : min64(rgBase+cursor+nr, int64(len(wantRows)))] {
				wantVals = append(wantVals, r[ci]...)
			}
			if m != len(wantVals) {
				parquet.Release(pg)
				return kit.Failf("c13/altered-data"+feat, "page at row %d delivered %d values, the true page has %d, no error", cursor, m, len(wantVals))
			}
			for j := 0; j < m; j++ {
				if g := pq.FromValue(cols[ci].Leaf, vals[j]); !pq.NormEqual(cols[ci].Leaf, wantVals[j], g) {
					parquet.Release(pg)
					return kit.Failf("c13/altered-data"+feat, "page at row %d value %d delivered as %v, written %v, no error", cursor, j, g, wantVals[j])
				}
			}
			parquet.Release(pg)
			cursor += nr
			delivered += int(nr)
		}
	}
	o.Class("access-" + c.Access)
	o.ClassIf(isDict, "dictionary-page")
	o.ClassIf(!touched, "page-not-touched")
	codec := chunk.Meta.Int(4, 0)
	o.ClassIf(codec != 0, "compressed")
	if touched {
		if readErr == nil || errors.Is(readErr, io.EOF) {
			return kit.Failf("c13/corruption-not-reported"+feat, "body of page %d (type %d) of row group %d column %d was altered at offset %d, the read completed with %v after %d rows",
				pi, page.Type, gi, ci, pos-int(page.BodyOffset), readErr, delivered)
		}
		if !errors.Is(readErr, parquet.ErrCorrupted) {
			return kit.Failf("c13/error-not-ErrCorrupted"+feat, "corrupted page body reported as %q, which is not ErrCorrupted", readErr)
		}
		if seek >= 0 || isDict || codec != 0 {
			o.NonTrivial()
		}
	} else if readErr != nil && !errors.Is(readErr, io.EOF) && !errors.Is(readErr, parquet.ErrCorrupted) {
		return kit.Failf("c13/unexpected-error"+feat, "%v", readErr)
	}
	return nil
}

func min64(a, b int64) int64 {
	if a < b {
		return a
	}
	return b
}

var spec = &kit.Spec[Case]{
	Property: "C13",
	Name:     "corruption",
	Rule: "a small generated file (≤3 leaves, small pages, all codecs/encodings, v1/v2, 1-n row groups); the independent page walker of C02 locates the stored body of a generated (row group, column, page) — data or dictionary page — " +
		"and a generated 1-3 byte XOR mask (single bit, 0xFF, random byte, 3-byte burst) is applied at a generated offset (first/last/middle/random); the file is read through RowGroup.Rows, Reader or ColumnChunk.Pages, " +
		"sequentially or after SeekToRow to a row before / at the start of / strictly inside the faulted page (for dictionary pages: any row from which a dictionary-encoded page is still read), with/without page index, sync/async. " +
		"Oracle: the read must end with an error satisfying errors.Is(err, ErrCorrupted) and every row delivered before it must equal the written rows. Non-trivial = the page is touched and (a seek is involved, or it is a dictionary page, or the chunk is compressed).",
	Assumptions: []string{
		"pages whose true CRC is 0 (empty bodies) carry no crc field and are skipped by the reader by design: counted, not asserted",
		"a mask that leaves the CRC-32 unchanged is skipped (cannot happen for ≤32-bit bursts, kept as a guard)",
		"whether a read touches the faulted page is computed from the reference page layout, not guessed",
	},
	Gen: genCase,
	Run: runCase,
}

func TestProp(t *testing.T) { kit.Both(t, spec) }
