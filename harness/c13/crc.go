package c13

import "hash/crc32"

func crcOf(b []byte) uint32 { return crc32.ChecksumIEEE(b) }
