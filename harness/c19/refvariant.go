package c19

import (
	"encoding/binary"
	"fmt"
	"sort"
)

// VV is the harness's model of a variant value (JSON-serialisable).
type VV struct {
	K     string `json:"k"`           // null bool int8 int16 int32 int64 float double string binary date ts tsntz time tsns tsntzns uuid dec4 dec8 dec16 object array
	I     int64  `json:"i,omitempty"` // ints, bool, float/double bits, date/time/timestamps, dec4/dec8
	B     []byte `json:"b,omitempty"` // string, binary, uuid (16), dec16 (16 LE)
	Scale int    `json:"scale,omitempty"`
	F     []VF   `json:"f,omitempty"`
	L     []VV   `json:"l,omitempty"`
}

type VF struct {
	Name string `json:"name"`
	V    VV     `json:"v"`
}

// refDecode decodes variant binary written from VariantEncoding.md. It shares
// no code with the library.
func refDecode(meta, value []byte) (VV, error) {
	dict, err := refMetadata(meta)
	if err != nil {
		return VV{}, err
	}
	v, n, err := refValue(dict, value)
	if err != nil {
		return VV{}, err
	}
	if n != len(value) {
		return VV{}, fmt.Errorf("value occupies %d of %d bytes", n, len(value))
	}
	return v, nil
}

func readLE(b []byte, size int) (int, error) {
	if len(b) < size {
		return 0, fmt.Errorf("short read of %d-byte integer", size)
	}
	v := 0
	for i := 0; i < size; i++ {
		v |= int(b[i]) << (8 * uint(i))
	}
	return v, nil
}

func refMetadata(m []byte) ([]string, error) {
	if len(m) < 1 {
		return nil, fmt.Errorf("empty metadata")
	}
	h := m[0]
	if h&0x0f != 1 {
		return nil, fmt.Errorf("metadata version %d", h&0x0f)
	}
	osz := int(h>>6) + 1
	n, err := readLE(m[1:], osz)
	if err != nil {
		return nil, err
	}
	pos := 1 + osz
	offs := make([]int, n+1)
	for i := range offs {
		if offs[i], err = readLE(m[pos:], osz); err != nil {
			return nil, err
		}
		pos += osz
	}
	out := make([]string, n)
	for i := 0; i < n; i++ {
		if offs[i] > offs[i+1] || pos+offs[i+1] > len(m) {
			return nil, fmt.Errorf("metadata string %d out of range", i)
		}
		out[i] = string(m[pos+offs[i] : pos+offs[i+1]])
	}
	if pos+offs[n] != len(m) {
		return nil, fmt.Errorf("metadata has %d trailing bytes", len(m)-pos-offs[n])
	}
	return out, nil
}

var primKinds = map[int]string{0: "null", 1: "true", 2: "false", 3: "int8", 4: "int16", 5: "int32", 6: "int64", 7: "double", 8: "dec4", 9: "dec8", 10: "dec16",
	11: "date", 12: "ts", 13: "tsntz", 14: "float", 15: "binary", 16: "string", 17: "time", 18: "tsns", 19: "tsntzns", 20: "uuid"}

func refValue(dict []string, b []byte) (VV, int, error) {
	if len(b) < 1 {
		return VV{}, 0, fmt.Errorf("empty value")
	}
	basic, hdr := int(b[0]&3), int(b[0]>>2)
	switch basic {
	case 0:
		k, ok := primKinds[hdr]
		if !ok {
			return VV{}, 0, fmt.Errorf("unknown primitive type %d", hdr)
		}
		need := func(n int) error {
			if len(b) < 1+n {
				return fmt.Errorf("%s: short value", k)
			}
			return nil
		}
		sint := func(n int) int64 {
			var u uint64
			for i := 0; i < n; i++ {
				u |= uint64(b[1+i]) << (8 * uint(i))
			}
			shift := uint(64 - 8*n)
			return int64(u<<shift) >> shift
		}
		switch k {
		case "null":
			return VV{K: "null"}, 1, nil
		case "true":
			return VV{K: "bool", I: 1}, 1, nil
		case "false":
			return VV{K: "bool"}, 1, nil
		case "int8":
			if err := need(1); err != nil {
				return VV{}, 0, err
			}
			return VV{K: k, I: sint(1)}, 2, nil
		case "int16":
			if err := need(2); err != nil {
				return VV{}, 0, err
			}
			return VV{K: k, I: sint(2)}, 3, nil
		case "int32", "date":
			if err := need(4); err != nil {
				return VV{}, 0, err
			}
			return VV{K: k, I: sint(4)}, 5, nil
		case "float":
			if err := need(4); err != nil {
				return VV{}, 0, err
			}
			return VV{K: k, I: int64(binary.LittleEndian.Uint32(b[1:]))}, 5, nil
		case "int64", "ts", "tsntz", "time", "tsns", "tsntzns":
			if err := need(8); err != nil {
				return VV{}, 0, err
			}
			return VV{K: k, I: sint(8)}, 9, nil
		case "double":
			if err := need(8); err != nil {
				return VV{}, 0, err
			}
			return VV{K: k, I: int64(binary.LittleEndian.Uint64(b[1:]))}, 9, nil
		case "dec4":
			if err := need(5); err != nil {
				return VV{}, 0, err
			}
			return VV{K: k, Scale: int(b[1]), I: int64(int32(binary.LittleEndian.Uint32(b[2:])))}, 6, nil
		case "dec8":
			if err := need(9); err != nil {
				return VV{}, 0, err
			}
			return VV{K: k, Scale: int(b[1]), I: int64(binary.LittleEndian.Uint64(b[2:]))}, 10, nil
		case "dec16":
			if err := need(17); err != nil {
				return VV{}, 0, err
			}
			return VV{K: k, Scale: int(b[1]), B: append([]byte{}, b[2:18]...)}, 18, nil
		case "uuid":
			if err := need(16); err != nil {
				return VV{}, 0, err
			}
			return VV{K: k, B: append([]byte{}, b[1:17]...)}, 17, nil
		case "binary", "string":
			if err := need(4); err != nil {
				return VV{}, 0, err
			}
			n := int(binary.LittleEndian.Uint32(b[1:]))
			if n < 0 || len(b) < 5+n {
				return VV{}, 0, fmt.Errorf("%s of %d bytes exceeds value", k, n)
			}
			return VV{K: k, B: append([]byte{}, b[5:5+n]...)}, 5 + n, nil
		}
	case 1: // short string
		if len(b) < 1+hdr {
			return VV{}, 0, fmt.Errorf("short string of %d bytes exceeds value", hdr)
		}
		return VV{K: "string", B: append([]byte{}, b[1:1+hdr]...)}, 1 + hdr, nil
	case 2: // object
		osz, isz, large := (hdr&3)+1, ((hdr>>2)&3)+1, (hdr>>4)&1 == 1
		pos := 1
		nsz := 1
		if large {
			nsz = 4
		}
		n, err := readLE(b[pos:], nsz)
		if err != nil {
			return VV{}, 0, err
		}
		pos += nsz
		ids := make([]int, n)
		for i := range ids {
			if ids[i], err = readLE(b[pos:], isz); err != nil {
				return VV{}, 0, err
			}
			pos += isz
		}
		offs := make([]int, n+1)
		for i := range offs {
			if offs[i], err = readLE(b[pos:], osz); err != nil {
				return VV{}, 0, err
			}
			pos += osz
		}
		out := VV{K: "object"}
		prev := ""
		for i := 0; i < n; i++ {
			if ids[i] >= len(dict) {
				return VV{}, 0, fmt.Errorf("field id %d not in the metadata dictionary (%d entries)", ids[i], len(dict))
			}
			name := dict[ids[i]]
			if i > 0 && name <= prev {
				return VV{}, 0, fmt.Errorf("object field ids are not in lexicographic order of their names (%q after %q)", name, prev)
			}
			prev = name
			if pos+offs[i] > len(b) {
				return VV{}, 0, fmt.Errorf("object field offset out of range")
			}
			v, _, err := refValue(dict, b[pos+offs[i]:])
			if err != nil {
				return VV{}, 0, fmt.Errorf("field %q: %w", name, err)
			}
			out.F = append(out.F, VF{Name: name, V: v})
		}
		return out, pos + offs[n], nil
	case 3: // array
		osz, large := (hdr&3)+1, (hdr>>2)&1 == 1
		pos := 1
		nsz := 1
		if large {
			nsz = 4
		}
		n, err := readLE(b[pos:], nsz)
		if err != nil {
			return VV{}, 0, err
		}
		pos += nsz
		offs := make([]int, n+1)
		for i := range offs {
			if offs[i], err = readLE(b[pos:], osz); err != nil {
				return VV{}, 0, err
			}
			pos += osz
		}
		out := VV{K: "array"}
		for i := 0; i < n; i++ {
			if pos+offs[i] > len(b) {
				return VV{}, 0, fmt.Errorf("array element offset out of range")
			}
			v, used, err := refValue(dict, b[pos+offs[i]:])
			if err != nil {
				return VV{}, 0, fmt.Errorf("element %d: %w", i, err)
			}
			if offs[i]+used != offs[i+1] {
				return VV{}, 0, fmt.Errorf("array element %d occupies %d bytes, offsets say %d", i, used, offs[i+1]-offs[i])
			}
			out.L = append(out.L, v)
		}
		return out, pos + offs[n], nil
	}
	return VV{}, 0, fmt.Errorf("unreachable")
}

// diffVV compares two variant values: object fields as sets, everything else exactly.
func diffVV(a, b VV, path string) string {
	if a.K != b.K {
		return fmt.Sprintf("%s: kind %s vs %s", path, a.K, b.K)
	}
	switch a.K {
	case "object":
		fa, fb := append([]VF{}, a.F...), append([]VF{}, b.F...)
		sort.Slice(fa, func(i, j int) bool { return fa[i].Name < fa[j].Name })
		sort.Slice(fb, func(i, j int) bool { return fb[i].Name < fb[j].Name })
		if len(fa) != len(fb) {
			return fmt.Sprintf("%s: %d vs %d fields", path, len(fa), len(fb))
		}
		for i := range fa {
			if fa[i].Name != fb[i].Name {
				return fmt.Sprintf("%s: field %q vs %q", path, fa[i].Name, fb[i].Name)
			}
			if d := diffVV(fa[i].V, fb[i].V, path+"."+fa[i].Name); d != "" {
				return d
			}
		}
	case "array":
		if len(a.L) != len(b.L) {
			return fmt.Sprintf("%s: %d vs %d elements", path, len(a.L), len(b.L))
		}
		for i := range a.L {
			if d := diffVV(a.L[i], b.L[i], fmt.Sprintf("%s[%d]", path, i)); d != "" {
				return d
			}
		}
	default:
		if a.I != b.I || a.Scale != b.Scale || string(a.B) != string(b.B) {
			return fmt.Sprintf("%s (%s): %d/%x/scale %d vs %d/%x/scale %d", path, a.K, a.I, a.B, a.Scale, b.I, b.B, b.Scale)
		}
	}
	return ""
}
