package c19

import (
	"bytes"
	"errors"
	"fmt"
	"io"
	"math"
	"testing"

	"github.com/google/uuid"
	"github.com/parquet-go/parquet-go"
	"github.com/parquet-go/parquet-go/variant"
	"pgregory.net/rapid"

	"verifharness/c02"
	"verifharness/kit"
)

func TestMain(m *testing.M) { kit.Main(m) }

// SN is a shredding schema node (typed_value).
type SN struct {
	K  string `json:"k"` // leaf id | "list" | "object"
	F  []SF   `json:"f,omitempty"`
	El *SN    `json:"el,omitempty"`
}

type SF struct {
	Name string `json:"name"`
	N    SN     `json:"n"`
}

type Case struct {
	Values []VV   `json:"values"`
	Shred  *SN    `json:"shred,omitempty"`
	Write  string `json:"write"`
	Read   string `json:"read"`
	Nest   int    `json:"nest,omitempty"`  // >0: the values are also written as a repeated group of variants, Nest per row
	Churn  int    `json:"churn,omitempty"` // >0: that many extra rows {"id<i>": {"x": i}, "a": 1}: hundreds of distinct field names accumulate in a column writer's dictionary
}

// expand appends the compactly described churn rows to the generated values.
func (c Case) expand() Case {
	for i := 0; i < c.Churn; i++ {
		c.Values = append(c.Values, VV{K: "object", F: []VF{
			{Name: fmt.Sprintf("id%04d", i), V: VV{K: "object", F: []VF{{Name: "x", V: VV{K: "int16", I: int64(i)}}}}},
			{Name: "a", V: VV{K: "int8", I: 1}},
		}})
	}
	return c
}

var names = []string{"a", "b", "c", "d"}
var shredLeaves = []string{"bool", "int8", "int16", "int32", "int64", "float", "double", "string", "binary", "date", "uuid", "ts", "tsntz", "tsns", "tsntzns", "time", "dec4", "dec8", "dec16", "dec16b"}

func genSN(t *rapid.T, depth int) SN {
	if depth < 2 {
		switch rapid.IntRange(0, 7).Draw(t, "snk") {
		case 0:
			el := genSN(t, depth+1)
			return SN{K: "list", El: &el}
		case 1, 2:
			n := SN{K: "object"}
			for _, name := range names {
				if rapid.Bool().Draw(t, "has") {
					n.F = append(n.F, SF{Name: name, N: genSN(t, depth+1)})
				}
			}
			if len(n.F) == 0 {
				n.F = append(n.F, SF{Name: names[rapid.IntRange(0, 3).Draw(t, "one")], N: genSN(t, depth+1)})
			}
			return n
		}
	}
	return SN{K: shredLeaves[rapid.IntRange(0, len(shredLeaves)-1).Draw(t, "leaf")]}
}

func (n SN) node() parquet.Node {
	switch n.K {
	case "list":
		return parquet.List(n.El.node())
	case "object":
		g := parquet.Group{}
		for _, f := range n.F {
			g[f.Name] = f.N.node()
		}
		return g
	case "bool":
		return parquet.Leaf(parquet.BooleanType)
	case "int8":
		return parquet.Int(8)
	case "int16":
		return parquet.Int(16)
	case "int32":
		return parquet.Int(32)
	case "int64":
		return parquet.Int(64)
	case "float":
		return parquet.Leaf(parquet.FloatType)
	case "double":
		return parquet.Leaf(parquet.DoubleType)
	case "string":
		return parquet.String()
	case "binary":
		return parquet.Leaf(parquet.ByteArrayType)
	case "date":
		return parquet.Date()
	case "uuid":
		return parquet.UUID()
	case "ts":
		return parquet.TimestampAdjusted(parquet.Microsecond, true)
	case "tsntz":
		return parquet.TimestampAdjusted(parquet.Microsecond, false)
	case "tsns":
		return parquet.TimestampAdjusted(parquet.Nanosecond, true)
	case "tsntzns":
		return parquet.TimestampAdjusted(parquet.Nanosecond, false)
	case "time":
		return parquet.TimeAdjusted(parquet.Microsecond, false)
	case "dec4":
		return parquet.Decimal(2, 9, parquet.Int32Type)
	case "dec8":
		return parquet.Decimal(2, 18, parquet.Int64Type)
	case "dec16":
		return parquet.Decimal(2, 38, parquet.FixedLenByteArrayType(16))
	case "dec16b":
		return parquet.Decimal(2, 38, parquet.ByteArrayType) // variable length two's complement
	}
	panic("bad shred node " + n.K)
}

var valueKinds = []string{"null", "bool", "int8", "int16", "int32", "int64", "float", "double", "string", "binary", "date", "ts", "tsntz", "time", "tsns", "tsntzns", "uuid", "dec4", "dec8", "dec16"}

func genVV(t *rapid.T, depth int) VV {
	if depth < 3 {
		switch rapid.IntRange(0, 5).Draw(t, "vk") {
		case 0:
			v := VV{K: "array"}
			n := rapid.IntRange(0, 4).Draw(t, "alen")
			for i := 0; i < n; i++ {
				v.L = append(v.L, genVV(t, depth+1))
			}
			return v
		case 1:
			v := VV{K: "object"}
			for _, name := range names {
				if rapid.Bool().Draw(t, "ofield") {
					v.F = append(v.F, VF{Name: name, V: genVV(t, depth+1)})
				}
			}
			if rapid.IntRange(0, 3).Draw(t, "resid") == 0 {
				v.F = append(v.F, VF{Name: "resid", V: genVV(t, depth+1)})
			}
			if rapid.IntRange(0, 9).Draw(t, "emptyname") == 3 {
				// the empty string is a legal field name (and a zero-byte dictionary entry)
				v.F = append(v.F, VF{Name: "", V: genVV(t, depth+1)})
			}
			if depth == 0 && rapid.IntRange(0, 15).Draw(t, "wide") == 0 {
				// many fields: field id / offset sizes above one byte, is_large objects
				n := []int{40, 256, 300}[rapid.IntRange(0, 2).Draw(t, "widen")]
				for i := 0; i < n; i++ {
					fv := VV{K: "int16", I: int64(i)}
					if i%3 == 2 { // nested objects between fields whose ids need two bytes
						fv = VV{K: "object", F: []VF{{Name: "a", V: VV{K: "int16", I: int64(i)}}}}
					}
					v.F = append(v.F, VF{Name: fmt.Sprintf("w%04d", i), V: fv})
				}
			}
			return v
		}
	}
	return genPrim(t, valueKinds[rapid.IntRange(0, len(valueKinds)-1).Draw(t, "prim")])
}

// genPrim draws a primitive value of the given kind.
func genPrim(t *rapid.T, k string) VV {
	v := VV{K: k}
	switch k {
	case "bool":
		v.I = int64(rapid.IntRange(0, 1).Draw(t, "b"))
	case "int8":
		v.I = int64(rapid.Int8().Draw(t, "i"))
	case "int16":
		v.I = int64(rapid.Int16().Draw(t, "i"))
	case "int32", "date":
		v.I = int64(rapid.Int32().Draw(t, "i"))
	case "int64", "ts", "tsntz", "tsns", "tsntzns":
		v.I = rapid.Int64().Draw(t, "i")
	case "time":
		v.I = rapid.Int64Range(0, 86400_000_000-1).Draw(t, "i")
	case "float":
		v.I = int64(rapid.Uint32().Draw(t, "f"))
		if f := math.Float32frombits(uint32(v.I)); f != f {
			v.I = int64(math.Float32bits(1.5))
		}
	case "double":
		v.I = int64(rapid.Uint64().Draw(t, "f"))
		if f := math.Float64frombits(uint64(v.I)); f != f {
			v.I = int64(math.Float64bits(-2.25))
		}
	case "string":
		n := []int{0, 1, 5, 62, 63, 64, 65, 200}[rapid.IntRange(0, 7).Draw(t, "slen")]
		b := make([]byte, n)
		for i := range b {
			b[i] = byte('a' + rapid.IntRange(0, 25).Draw(t, "ch"))
		}
		v.B = b
	case "binary":
		v.B = rapid.SliceOfN(rapid.Byte(), 0, 40).Draw(t, "bin")
	case "uuid":
		v.B = rapid.SliceOfN(rapid.Byte(), 16, 16).Draw(t, "uuid")
	case "dec4":
		v.I, v.Scale = int64(rapid.Int32Range(-999999999, 999999999).Draw(t, "i")), rapid.IntRange(2, 3).Draw(t, "scale")
	case "dec8":
		v.I, v.Scale = rapid.Int64Range(-999999999999999999, 999999999999999999).Draw(t, "i"), rapid.IntRange(2, 3).Draw(t, "scale")
	case "dec16":
		b := rapid.SliceOfN(rapid.Byte(), 16, 16).Draw(t, "d16")
		// keep the magnitude below 10^38 (|x| < 2^120)
		if b[15]&0x80 != 0 {
			b[15] = 0xFF
		} else {
			b[15] = 0
		}
		if rapid.Bool().Draw(t, "d16small") {
			// small magnitudes (1-3 significant bytes, sign-extended): where the minimal
			// two's complement form of a byte array decimal is short
			k := rapid.IntRange(1, 3).Draw(t, "d16bytes")
			for i := k; i < 16; i++ {
				b[i] = b[15]
			}
		}
		v.B, v.Scale = b, rapid.IntRange(2, 3).Draw(t, "scale")
	}
	return v
}

// genFollowing draws a value shaped like the shredding schema (so that typed_value
// columns are actually used), with random departures: a field of another kind, a
// missing or extra field.
func genFollowing(t *rapid.T, n *SN, depth int) VV {
	if n == nil || rapid.IntRange(0, 5).Draw(t, "depart") == 0 {
		return genVV(t, depth)
	}
	switch n.K {
	case "list":
		v := VV{K: "array"}
		for k := rapid.IntRange(0, 4).Draw(t, "flen"); k > 0; k-- {
			v.L = append(v.L, genFollowing(t, n.El, depth+1))
		}
		return v
	case "object":
		v := VV{K: "object"}
		for i := range n.F {
			if rapid.IntRange(0, 4).Draw(t, "fhas") != 0 {
				v.F = append(v.F, VF{Name: n.F[i].Name, V: genFollowing(t, &n.F[i].N, depth+1)})
			}
		}
		if rapid.IntRange(0, 3).Draw(t, "fresid") == 0 {
			v.F = append(v.F, VF{Name: "resid", V: genVV(t, depth+1)})
		}
		return v
	case "dec16b":
		return genPrim(t, "dec16")
	}
	return genPrim(t, n.K)
}

func genCase(t *rapid.T) Case {
	var c Case
	if rapid.IntRange(0, 4).Draw(t, "shredded") != 0 {
		s := genSN(t, 0)
		c.Shred = &s
	}
	n := rapid.IntRange(1, kit.Pick(12, 60)).Draw(t, "nvalues")
	for i := 0; i < n; i++ {
		if c.Shred != nil && rapid.Bool().Draw(t, "follow") {
			c.Values = append(c.Values, genFollowing(t, c.Shred, 0))
		} else {
			c.Values = append(c.Values, genVV(t, 0))
		}
	}
	if rapid.IntRange(0, 3).Draw(t, "nested") == 0 {
		c.Nest = rapid.IntRange(1, 3).Draw(t, "nest")
	}
	if rapid.IntRange(0, 11).Draw(t, "churn") == 5 {
		c.Churn = rapid.IntRange(260, 420).Draw(t, "churnn")
	}
	c.Write = []string{"generic_writer", "buffer_row_group", "deconstruct_rows", "variant_column_writer", "generic_writer(raw struct)", "buffer_row_group(raw struct)"}[rapid.IntRange(0, 5).Draw(t, "write")]
	c.Read = []string{"convert", "direct", "legacy_reader"}[rapid.IntRange(0, 2).Draw(t, "read")]
	return c
}

func (v VV) value() variant.Value {
	switch v.K {
	case "null":
		return variant.Null()
	case "bool":
		return variant.Bool(v.I != 0)
	case "int8":
		return variant.Int8(int8(v.I))
	case "int16":
		return variant.Int16(int16(v.I))
	case "int32":
		return variant.Int32(int32(v.I))
	case "int64":
		return variant.Int64(v.I)
	case "float":
		return variant.Float(math.Float32frombits(uint32(v.I)))
	case "double":
		return variant.Double(math.Float64frombits(uint64(v.I)))
	case "string":
		return variant.String(string(v.B))
	case "binary":
		return variant.Binary(v.B)
	case "date":
		return variant.Date(int32(v.I))
	case "ts":
		return variant.Timestamp(v.I)
	case "tsntz":
		return variant.TimestampNTZ(v.I)
	case "time":
		return variant.Time(v.I)
	case "tsns":
		return variant.TimestampNanos(v.I)
	case "tsntzns":
		return variant.TimestampNTZNanos(v.I)
	case "uuid":
		var u uuid.UUID
		copy(u[:], v.B)
		return variant.UUID(u)
	case "dec4":
		return variant.Decimal4(int32(v.I), byte(v.Scale))
	case "dec8":
		return variant.Decimal8(v.I, byte(v.Scale))
	case "dec16":
		var d [16]byte
		copy(d[:], v.B)
		return variant.Decimal16(d, byte(v.Scale))
	case "object":
		var fs []variant.Field
		for _, f := range v.F {
			fs = append(fs, variant.Field{Name: f.Name, Value: f.V.value()})
		}
		return variant.MakeObject(fs)
	case "array":
		var es []variant.Value
		for _, e := range v.L {
			es = append(es, e.value())
		}
		return variant.MakeArray(es)
	}
	panic("bad kind " + v.K)
}

type rawVariant struct {
	Metadata []byte `parquet:"metadata"`
	Value    []byte `parquet:"value"`
}

type writeRow struct {
	ID  int32 `parquet:"id"`
	Var any   `parquet:"var,variant"`
}

// a variant column under a repeated group
type itemW struct {
	Var any `parquet:"var,variant"`
}

type writeRowN struct {
	ID    int32   `parquet:"id"`
	Items []itemW `parquet:"items"`
}

type itemR struct {
	Var rawVariant `parquet:"var,variant"`
}

type readRowN struct {
	ID    int32   `parquet:"id"`
	Items []itemR `parquet:"items"`
}

// nested writes the values as rows of k variants under a repeated group and reads them back.
func nested(c Case, raws []rawVariant, node parquet.Node, feat string) *kit.Failure {
	schema := parquet.NewSchema("table", parquet.Group{"id": parquet.Int(32), "items": parquet.Repeated(parquet.Group{"var": node})})
	var rows []writeRowN
	for i := 0; i < len(raws); i += c.Nest {
		r := writeRowN{ID: int32(len(rows))}
		for j := i; j < i+c.Nest && j < len(raws); j++ {
			r.Items = append(r.Items, itemW{Var: raws[j]})
		}
		rows = append(rows, r)
	}
	var buf bytes.Buffer
	var werr error
	switch c.Write {
	case "buffer_row_group":
		b := parquet.NewGenericBuffer[writeRowN](schema)
		if _, werr = b.Write(rows); werr == nil {
			w := parquet.NewGenericWriter[writeRowN](&buf, schema)
			if _, werr = w.WriteRowGroup(b); werr == nil {
				werr = w.Close()
			}
		}
	case "deconstruct_rows":
		w := parquet.NewGenericWriter[writeRowN](&buf, schema)
		dec := make([]parquet.Row, len(rows))
		for i := range rows {
			dec[i] = schema.Deconstruct(nil, &rows[i])
		}
		if _, werr = w.WriteRows(dec); werr == nil {
			werr = w.Close()
		}
	default:
		w := parquet.NewGenericWriter[writeRowN](&buf, schema)
		if _, werr = w.Write(rows); werr == nil {
			werr = w.Close()
		}
	}
	if werr != nil {
		return kit.Failf("c19/nested/write-error"+feat, "writing %d rows of %d variants under a repeated group: %v", len(rows), c.Nest, werr)
	}
	data := buf.Bytes()
	var got []readRowN
	var rerr error
	if c.Read == "direct" {
		r := parquet.NewGenericReader[readRowN](bytes.NewReader(data), schema)
		got = make([]readRowN, len(rows))
		var n int
		n, rerr = r.Read(got)
		if errors.Is(rerr, io.EOF) {
			rerr = nil
		}
		got = got[:n]
		r.Close()
	} else {
		got, rerr = parquet.Read[readRowN](bytes.NewReader(data), int64(len(data)))
	}
	if rerr != nil {
		return kit.Failf("c19/nested/read-error"+feat, "%v", rerr)
	}
	if len(got) != len(rows) {
		return kit.Failf("c19/nested/rowcount"+feat, "%d rows read, %d written", len(got), len(rows))
	}
	k := 0
	for i, g := range got {
		if len(g.Items) != len(rows[i].Items) {
			return kit.Failf("c19/nested/value-changed"+feat, "row %d: %d variants read, %d written", i, len(g.Items), len(rows[i].Items))
		}
		for j, it := range g.Items {
			back, err := refDecode(it.Var.Metadata, it.Var.Value)
			if err != nil {
				return kit.Failf("c19/nested/readback-not-per-spec"+feat, "row %d item %d: the independent decoder rejects the variant read back: %v", i, j, err)
			}
			if d := diffVV(c.Values[k], back, "value"); d != "" {
				return kit.Failf("c19/nested/value-changed"+feat, "row %d item %d (written %s): %s", i, j, c.Values[k].K, d)
			}
			k++
		}
	}
	return nil
}

type readRow struct {
	ID  int32      `parquet:"id"`
	Var rawVariant `parquet:"var,variant"`
}

func runCase(c Case, o *kit.Obs) *kit.Failure {
	o.ClassIf(c.Churn > 0, "field-name-churn")
	c = c.expand()
	// (a) encoding: the library's bytes decode, by the independent decoder, to the value; and Decode(Encode(v)) equals v
	raws := make([]rawVariant, len(c.Values))
	var sb variant.Builder // one streaming builder for the whole case (its pooled state has a history)
	for i, vv := range c.Values {
		val := vv.value()
		// the streaming builder must produce bytes that decode to the same value
		sb.Reset()
		val.Write(&sb)
		if smeta, sdata, err := sb.Finish(); err != nil {
			return kit.Failf("c19/builder-error", "value %d (%s): streaming the value through variant.Builder: %v", i, vv.K, err)
		} else if got, err := refDecode(smeta, sdata); err != nil {
			return kit.Failf("c19/builder-not-per-spec", "value %d (%s): the independent decoder rejects the bytes of variant.Builder: %v", i, vv.K, err)
		} else if d := diffVV(vv, got, "value"); d != "" {
			return kit.Failf("c19/builder-differs", "value %d: the bytes of variant.Builder decode (independently) to a different value: %s", i, d)
		}
		var mb variant.MetadataBuilder
		data := variant.Encode(&mb, val)
		meta, metaBytes := mb.Build()
		raws[i] = rawVariant{Metadata: metaBytes, Value: data}
		got, err := refDecode(metaBytes, data)
		if err != nil {
			return kit.Failf("c19/encode-not-per-spec", "value %d (%s): the independent decoder rejects the encoded bytes: %v", i, vv.K, err)
		}
		if d := diffVV(vv, got, "value"); d != "" {
			return kit.Failf("c19/encode-differs", "value %d: encoded bytes decode (independently) to a different value: %s", i, d)
		}
		back, err := variant.Decode(meta, data)
		if err != nil {
			return kit.Failf("c19/decode-error", "value %d (%s): Decode(Encode(v)): %v", i, vv.K, err)
		}
		if !back.Equal(val) {
			return kit.Failf("c19/decode-differs", "value %d (%s): Decode(Encode(v)) is not Equal to v", i, vv.K)
		}
		// re-encoding the decoded value must decode to the same model (stability of the decoded form)
		var mb2 variant.MetadataBuilder
		data2 := variant.Encode(&mb2, back)
		_, meta2 := mb2.Build()
		got2, err := refDecode(meta2, data2)
		if err != nil || diffVV(vv, got2, "value") != "" {
			return kit.Failf("c19/reencode-differs", "value %d: Encode(Decode(Encode(v))) decodes to a different value (%v)", i, err)
		}
	}
	// (b) through a parquet file with the shredding schema
	node := parquet.Variant()
	if c.Shred != nil {
		n, err := parquet.ShreddedVariant(c.Shred.node())
		if err != nil {
			o.Rejected()
			o.Class("schema-rejected")
			return nil
		}
		node = n
	}
	schema := parquet.NewSchema("table", parquet.Group{"id": parquet.Int(32), "var": node})
	rows := make([]writeRow, len(raws))
	for i := range raws {
		rows[i] = writeRow{ID: int32(i), Var: raws[i]}
	}
	feat := fmt.Sprintf("{write=%s,read=%s,shredded=%v}", c.Write, c.Read, c.Shred != nil)
	var buf bytes.Buffer
	var werr error
	switch c.Write {
	case "generic_writer":
		w := parquet.NewGenericWriter[writeRow](&buf, schema)
		if _, werr = w.Write(rows); werr == nil {
			werr = w.Close()
		}
	case "buffer_row_group":
		b := parquet.NewGenericBuffer[writeRow](schema)
		if _, werr = b.Write(rows); werr == nil {
			w := parquet.NewGenericWriter[writeRow](&buf, schema)
			if _, werr = w.WriteRowGroup(b); werr == nil {
				werr = w.Close()
			}
		}
	case "generic_writer(raw struct)", "buffer_row_group(raw struct)":
		// the field is the raw {metadata, value} struct itself, not an interface holding it
		rawRows := make([]readRow, len(raws))
		for i := range raws {
			rawRows[i] = readRow{ID: int32(i), Var: raws[i]}
		}
		if c.Write == "generic_writer(raw struct)" {
			w := parquet.NewGenericWriter[readRow](&buf, schema)
			if _, werr = w.Write(rawRows); werr == nil {
				werr = w.Close()
			}
		} else {
			b := parquet.NewGenericBuffer[readRow](schema)
			if _, werr = b.Write(rawRows); werr == nil {
				w := parquet.NewGenericWriter[readRow](&buf, schema)
				if _, werr = w.WriteRowGroup(b); werr == nil {
					werr = w.Close()
				}
			}
		}
	case "variant_column_writer":
		// the streaming column writer: one dictionary across rows, values shredded on the fly
		vschema := parquet.NewSchema("table", parquet.Group{"var": node})
		w := parquet.NewWriter(&buf, vschema)
		vw, err := parquet.NewVariantColumnWriter(w, "var")
		if err != nil {
			o.Rejected()
			o.Class("column-writer-rejected")
			return nil
		}
		for i, vv := range c.Values {
			if werr = vw.WriteValue(vv.value()); werr != nil {
				werr = fmt.Errorf("WriteValue row %d: %w", i, werr)
				break
			}
		}
		if werr == nil {
			werr = w.Close()
		}
	default:
		w := parquet.NewGenericWriter[writeRow](&buf, schema)
		dec := make([]parquet.Row, len(rows))
		for i := range rows {
			dec[i] = schema.Deconstruct(nil, &rows[i])
		}
		if _, werr = w.WriteRows(dec); werr == nil {
			werr = w.Close()
		}
	}
	if werr != nil {
		return kit.Failf("c19/write-error"+feat, "writing %d variant values: %v", len(rows), werr)
	}
	data := buf.Bytes()
	if _, is := c02.Verify(data, c02.Expect{}); is != nil {
		return kit.Failf("c19/structure/"+is.Rule, "the variant file is not well formed: %s", is.Msg)
	}
	var got []readRow
	var rerr error
	switch c.Read {
	case "convert":
		got, rerr = parquet.Read[readRow](bytes.NewReader(data), int64(len(data)))
	case "direct":
		r := parquet.NewGenericReader[readRow](bytes.NewReader(data), schema)
		got = make([]readRow, len(rows))
		var n int
		n, rerr = r.Read(got)
		if errors.Is(rerr, io.EOF) {
			rerr = nil
		}
		got = got[:n]
		r.Close()
	default:
		rs := parquet.NewSchema("table", parquet.Group{"id": parquet.Int(32), "var": parquet.Variant()})
		r := parquet.NewReader(bytes.NewReader(data), rs)
		for i := 0; i < len(rows); i++ {
			var row readRow
			if rerr = r.Read(&row); rerr != nil {
				break
			}
			got = append(got, row)
		}
		r.Close()
	}
	if rerr != nil {
		return kit.Failf("c19/read-error"+feat, "%v", rerr)
	}
	if len(got) != len(rows) {
		return kit.Failf("c19/rowcount"+feat, "%d rows read, %d written", len(got), len(rows))
	}
	partial := false
	for i, g := range got {
		if g.ID != int32(i) && c.Write != "variant_column_writer" {
			return kit.Failf("c19/row-order"+feat, "row %d has id %d", i, g.ID)
		}
		back, err := refDecode(g.Var.Metadata, g.Var.Value)
		if err != nil {
			return kit.Failf("c19/readback-not-per-spec"+feat, "row %d: the independent decoder rejects the variant read back: %v", i, err)
		}
		if d := diffVV(c.Values[i], back, "value"); d != "" {
			return kit.Failf("c19/value-changed"+feat, "row %d (written %s): %s", i, c.Values[i].K, d)
		}
		if c.Shred != nil && (c.Values[i].K == "object" || c.Values[i].K == "array") && (c.Shred.K == "object" || c.Shred.K == "list") {
			partial = true
		}
	}
	if c.Nest > 0 {
		if fl := nested(c, raws, node, feat); fl != nil {
			return fl
		}
		o.Class("variant-under-repeated-group")
	}
	o.Class("write-" + c.Write)
	o.Class("read-" + c.Read)
	o.ClassIf(c.Shred != nil, "shredded")
	if partial {
		o.NonTrivial()
	}
	return nil
}

var spec = &kit.Spec[Case]{
	Property: "C19",
	Name:     "variant",
	Rule: "1-12 (thorough 60) variant value trees per case (20 primitive kinds incl. every decimal width, four timestamp kinds, uuid, binary, strings across the 63-byte short-string boundary; objects over the field pool {a,b,c,d,resid} and occasionally 40-300 extra fields so id/offset widths and is_large change; arrays; depth ≤3) " +
		"and, in 80% of the cases, a shredding schema drawn from the shredded-types table (19 leaf types, objects over the same field pool, lists, depth ≤2) so values match fully / partially / not at all. " +
		"Oracles: (a) the bytes of variant.Encode are decoded by an independent decoder written from VariantEncoding.md to the same value, Decode(Encode(v)).Equal(v), and re-encoding the decoded value is stable; " +
		"(b) the values written through the schema by one of 3 write paths (GenericWriter.Write, GenericBuffer+WriteRowGroup, WriteRows(Deconstruct)) and read back by one of 3 read paths (Read[T] with an unshredded target, GenericReader with the file schema, NewReader with an unshredded schema) decode independently to the value written (object field order irrelevant, kinds exact); the file passes the structural walk of C02. " +
		"Non-trivial = an object or array written through an object/list shredding schema.",
	Assumptions: []string{"NaN float/double values are excluded (Equal is not reflexive on NaN)", "the raw shredded columns are not reconstructed independently (no reference construct_variant): a writer/reader pair agreeing on a wrong shredded layout would be missed"},
	Gen:         genCase,
	Run:         runCase,
}

func TestProp(t *testing.T) { kit.Both(t, spec) }
