package c03

import (
	"bytes"
	"fmt"
	"reflect"
	"testing"

	"github.com/parquet-go/parquet-go"
	"pgregory.net/rapid"

	"verifharness/kit"
)

// PtrElemsCase: a repeated group whose Go elements are pointers ([]*S without
// the list tag: the group is repeated, its leaves required, there is no null to
// store), some of them nil. Every ingestion path must store the same streams
// (a nil element is a zero struct) and leave the caller's value as it was.
type PtrElemsCase struct {
	Rows [][]int `json:"rows"` // per row the elements: -1 nil, else the value of A (B is derived)
	Nil  []bool  `json:"nil,omitempty"` // rows handed in as nil *peRow to the writers of pointer rows (stored as a zero row)
}

type peInner struct {
	A int64  `parquet:"a"`
	B string `parquet:"b"`
}

type peRow struct {
	ID int64      `parquet:"id"`
	C  []*peInner `parquet:"c"`
}

func genPtrElemsCase(t *rapid.T) PtrElemsCase {
	var c PtrElemsCase
	for n := rapid.IntRange(1, 8).Draw(t, "rows"); n > 0; n-- {
		row := []int{}
		for k := rapid.IntRange(0, 4).Draw(t, "elems"); k > 0; k-- {
			row = append(row, rapid.IntRange(-1, 5).Draw(t, "e"))
		}
		c.Rows = append(c.Rows, row)
		c.Nil = append(c.Nil, rapid.IntRange(0, 5).Draw(t, "nilrow") == 0)
	}
	return c
}

func (c PtrElemsCase) values() []peRow {
	out := make([]peRow, len(c.Rows))
	for i, r := range c.Rows {
		out[i].ID = int64(i)
		out[i].C = []*peInner{}
		for _, e := range r {
			if e < 0 {
				out[i].C = append(out[i].C, nil)
			} else {
				out[i].C = append(out[i].C, &peInner{A: int64(e), B: fmt.Sprintf("b%d", e)})
			}
		}
	}
	return out
}

// want renders the rows as they must be stored: "id|a:b,a:b,..." (a nil element is 0:"").
func (c PtrElemsCase) want() []string {
	var out []string
	for i, r := range c.Rows {
		s := fmt.Sprintf("%d|", i)
		for _, e := range r {
			if e < 0 {
				s += "0:,"
			} else {
				s += fmt.Sprintf("%d:b%d,", e, e)
			}
		}
		out = append(out, s)
	}
	return out
}

func renderPE(rows []parquet.Row) ([]string, error) {
	var out []string
	for _, row := range rows {
		var id string
		var as, bs []string
		for _, v := range row {
			switch v.Column() {
			case 0: // columns in field order: id, c.a, c.b
				id = fmt.Sprint(v.Int64())
			case 1:
				if v.IsNull() {
					if v.DefinitionLevel() != 0 || len(row) != 3 {
						return nil, fmt.Errorf("null in the required leaf c.a: %+v", row)
					}
					continue
				}
				as = append(as, fmt.Sprint(v.Int64()))
			case 2:
				if v.IsNull() {
					continue
				}
				bs = append(bs, string(v.ByteArray()))
			}
		}
		if len(as) != len(bs) {
			return nil, fmt.Errorf("columns c.a and c.b disagree on the number of elements: %+v", row)
		}
		s := id + "|"
		for i := range as {
			s += as[i] + ":" + bs[i] + ","
		}
		out = append(out, s)
	}
	return out, nil
}

func readBackPE(data []byte) ([]string, error) {
	f, err := parquet.OpenFile(bytes.NewReader(data), int64(len(data)))
	if err != nil {
		return nil, err
	}
	r := parquet.NewReader(f)
	defer r.Close()
	var rows []parquet.Row
	buf := make([]parquet.Row, 16)
	for {
		n, err := r.ReadRows(buf)
		for _, row := range buf[:n] {
			rows = append(rows, row.Clone())
		}
		if err != nil {
			if err.Error() == "EOF" {
				break
			}
			return nil, err
		}
	}
	return renderPE(rows)
}

func runPtrElemsCase(c PtrElemsCase, o *kit.Obs) *kit.Failure {
	want := c.want()
	schema := parquet.SchemaOf(peRow{})
	paths := []struct {
		name string
		run  func(vals []peRow) ([]string, error)
	}{
		{"Schema.Deconstruct", func(vals []peRow) ([]string, error) {
			var rows []parquet.Row
			for i := range vals {
				rows = append(rows, schema.Deconstruct(nil, &vals[i]))
			}
			return renderPE(rows)
		}},
		{"Writer.Write", func(vals []peRow) ([]string, error) {
			var out bytes.Buffer
			w := parquet.NewWriter(&out, schema)
			for i := range vals {
				if err := w.Write(&vals[i]); err != nil {
					return nil, err
				}
			}
			if err := w.Close(); err != nil {
				return nil, err
			}
			return readBackPE(out.Bytes())
		}},
		{"Buffer.Write", func(vals []peRow) ([]string, error) {
			b := parquet.NewBuffer(schema)
			for i := range vals {
				if err := b.Write(&vals[i]); err != nil {
					return nil, err
				}
			}
			var out bytes.Buffer
			w := parquet.NewWriter(&out, schema)
			if _, err := w.WriteRowGroup(b); err != nil {
				return nil, err
			}
			if err := w.Close(); err != nil {
				return nil, err
			}
			return readBackPE(out.Bytes())
		}},
		{"GenericWriter.Write", func(vals []peRow) ([]string, error) {
			var out bytes.Buffer
			w := parquet.NewGenericWriter[peRow](&out)
			if _, err := w.Write(vals); err != nil {
				return nil, err
			}
			if err := w.Close(); err != nil {
				return nil, err
			}
			return readBackPE(out.Bytes())
		}},
		{"GenericBuffer.Write", func(vals []peRow) ([]string, error) {
			b := parquet.NewGenericBuffer[peRow]()
			if _, err := b.Write(vals); err != nil {
				return nil, err
			}
			var out bytes.Buffer
			w := parquet.NewGenericWriter[peRow](&out)
			if _, err := w.WriteRowGroup(b); err != nil {
				return nil, err
			}
			if err := w.Close(); err != nil {
				return nil, err
			}
			return readBackPE(out.Bytes())
		}},
	}
	nils := 0
	for _, r := range c.Rows {
		for _, e := range r {
			if e < 0 {
				nils++
			}
		}
	}
	for _, p := range paths {
		vals, twin := c.values(), c.values()
		feat := "{path=" + p.name + "}"
		var got []string
		var err error
		func() {
			defer func() {
				if r := recover(); r != nil {
					err = fmt.Errorf("panic: %v", r)
				}
			}()
			got, err = p.run(vals)
		}()
		if err != nil {
			return kit.Failf("c03/ptrelems/error"+feat, "%s of rows %v: %v", p.name, c.Rows, err)
		}
		if fmt.Sprint(got) != fmt.Sprint(want) {
			return kit.Failf("c03/ptrelems/stream-differs"+feat, "%s stored %v, expected %v (a nil element of the repeated group is a zero struct)", p.name, got, want)
		}
		if !reflect.DeepEqual(vals, twin) {
			return kit.Failf("c03/ptrelems/input-modified"+feat, "%s changed the value it was given (nil elements of a []*struct allocated?): rows %v", p.name, c.Rows)
		}
	}
	// writers whose row type is a pointer: a nil row is stored as a row of zero values
	ptrRows := func() []*peRow {
		vals := c.values()
		out := make([]*peRow, len(vals))
		for i := range vals {
			if i >= len(c.Nil) || !c.Nil[i] {
				out[i] = &vals[i]
			}
		}
		return out
	}
	wantPtr := append([]string{}, want...)
	nilRows := 0
	for i := range wantPtr {
		if i < len(c.Nil) && c.Nil[i] {
			wantPtr[i] = "0|"
			nilRows++
		}
	}
	ptrPaths := []struct {
		name string
		run  func(rows []*peRow) ([]string, error)
	}{
		{"Writer.Write(*T)", func(rows []*peRow) ([]string, error) {
			var out bytes.Buffer
			w := parquet.NewWriter(&out, schema)
			for _, r := range rows {
				if err := w.Write(r); err != nil {
					return nil, err
				}
			}
			if err := w.Close(); err != nil {
				return nil, err
			}
			return readBackPE(out.Bytes())
		}},
		{"GenericWriter[*T].Write", func(rows []*peRow) ([]string, error) {
			var out bytes.Buffer
			w := parquet.NewGenericWriter[*peRow](&out)
			if n, err := w.Write(rows); err != nil {
				return nil, err
			} else if n != len(rows) {
				return nil, fmt.Errorf("Write returned %d for %d rows", n, len(rows))
			}
			if err := w.Close(); err != nil {
				return nil, err
			}
			return readBackPE(out.Bytes())
		}},
		{"GenericBuffer[*T].Write", func(rows []*peRow) ([]string, error) {
			b := parquet.NewGenericBuffer[*peRow]()
			if _, err := b.Write(rows); err != nil {
				return nil, err
			}
			var out bytes.Buffer
			w := parquet.NewGenericWriter[*peRow](&out)
			if _, err := w.WriteRowGroup(b); err != nil {
				return nil, err
			}
			if err := w.Close(); err != nil {
				return nil, err
			}
			return readBackPE(out.Bytes())
		}},
	}
	for _, p := range ptrPaths {
		feat := "{path=" + p.name + "}"
		var got []string
		var err error
		func() {
			defer func() {
				if r := recover(); r != nil {
					err = fmt.Errorf("panic: %v", r)
				}
			}()
			got, err = p.run(ptrRows())
		}()
		if err != nil {
			return kit.Failf("c03/ptrelems/ptr-rows-error"+feat, "%s of rows %v (nil rows %v): %v", p.name, c.Rows, c.Nil, err)
		}
		if fmt.Sprint(got) != fmt.Sprint(wantPtr) {
			return kit.Failf("c03/ptrelems/ptr-rows-differ"+feat, "%s stored %v, expected %v (nil rows %v are rows of zero values)", p.name, got, wantPtr, c.Nil)
		}
	}
	o.ClassIf(nilRows > 0, "nil-row")
	if nils > 0 {
		o.NonTrivial()
	}
	return nil
}

var ptrElemsSpec = &kit.Spec[PtrElemsCase]{
	Property: "C03",
	Name:     "ptrelems",
	Rule: "1-8 rows of struct{ID; C []*struct{A int64; B string}} (a repeated group: no list tag) with 0-4 elements of which some are nil, through Schema.Deconstruct, Writer.Write, Buffer.Write, GenericWriter.Write and GenericBuffer.Write (files read back as rows): " +
		"(and, with rows handed in as *T of which some are nil, through Writer.Write(*T), GenericWriter[*T] and GenericBuffer[*T]: a nil row is a row of zero values) every path stores the same streams, a nil element being a zero struct, the two leaf columns agree on the number of elements, and the value passed in is left unchanged (compared with a twin). Non-trivial = a nil element.",
	Gen: genPtrElemsCase,
	Run: runPtrElemsCase,
}

func TestPropPtrElems(t *testing.T) { kit.Both(t, ptrElemsSpec) }
