package c03

import (
	"bytes"
	"fmt"
	"testing"

	"github.com/parquet-go/parquet-go"
	"pgregory.net/rapid"

	"verifharness/gen"
	"verifharness/kit"
	"verifharness/pq"
	"verifharness/ref"
	"verifharness/typed"
)

func TestMain(m *testing.M) { kit.Main(m) }

type Case struct {
	Type    string      `json:"type"`
	Plan    gen.RowPlan `json:"plan"`
	Batches []int       `json:"batches"`
}

func genCase(t *rapid.T) Case {
	var c Case
	e := typed.Catalogue[rapid.IntRange(0, len(typed.Catalogue)-1).Draw(t, "type")]
	if kit.KnownPrefix("C03", "c03/"+e.Name+"/") {
		kit.Excluded("type-" + e.Name)
		e = typed.ByName("Scalars")
	}
	c.Type = e.Name
	st := []gen.Style{gen.Mixed, gen.SmallDom, gen.SmallDom}[rapid.IntRange(0, 2).Draw(t, "style")]
	c.Plan = gen.Rows(t, &e.Node, 6, kit.Pick(400, 2000), gen.ValueOpts{Style: st, Leaf: gen.Opts{MaxBytes: 24}, LongLists: 8})
	c.Plan.Uniq = rapid.IntRange(0, 2).Draw(t, "uniq") == 0
	nb := rapid.IntRange(0, 4).Draw(t, "nb")
	for i := 0; i < nb; i++ {
		c.Batches = append(c.Batches, []int{1, 2, 63, 64, 65, 100, 128, 130, 300}[rapid.IntRange(0, 8).Draw(t, "b")])
	}
	return c
}

func readRG(rg parquet.RowGroup) ([]parquet.Row, error) {
	rows := rg.Rows()
	defer rows.Close()
	return pq.ReadAllRows(rows, 50)
}

func readFile(data []byte) ([]parquet.Row, error) {
	f, err := pq.Open(data)
	if err != nil {
		return nil, err
	}
	var out []parquet.Row
	for _, rg := range f.RowGroups() {
		r, err := readRG(rg)
		if err != nil {
			return nil, err
		}
		out = append(out, r...)
	}
	return out, nil
}

type panicError struct{ v any }

func (p *panicError) Error() string { return fmt.Sprint(p.v) }

func safely(f func() ([]parquet.Row, error)) (rows []parquet.Row, err error) {
	defer func() {
		if r := recover(); r != nil {
			err = &panicError{r}
		}
	}()
	return f()
}

func opsOf(batches []int) []gen.Op {
	var ops []gen.Op
	for _, b := range batches {
		ops = append(ops, gen.Op{Kind: "w", N: b})
	}
	return ops
}

func runCase(c Case, o *kit.Obs) *kit.Failure {
	e := typed.ByName(c.Type)
	if e == nil {
		return kit.Failf("harness/unknown-type", "type %q not in catalogue", c.Type)
	}
	cols := ref.Columns(&e.Node)
	vs := c.Plan.ExpandWith(&e.Node)
	rows := e.New(vs)
	want := e.Trees(rows) // documented normal form of the Go values
	wantStreams := ref.ShredRows(&e.Node, want)

	type path struct {
		name string
		get  func() ([]parquet.Row, error)
	}
	paths := []path{
		{"GenericWriter.Write", func() ([]parquet.Row, error) {
			var buf bytes.Buffer
			if err := e.GenericWrite(&buf, rows, nil, opsOf(c.Batches)); err != nil {
				return nil, err
			}
			return readFile(buf.Bytes())
		}},
		{"Writer.Write(any)", func() ([]parquet.Row, error) {
			var buf bytes.Buffer
			if err := e.AnyWrite(&buf, rows, nil); err != nil {
				return nil, err
			}
			return readFile(buf.Bytes())
		}},
		{"GenericBuffer.Write", func() ([]parquet.Row, error) {
			rg, err := e.GenericBuffer(rows, c.Batches, nil)
			if err != nil {
				return nil, err
			}
			return readRG(rg)
		}},
		{"Buffer.Write(any)", func() ([]parquet.Row, error) {
			rg, err := e.AnyBuffer(rows, nil)
			if err != nil {
				return nil, err
			}
			return readRG(rg)
		}},
		{"RowBuffer.Write", func() ([]parquet.Row, error) {
			rg, err := e.RowBuf(rows, c.Batches, nil)
			if err != nil {
				return nil, err
			}
			return readRG(rg)
		}},
		{"Schema.Deconstruct", func() ([]parquet.Row, error) { return e.Deconstruct(rows), nil }},
		{"WriteRows(Deconstruct)", func() ([]parquet.Row, error) {
			var buf bytes.Buffer
			w := parquet.NewWriter(&buf, e.Schema)
			if err := pq.ApplyOps(w, e.Deconstruct(rows), opsOf(c.Batches)); err != nil {
				return nil, err
			}
			if err := w.Close(); err != nil {
				return nil, err
			}
			return readFile(buf.Bytes())
		}},
		{"ColumnWriters.WriteRowValues", func() ([]parquet.Row, error) {
			var buf bytes.Buffer
			w := parquet.NewWriter(&buf, e.Schema)
			cws := w.ColumnWriters()
			// per-column values, whole rows per call, in the generated batches
			split, err := ref.SplitRows(wantStreams)
			if err != nil {
				return nil, fmt.Errorf("harness: %w", err)
			}
			i := 0
			for _, n := range append(append([]int{}, c.Batches...), len(split)) {
				if i+n > len(split) {
					n = len(split) - i
				}
				if n <= 0 {
					continue
				}
				for ci, cw := range cws {
					var vals []parquet.Value
					for _, r := range split[i : i+n] {
						for _, lv := range r[ci] {
							vals = append(vals, pq.ToValue(cols[ci].Leaf, lv, ci))
						}
					}
					if _, err := cw.WriteRowValues(vals); err != nil {
						return nil, err
					}
				}
				i += n
			}
			if err := w.Close(); err != nil {
				return nil, err
			}
			return readFile(buf.Bytes())
		}},
	}
	pre := "c03/" + c.Type + "/"
	for _, p := range paths {
		got, err := safely(p.get)
		if err != nil {
			if pe, ok := err.(*panicError); ok {
				return kit.Failf(pre+"panic{path="+p.name+"}", "%s panicked: %v", p.name, pe.v)
			}
			return kit.Failf(pre+"path-error{path="+p.name+"}", "%s: %v", p.name, err)
		}
		if len(got) != len(want) {
			return kit.Failf(pre+"rowcount{path="+p.name+"}", "%s: %d rows, want %d", p.name, len(got), len(want))
		}
		trees, err := pq.RowsToTrees(&e.Node, cols, got)
		if err != nil {
			return kit.Failf(pre+"malformed-row{path="+p.name+"}", "%s: %v", p.name, err)
		}
		for i := range trees {
			if d := ref.DiffRow(&e.Node, want[i], trees[i]); d != "" {
				return kit.Failf(pre+"stream-differs{path="+p.name+"}", "%s row %d: expected vs stored: %s", p.name, i, d)
			}
		}
		if !e.HasMap {
			gs, err := pq.Streams(cols, got)
			if err != nil {
				return kit.Failf(pre+"malformed-row{path="+p.name+"}", "%v", err)
			}
			if d := pq.DiffStreams(cols, wantStreams, gs); d != "" {
				return kit.Failf(pre+"levels-differ{path="+p.name+"}", "%s: %s", p.name, d)
			}
		}
	}
	// Reconstruct(Deconstruct(v)) == v
	drows, _ := safely(func() ([]parquet.Row, error) { return e.Deconstruct(rows), nil })
	for i, row := range drows {
		back, err := e.Reconstruct(row)
		if err != nil {
			return kit.Failf(pre+"reconstruct-error", "row %d: %v", i, err)
		}
		if d := ref.DiffRow(&e.Node, want[i], back); d != "" {
			return kit.Failf(pre+"reconstruct-differs", "row %d: %s", i, d)
		}
	}
	// classification
	alternations, maxBatch := 0, 0
	for _, r := range c.Plan.Runs {
		if r[1] > maxBatch {
			maxBatch = r[1]
		}
	}
	alternations = len(c.Plan.Runs)
	o.Class("type-" + c.Type)
	o.ClassIf(len(vs) >= 65, "rows>=65")
	if len(vs) >= 65 && alternations >= 3 {
		o.NonTrivial()
	}
	return nil
}

var spec = &kit.Spec[Case]{
	Property: "C03",
	Name:     "paths",
	Rule: "a struct type from the 13-type catalogue (scalars, optional non-pointer fields, pointers, lists, nested/optional groups, lists of pointers, maps, 3-level nesting, encodings/logical tags), " +
		"row plans whose runs of identical rows have lengths around 1/8/32/64/128 so null runs cross 64-row bitmap words, fed through GenericWriter.Write, Writer.Write(any), GenericBuffer.Write, " +
		"Buffer.Write(any), RowBuffer.Write, Schema.Deconstruct, WriteRows(Deconstruct) and ColumnWriters.WriteRowValues; every path's stored rows are re-assembled and compared with the " +
		"documented normal form of the Go value and (map-free types) level-by-level with the reference shredder; Reconstruct(Deconstruct(v)) is compared with v. " +
		"Non-trivial = at least 65 rows and at least 3 runs (alternations of row shapes).",
	Assumptions: []string{
		"the documented Go mapping is: pointer nil = null, zero value of an `optional` non-pointer field = null (reflect IsZero, so -0.0 is zero), nil slice under an optional LIST = null list, nil/empty slices and maps otherwise equal",
		"map entries are compared as sets (Go map iteration order)",
	},
	Gen: genCase,
	Run: runCase,
}

func TestProp(t *testing.T) { kit.Both(t, spec) }
