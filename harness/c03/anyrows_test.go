package c03

import (
	"bytes"
	"fmt"
	"sort"
	"strings"
	"testing"

	"github.com/parquet-go/parquet-go"
	"pgregory.net/rapid"

	"verifharness/kit"
)

// AnyRowsCase: rows given as map[string]any under an explicit schema, the
// integer fields holding Go integers of every width and signedness (values that
// fit the column): every ingestion path must store the same numbers.
type AnyRowsCase struct {
	Rows []AnyRow `json:"rows"`
}

type AnyRow struct {
	I64  int64  `json:"i64"` // column a: INT64
	KA   int    `json:"ka"`  // Go type used for a (index into intKinds)
	U64  uint64 `json:"u64"` // column b: UINT64
	KB   int    `json:"kb"`  // Go type used for b (unsigned kinds)
	I32  int32  `json:"i32"` // column c: INT32
	KC   int    `json:"kc"`
	S    string `json:"s"` // column s: optional string
	HasS bool   `json:"hass"`
	M    []int  `json:"m,omitempty"`    // column m: MAP string -> int64, entries k<i> -> M[i]
	MAny bool   `json:"many,omitempty"` // the map is given as map[string]any (else map[string]int64)
}

var intKinds = []string{"int8", "int16", "int32", "int64", "int", "uint8", "uint16", "uint32"}
var uintKinds = []string{"uint8", "uint16", "uint32", "uint64", "uint"}
var smallKinds = []string{"int8", "int16", "int32", "uint8", "uint16"}

func goInt(kind string, v int64) any {
	switch kind {
	case "int8":
		return int8(v)
	case "int16":
		return int16(v)
	case "int32":
		return int32(v)
	case "int64":
		return v
	case "int":
		return int(v)
	case "uint8":
		return uint8(v)
	case "uint16":
		return uint16(v)
	case "uint32":
		return uint32(v)
	case "uint64":
		return uint64(v)
	}
	return uint(v)
}

// fit draws a value the Go type can hold.
func fit(t *rapid.T, kind, label string) int64 {
	switch kind {
	case "int8":
		return int64(rapid.Int8().Draw(t, label))
	case "int16":
		return int64(rapid.Int16().Draw(t, label))
	case "int32":
		return int64(rapid.Int32().Draw(t, label))
	case "uint8":
		return int64(rapid.Uint8().Draw(t, label))
	case "uint16":
		return int64(rapid.Uint16().Draw(t, label))
	case "uint32":
		if rapid.Bool().Draw(t, label+"hi") {
			return int64(rapid.Uint32Range(1<<31, 1<<32-1).Draw(t, label))
		}
		return int64(rapid.Uint32().Draw(t, label))
	}
	return rapid.Int64().Draw(t, label)
}

func genAnyRowsCase(t *rapid.T) AnyRowsCase {
	var c AnyRowsCase
	for n := rapid.IntRange(1, 10).Draw(t, "rows"); n > 0; n-- {
		var r AnyRow
		r.KA = rapid.IntRange(0, len(intKinds)-1).Draw(t, "ka")
		r.I64 = fit(t, intKinds[r.KA], "a")
		r.KB = rapid.IntRange(0, len(uintKinds)-1).Draw(t, "kb")
		switch uintKinds[r.KB] {
		case "uint64", "uint":
			r.U64 = rapid.Uint64().Draw(t, "b")
		default:
			r.U64 = uint64(fit(t, uintKinds[r.KB], "b"))
		}
		r.KC = rapid.IntRange(0, len(smallKinds)-1).Draw(t, "kc")
		r.I32 = int32(fit(t, smallKinds[r.KC], "c"))
		r.HasS = rapid.Bool().Draw(t, "hass")
		r.S = rapid.StringMatching("[a-c]{1,3}").Draw(t, "s")
		for k := rapid.IntRange(0, 3).Draw(t, "nm"); k > 0; k-- {
			r.M = append(r.M, rapid.IntRange(-5, 5).Draw(t, "m"))
		}
		r.MAny = rapid.Bool().Draw(t, "many")
		c.Rows = append(c.Rows, r)
	}
	return c
}

func (c AnyRowsCase) values() []any {
	out := make([]any, len(c.Rows))
	for i, r := range c.Rows {
		m := map[string]any{
			"a": goInt(intKinds[r.KA%len(intKinds)], r.I64),
			"b": goInt(uintKinds[r.KB%len(uintKinds)], int64(r.U64)),
			"c": goInt(smallKinds[r.KC%len(smallKinds)], int64(r.I32)),
		}
		if r.HasS {
			m["s"] = r.S
		}
		if r.MAny {
			mm := map[string]any{}
			for j, v := range r.M {
				mm[fmt.Sprintf("k%d", j)] = int64(v)
			}
			m["m"] = mm
		} else {
			mm := map[string]int64{}
			for j, v := range r.M {
				mm[fmt.Sprintf("k%d", j)] = int64(v)
			}
			m["m"] = mm
		}
		out[i] = m
	}
	return out
}

func (c AnyRowsCase) want() []string {
	var out []string
	for _, r := range c.Rows {
		s := "null"
		if r.HasS {
			s = r.S
		}
		ms := ""
		for j, v := range r.M {
			ms += fmt.Sprintf("k%d:%d,", j, v)
		}
		out = append(out, fmt.Sprintf("a=%d b=%d c=%d s=%s m=%s", r.I64, r.U64, r.I32, s, ms))
	}
	return out
}

func renderAny(rows []parquet.Row) []string {
	var out []string
	for _, row := range rows {
		f := map[int]string{}
		var keys []string
		var vals []int64
		for _, v := range row {
			switch {
			case v.Column() == 3:
				if !v.IsNull() {
					keys = append(keys, string(v.ByteArray()))
				}
			case v.Column() == 4:
				if !v.IsNull() {
					vals = append(vals, v.Int64())
				}
			case v.IsNull():
				f[v.Column()] = "null"
			case v.Column() == 0:
				f[0] = fmt.Sprint(v.Int64())
			case v.Column() == 1:
				f[1] = fmt.Sprint(uint64(v.Int64()))
			case v.Column() == 2:
				f[2] = fmt.Sprint(v.Int32())
			default:
				f[5] = string(v.ByteArray())
			}
		}
		var entries []string
		for i := range keys {
			if i < len(vals) {
				entries = append(entries, fmt.Sprintf("%s:%d,", keys[i], vals[i]))
			} else {
				entries = append(entries, keys[i]+":?,")
			}
		}
		sort.Strings(entries)
		out = append(out, fmt.Sprintf("a=%s b=%s c=%s s=%s m=%s", f[0], f[1], f[2], f[5], strings.Join(entries, "")))
	}
	return out
}

func runAnyRowsCase(c AnyRowsCase, o *kit.Obs) *kit.Failure {
	schema := parquet.NewSchema("t", parquet.Group{
		"a": parquet.Int(64),
		"b": parquet.Uint(64),
		"c": parquet.Int(32),
		"m": parquet.Map(parquet.String(), parquet.Int(64)),
		"s": parquet.Optional(parquet.String()),
	})
	readBack := func(data []byte) ([]string, error) {
		f, err := parquet.OpenFile(bytes.NewReader(data), int64(len(data)))
		if err != nil {
			return nil, err
		}
		r := parquet.NewReader(f)
		defer r.Close()
		var rows []parquet.Row
		buf := make([]parquet.Row, 16)
		for {
			n, err := r.ReadRows(buf)
			for _, row := range buf[:n] {
				rows = append(rows, row.Clone())
			}
			if err != nil {
				break
			}
		}
		return renderAny(rows), nil
	}
	paths := []struct {
		name string
		run  func(vals []any) ([]string, error)
	}{
		{"Schema.Deconstruct", func(vals []any) ([]string, error) {
			var rows []parquet.Row
			for _, v := range vals {
				rows = append(rows, schema.Deconstruct(nil, v))
			}
			return renderAny(rows), nil
		}},
		{"Writer.Write(any)", func(vals []any) ([]string, error) {
			var out bytes.Buffer
			w := parquet.NewWriter(&out, schema)
			for _, v := range vals {
				if err := w.Write(v); err != nil {
					return nil, err
				}
			}
			if err := w.Close(); err != nil {
				return nil, err
			}
			return readBack(out.Bytes())
		}},
		{"GenericWriter[any].Write", func(vals []any) ([]string, error) {
			var out bytes.Buffer
			w := parquet.NewGenericWriter[any](&out, schema)
			if _, err := w.Write(vals); err != nil {
				return nil, err
			}
			if err := w.Close(); err != nil {
				return nil, err
			}
			return readBack(out.Bytes())
		}},
		{"GenericBuffer[any].Write", func(vals []any) ([]string, error) {
			b := parquet.NewGenericBuffer[any](schema)
			if _, err := b.Write(vals); err != nil {
				return nil, err
			}
			var out bytes.Buffer
			w := parquet.NewWriter(&out, schema)
			if _, err := w.WriteRowGroup(b); err != nil {
				return nil, err
			}
			if err := w.Close(); err != nil {
				return nil, err
			}
			return readBack(out.Bytes())
		}},
	}
	want := c.want()
	wide := false
	for _, r := range c.Rows {
		if r.I64 > 1<<31 || r.U64 > 1<<31 {
			wide = true
		}
	}
	for _, p := range paths {
		feat := "{path=" + p.name + "}"
		var got []string
		var err error
		func() {
			defer func() {
				if r := recover(); r != nil {
					err = fmt.Errorf("panic: %v", r)
				}
			}()
			got, err = p.run(c.values())
		}()
		if err != nil {
			return kit.Failf("c03/anyrows/error"+feat, "%s: %v", p.name, err)
		}
		if fmt.Sprint(got) != fmt.Sprint(want) {
			for i := range want {
				if i >= len(got) || got[i] != want[i] {
					g := "(missing)"
					if i < len(got) {
						g = got[i]
					}
					r := c.Rows[i]
					return kit.Failf("c03/anyrows/stream-differs"+feat, "%s row %d: given a=%s(%d) b=%s(%d) c=%s(%d), stored %s", p.name, i, intKinds[r.KA%len(intKinds)], r.I64, uintKinds[r.KB%len(uintKinds)], r.U64, smallKinds[r.KC%len(smallKinds)], r.I32, g)
				}
			}
			return kit.Failf("c03/anyrows/stream-differs"+feat, "%s stored %d rows, %d given", p.name, len(got), len(want))
		}
	}
	if wide {
		o.NonTrivial()
	}
	return nil
}

var anyRowsSpec = &kit.Spec[AnyRowsCase]{
	Property: "C03",
	Name:     "anyrows",
	Rule: "1-10 rows given as map[string]any under an explicit schema {a INT64, b UINT64, c INT32, m MAP string->INT64 (given as map[string]int64 or map[string]any), s optional string}; the integers are Go values of a generated kind (int8..int64, int, uint8..uint64, uint) holding a value that kind can hold and the column can store; through Schema.Deconstruct, Writer.Write(any), GenericWriter[any].Write and GenericBuffer[any].Write: " +
		"every path stores exactly the numbers given. Non-trivial = a value above 2^31.",
	Gen: genAnyRowsCase,
	Run: runAnyRowsCase,
}

func TestPropAnyRows(t *testing.T) { kit.Both(t, anyRowsSpec) }
