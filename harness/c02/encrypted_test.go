package c02

import (
	"bytes"
	"fmt"
	"testing"

	"github.com/parquet-go/parquet-go"
	"pgregory.net/rapid"

	"verifharness/gen"
	"verifharness/kit"
	"verifharness/pq"
	"verifharness/ref"
)

// EncCase: an encrypted file read by the independent reader using only what
// Encryption.md says (layout, AES-GCM, AAD = prefix‖file id‖module type‖ordinals
// with the module type numbers of §4.4.2).
type EncCase struct {
	Schema    ref.Node    `json:"schema"`
	Plan      gen.RowPlan `json:"plan"`
	EncFooter bool        `json:"encfooter"`
	PageBuf   int         `json:"pagebuf"`
	Dict      bool        `json:"dict"`
}

func genEnc(t *rapid.T) EncCase {
	var c EncCase
	c.Schema = gen.Schema(t, gen.SchemaOpts{MaxDepth: 2, MaxLeaves: 3, LeafIDs: []string{"int64", "string", "int32", "bool", "double"}})
	c.Plan = gen.RowsAtLeast(t, &c.Schema, 5, 20, 200, gen.ValueOpts{Style: gen.SmallDom, Leaf: gen.Opts{MaxBytes: 8}})
	c.EncFooter = rapid.Bool().Draw(t, "encfooter")
	c.PageBuf = []int{64, 512, 0}[rapid.IntRange(0, 2).Draw(t, "pb")]
	c.Dict = rapid.Bool().Draw(t, "dict")
	return c
}

func runEnc(c EncCase, o *kit.Obs) *kit.Failure {
	cols := ref.Columns(&c.Schema)
	rows := c.Plan.ExpandWith(&c.Schema)
	key := []byte("0123456789abcdef")
	opts := []parquet.WriterOption{pq.BuildSchema(&c.Schema), parquet.WithEncryption(&parquet.EncryptionConfig{FooterKey: key, EncryptedFooter: c.EncFooter})}
	if c.PageBuf > 0 {
		opts = append(opts, parquet.PageBufferSize(c.PageBuf))
	}
	if c.Dict {
		opts = append(opts, parquet.DefaultEncoding(&parquet.RLEDictionary))
	}
	var buf bytes.Buffer
	w := parquet.NewWriter(&buf, opts...)
	if _, err := w.WriteRows(pq.Rows(&c.Schema, cols, rows)); err != nil {
		o.Rejected()
		return nil
	}
	if err := w.Close(); err != nil {
		o.Rejected()
		return nil
	}
	data := buf.Bytes()
	read := func(mt ref.ModuleTypes) ([][]ref.LV, error) {
		ef, err := ref.ParseEncrypted(data, ref.Keys{Footer: key}, mt)
		if err != nil {
			return nil, err
		}
		out := make([][]ref.LV, len(cols))
		for gi := range ef.RowGroups {
			for ci := range ef.RowGroups[gi].Chunks {
				if err := ef.WalkEncryptedChunk(gi, ci, key, mt); err != nil {
					return nil, fmt.Errorf("row group %d column %d: %w", gi, ci, err)
				}
				s, err := ef.DecodeChunk(ef.Cols[ci], cols[ci].Leaf, &ef.RowGroups[gi].Chunks[ci])
				if err != nil {
					return nil, fmt.Errorf("row group %d column %d: %w", gi, ci, err)
				}
				out[ci] = append(out[ci], s...)
			}
		}
		return out, nil
	}
	want := ref.ShredRows(&c.Schema, rows)
	got, err := read(ref.SpecModules)
	if err != nil {
		if _, err2 := read(ref.LibModules); err2 == nil {
			return kit.Failf("c02/encrypted/aad-module-numbering-differs-from-spec", "a reader using the module type numbers of Encryption.md §4.4.2 cannot authenticate the page modules (%v); with the library's own numbering (page header 3, dictionary page 4, bloom 6/7, indexes 8/9) it can", err)
		}
		return kit.Failf("c02/encrypted/independent-reader", "%v", err)
	}
	for ci := range cols {
		if len(got[ci]) != len(want[ci]) {
			return kit.Failf("c02/encrypted/values-count", "column %d: %d entries, %d written", ci, len(got[ci]), len(want[ci]))
		}
		for i := range want[ci] {
			if !sameLV(cols[ci].Leaf, want[ci][i], got[ci][i]) {
				return kit.Failf("c02/encrypted/values-differ", "column %d entry %d: written %v, read %v", ci, i, want[ci][i], got[ci][i])
			}
		}
	}
	o.ClassIf(c.EncFooter, "encrypted-footer")
	if len(rows) > 0 {
		o.NonTrivial()
	}
	return nil
}

var encSpec = &kit.Spec[EncCase]{
	Property: "C02",
	Name:     "encrypted",
	Scale:    0.25,
	Rule: "small files written with WithEncryption (footer key only; encrypted or signed plaintext footer; dictionary or default encodings; small or default pages) are read by the independent reader using only Encryption.md: " +
		"file layout, AES_GCM_V1 modules, AAD = prefix‖file identifier‖module type‖ordinals with the module type numbers of §4.4.2. Non-trivial = the file has rows.",
	Assumptions: []string{"AES-GCM from the Go standard library is trusted"},
	Gen:         genEnc,
	Run:         runEnc,
}

func TestPropEncrypted(t *testing.T) { kit.Both(t, encSpec) }
