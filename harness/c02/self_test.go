package c02

import (
	"os"
	"path/filepath"
	"strings"
	"testing"

	"github.com/parquet-go/parquet-go"

	"verifharness/pq"
	"verifharness/ref"
)

// TestSelfTestdata validates the independent decoder on the files of
// /repo/testdata (several written by other implementations): whatever it can
// decode must equal what the library reads. A failure here is a harness
// problem (exit 2 in the driver), never a VIOLATION.
func TestSelfTestdata(t *testing.T) {
	files, _ := filepath.Glob("/repo/testdata/*.parquet")
	checked := 0
	for _, path := range files {
		data, err := os.ReadFile(path)
		if err != nil || len(data) == 0 {
			continue
		}
		pf, err := ref.ParseFile(data)
		if err != nil {
			t.Logf("%s: skipped: %v", filepath.Base(path), err)
			continue
		}
		f, err := pq.Open(data)
		if err != nil {
			t.Logf("%s: library cannot open: %v", filepath.Base(path), err)
			continue
		}
		ok := true
		for gi := range pf.RowGroups {
			rg := f.RowGroups()[gi]
			rows := rg.Rows()
			lib, err := pq.ReadAllRows(rows, 100)
			rows.Close()
			if err != nil {
				t.Logf("%s: library read error: %v", filepath.Base(path), err)
				ok = false
				break
			}
			libStreams := make([][]ref.LV, len(pf.Cols))
			for _, row := range lib {
				for _, v := range row {
					c := v.Column()
					libStreams[c] = append(libStreams[c], pq.FromValue(ref.Leaf{Phys: pf.Cols[c].Phys, Len: pf.Cols[c].Len}, v))
				}
			}
			for ci := range pf.RowGroups[gi].Chunks {
				c := &pf.RowGroups[gi].Chunks[ci]
				col := pf.Cols[ci]
				leaf := ref.Leaf{ID: "file", Phys: col.Phys, Len: col.Len}
				if err := pf.WalkChunk(c); err != nil {
					t.Errorf("%s rg %d col %v: walk: %v", filepath.Base(path), gi, col.Path, err)
					ok = false
					continue
				}
				stream, err := pf.DecodeChunk(col, leaf, c)
				if err != nil {
					if strings.Contains(err.Error(), "unsupported") || strings.Contains(err.Error(), "encoding 4") {
						t.Logf("%s col %v: skipped: %v", filepath.Base(path), col.Path, err)
						continue
					}
					t.Errorf("%s rg %d col %v: decode: %v", filepath.Base(path), gi, col.Path, err)
					ok = false
					continue
				}
				if len(stream) != len(libStreams[ci]) {
					t.Errorf("%s rg %d col %v: %d entries, library reads %d", filepath.Base(path), gi, col.Path, len(stream), len(libStreams[ci]))
					ok = false
					continue
				}
				for i := range stream {
					if !sameLV(leaf, stream[i], libStreams[ci][i]) {
						t.Errorf("%s rg %d col %v entry %d: %v vs library %v", filepath.Base(path), gi, col.Path, i, stream[i], libStreams[ci][i])
						ok = false
						break
					}
				}
			}
		}
		if ok {
			checked++
		}
	}
	if checked < 5 {
		t.Fatalf("only %d testdata files could be cross-checked", checked)
	}
	t.Logf("%d testdata files cross-checked", checked)
	_ = parquet.Boolean
}
