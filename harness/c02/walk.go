// Package c02 checks written files with the independent decoder of package ref.
package c02

import (
	"bytes"
	"fmt"
	"sort"

	"verifharness/gen"
	"verifharness/ref"
)

// Issue is one inconsistency found in a file.
type Issue struct {
	Rule string
	Msg  string
}

func issue(rule, format string, args ...any) *Issue {
	return &Issue{Rule: rule, Msg: fmt.Sprintf(format, args...)}
}

// Expect is what the harness knows about how the file was produced.
type Expect struct {
	Cols    []ref.Column    // model columns (nil: take them from the file)
	Streams [][]ref.LV      // expected Dremel streams of the whole file (nil: skip the semantic comparison)
	Opts    *gen.WriterOpts // writer options (nil: unknown)
	Codecs  []int           // expected codec per column (-1 unknown)
	MaxRows int64
}

var codecIDs = map[string]int{"": ref.CodecNone, "none": ref.CodecNone, "snappy": ref.CodecSnappy, "gzip": ref.CodecGzip, "zstd": ref.CodecZstd, "brotli": ref.CodecBrotli, "lz4": ref.CodecLZ4Raw}

// CodecID maps a harness codec name to the parquet enum.
func CodecID(name string) int { return codecIDs[name] }

// Info summarises a verified file for classification.
type Info struct {
	RowGroups, MaxPages int
	DictPages, Blooms   int
	Nested              bool
	Pages               [][][]ref.PPage // [rowgroup][column]
	File                *ref.PFile
	Streams             [][]ref.LV
}

// Verify walks and decodes the file and returns the first inconsistency.
func Verify(data []byte, ex Expect) (*Info, *Issue) {
	f, err := ref.ParseFile(data)
	if err != nil {
		return nil, issue("footer", "%v", err)
	}
	info := &Info{File: f, RowGroups: len(f.RowGroups)}
	ncols := len(f.Cols)
	leaves := make([]ref.Leaf, ncols)
	if ex.Cols != nil {
		if len(ex.Cols) != ncols {
			return nil, issue("schema", "file schema has %d leaf columns, %d were declared", ncols, len(ex.Cols))
		}
		for i, c := range ex.Cols {
			fc := f.Cols[i]
			if ref.PathString(c.Path) != ref.PathString(fc.Path) || c.Leaf.Phys != fc.Phys || c.MaxRep != fc.MaxRep || c.MaxDef != fc.MaxDef || (c.Leaf.Phys == ref.FLBA && c.Leaf.Len != fc.Len) {
				return nil, issue("schema", "column %d: file says %v phys=%d len=%d rep=%d def=%d, declared %v phys=%d len=%d rep=%d def=%d",
					i, fc.Path, fc.Phys, fc.Len, fc.MaxRep, fc.MaxDef, c.Path, c.Leaf.Phys, c.Leaf.Len, c.MaxRep, c.MaxDef)
			}
			leaves[i] = c.Leaf
		}
	} else {
		for i, fc := range f.Cols {
			leaves[i] = ref.Leaf{ID: "file", Phys: fc.Phys, Len: fc.Len}
		}
	}
	got := make([][]ref.LV, ncols)
	var totalRows int64
	var prevEnd int64 = 4
	for gi := range f.RowGroups {
		rg := &f.RowGroups[gi]
		if len(rg.Chunks) != ncols {
			return info, issue("rowgroup-columns", "row group %d has %d column chunks, schema has %d leaves", gi, len(rg.Chunks), ncols)
		}
		rgRows := rg.V.Int(3, -1)
		if ord, ok := rg.V.Field(7); ok && ord.I != int64(gi) {
			return info, issue("ordinal", "row group %d has ordinal %d", gi, ord.I)
		}
		var sumComp, sumUncomp int64
		pagesOfRG := make([][]ref.PPage, ncols)
		for ci := range rg.Chunks {
			c := &rg.Chunks[ci]
			col := f.Cols[ci]
			md := c.Meta
			where := fmt.Sprintf("row group %d column %d (%s)", gi, ci, ref.PathString(col.Path))
			if int(md.Int(1, -1)) != col.Phys {
				return info, issue("chunk-type", "%s: type %d, schema says %d", where, md.Int(1, -1), col.Phys)
			}
			var path []string
			for _, p := range md.List(3) {
				path = append(path, string(p.B))
			}
			if ref.PathString(path) != ref.PathString(col.Path) {
				return info, issue("path-in-schema", "%s: path_in_schema %q", where, path)
			}
			if ex.Codecs != nil && ex.Codecs[ci] >= 0 && int(md.Int(4, 0)) != ex.Codecs[ci] {
				return info, issue("codec", "%s: codec %d, configured %d", where, md.Int(4, 0), ex.Codecs[ci])
			}
			if err := f.WalkChunk(c); err != nil {
				return info, issue("page-walk", "%s: %v", where, err)
			}
			stream, err := f.DecodeChunk(col, leaves[ci], c)
			if err != nil {
				return info, issue("page-decode", "%s: %v", where, err)
			}
			pagesOfRG[ci] = c.Pages
			// offsets
			var dictPage *ref.PPage
			var dataPages []*ref.PPage
			for pi := range c.Pages {
				p := &c.Pages[pi]
				if p.Type == 2 {
					if dictPage != nil || len(dataPages) > 0 {
						return info, issue("dictionary-position", "%s: dictionary page at %d is not the first page of the chunk", where, p.Offset)
					}
					dictPage = p
				} else {
					dataPages = append(dataPages, p)
				}
			}
			if len(dataPages) > info.MaxPages {
				info.MaxPages = len(dataPages)
			}
			if dictPage != nil {
				info.DictPages++
				if d := md.Int(11, 0); d != dictPage.Offset {
					return info, issue("dictionary-offset", "%s: dictionary_page_offset %d, dictionary page is at %d", where, d, dictPage.Offset)
				}
			} else if d := md.Int(11, 0); md.Has(11) && d != 0 {
				return info, issue("dictionary-offset", "%s: dictionary_page_offset %d but the chunk has no dictionary page", where, d)
			}
			if len(dataPages) > 0 && md.Int(9, 0) != dataPages[0].Offset {
				return info, issue("data-page-offset", "%s: data_page_offset %d, first data page is at %d", where, md.Int(9, 0), dataPages[0].Offset)
			}
			if c.Start < prevEnd {
				return info, issue("chunk-overlap", "%s: starts at %d, before the end of the previous chunk (%d)", where, c.Start, prevEnd)
			}
			prevEnd = c.End
			var uncomp int64
			var numValues int64
			encSeen := map[int]bool{}
			statsSeen := map[[2]int]int{}
			var nulls int64
			for _, p := range c.Pages {
				uncomp += int64(p.HeaderLen + p.UncompSize)
				encSeen[p.Encoding] = true
				statsSeen[[2]int{p.Type, p.Encoding}]++
				if p.Type != 2 {
					numValues += int64(p.NumValues)
				}
				if !p.HasCRC {
					// the writer's thrift encoder omits a zero crc (e.g. an empty body)
					if want := f.CRCOf(&p); want != 0 {
						return info, issue("crc-missing", "%s: page at %d has no crc, body has %08x", where, p.Offset, want)
					}
				} else if want := f.CRCOf(&p); p.CRC != want {
					return info, issue("crc", "%s: page at %d crc %08x, body has %08x", where, p.Offset, p.CRC, want)
				}
				if p.Type == 2 {
					continue
				}
				pn := 0
				for _, d := range p.Def {
					if d < col.MaxDef {
						pn++
					}
				}
				nulls += int64(pn)
				if len(p.Rep) > 0 && p.Rep[0] != 0 {
					return info, issue("page-row-boundary", "%s: page at %d starts with repetition level %d (not on a row boundary)", where, p.Offset, p.Rep[0])
				}
				if p.Type == 3 {
					if p.NumNulls != pn {
						return info, issue("v2-num-nulls", "%s: page at %d num_nulls %d, counted %d", where, p.Offset, p.NumNulls, pn)
					}
					if p.NumRows != p.DecodedRows {
						return info, issue("v2-num-rows", "%s: page at %d num_rows %d, counted %d", where, p.Offset, p.NumRows, p.DecodedRows)
					}
				}
				if p.Stats != nil && p.Stats.Has(3) && p.Stats.Int(3, 0) != int64(pn) {
					return info, issue("page-null-count", "%s: page at %d statistics.null_count %d, counted %d", where, p.Offset, p.Stats.Int(3, 0), pn)
				}
			}
			if numValues != md.Int(5, -1) {
				return info, issue("num-values", "%s: num_values %d, pages hold %d", where, md.Int(5, -1), numValues)
			}
			// size_statistics.unencoded_byte_array_data_bytes: "the number of physical bytes stored for BYTE_ARRAY
			// data values assuming no encoding" = the sum of the value lengths, whatever encoding the pages use
			if ss, ok := md.Field(16); ok && ss.Has(1) && leaves[ci].Phys == ref.ByteArr {
				var sum int64
				for _, e := range stream {
					if !e.Null {
						sum += int64(len(e.B))
					}
				}
				if got := ss.Int(1, -1); got != sum {
					return info, issue("unencoded-byte-array-bytes", "%s: size_statistics.unencoded_byte_array_data_bytes is %d, the values of the chunk take %d bytes", where, got, sum)
				}
			}
			if got := md.Int(7, -1); got != c.End-c.Start {
				return info, issue("total-compressed-size", "%s: total_compressed_size %d, pages occupy %d bytes", where, got, c.End-c.Start)
			}
			if got := md.Int(6, -1); got != uncomp {
				return info, issue("total-uncompressed-size", "%s: total_uncompressed_size %d, headers+uncompressed bodies are %d", where, got, uncomp)
			}
			sumComp += c.End - c.Start
			sumUncomp += uncomp
			declared := map[int]bool{}
			for _, e := range md.List(2) {
				declared[int(e.I)] = true
			}
			for e := range encSeen {
				if !declared[e] {
					return info, issue("encodings", "%s: a page uses encoding %d which is not in the chunk's encodings list %v", where, e, keys(declared))
				}
			}
			if es := md.List(13); len(es) > 0 {
				rec := map[[2]int]int{}
				for _, e := range es {
					rec[[2]int{int(e.Int(1, 0)), int(e.Int(2, 0))}] += int(e.Int(3, 0))
				}
				if fmt.Sprint(sortedStats(rec)) != fmt.Sprint(sortedStats(statsSeen)) {
					return info, issue("encoding-stats", "%s: encoding_stats %v, pages are %v", where, sortedStats(rec), sortedStats(statsSeen))
				}
			}
			if st, ok := md.Field(12); ok && st.Has(3) && st.Int(3, 0) != nulls {
				return info, issue("chunk-null-count", "%s: statistics.null_count %d, counted %d", where, st.Int(3, 0), nulls)
			}
			chunkRows := int64(ref.CountRows(stream))
			if rgRows >= 0 && chunkRows != rgRows {
				return info, issue("rowgroup-num-rows", "%s: holds %d rows, row group num_rows is %d", where, chunkRows, rgRows)
			}
			// offset index
			if oi, is := readIndex(f, c.Top, 4, 5); is != nil {
				return info, issue("offset-index", "%s: %s", where, is.Msg)
			} else if oi != nil {
				locs := oi.List(1)
				if len(locs) != len(dataPages) {
					return info, issue("offset-index", "%s: offset index has %d locations, chunk has %d data pages", where, len(locs), len(dataPages))
				}
				for i, l := range locs {
					p := dataPages[i]
					if l.Int(1, -1) != p.Offset || l.Int(2, -1) != int64(p.HeaderLen+p.CompSize) || l.Int(3, -1) != p.FirstRowInChunk {
						return info, issue("offset-index", "%s: location %d is (offset %d, size %d, first row %d), page is (offset %d, size %d, first row %d)",
							where, i, l.Int(1, -1), l.Int(2, -1), l.Int(3, -1), p.Offset, p.HeaderLen+p.CompSize, p.FirstRowInChunk)
					}
				}
			}
			// column index
			if ci2, is := readIndex(f, c.Top, 6, 7); is != nil {
				return info, issue("column-index", "%s: %s", where, is.Msg)
			} else if ci2 != nil {
				np := ci2.List(1)
				if len(np) != len(dataPages) || len(ci2.List(2)) != len(dataPages) || len(ci2.List(3)) != len(dataPages) || (ci2.Has(5) && len(ci2.List(5)) != len(dataPages)) {
					return info, issue("column-index-length", "%s: column index arrays have lengths null_pages=%d min=%d max=%d null_counts=%d, chunk has %d data pages",
						where, len(np), len(ci2.List(2)), len(ci2.List(3)), len(ci2.List(5)), len(dataPages))
				}
				for i, p := range dataPages {
					pn := 0
					for _, d := range p.Def {
						if d < col.MaxDef {
							pn++
						}
					}
					allNull := pn == len(p.Def) && len(p.Def) > 0
					if (np[i].I != 0) != allNull {
						return info, issue("column-index-null-pages", "%s: null_pages[%d]=%v but the page has %d nulls of %d values", where, i, np[i].I != 0, pn, len(p.Def))
					}
					if ci2.Has(5) && ci2.List(5)[i].I != int64(pn) {
						return info, issue("column-index-null-counts", "%s: null_counts[%d]=%d, counted %d", where, i, ci2.List(5)[i].I, pn)
					}
					// parquet.thrift, ColumnIndex: for a page holding only nulls, min_values and max_values are byte[0]
					if allNull && (len(ci2.List(2)[i].B) != 0 || len(ci2.List(3)[i].B) != 0) {
						return info, issue("column-index-null-page-bounds", "%s: page %d holds only nulls, its column index entries are min=%x max=%x instead of empty values", where, i, ci2.List(2)[i].B, ci2.List(3)[i].B)
					}
				}
			}
			// bloom filter
			if md.Has(14) && md.Int(14, 0) > 0 {
				info.Blooms++
				off, ln := md.Int(14, 0), md.Int(15, 0)
				if off < 4 || off >= f.FooterPos {
					return info, issue("bloom-offset", "%s: bloom_filter_offset %d outside the file body", where, off)
				}
				h, used, err := ref.ReadThriftStruct(data[off:f.FooterPos])
				if err != nil {
					return info, issue("bloom-header", "%s: bloom filter header at %d: %v", where, off, err)
				}
				nb := h.Int(1, -1)
				gz := false
				if comp, ok := h.Field(4); ok {
					gz = !comp.Has(1) // BloomFilterCompression union: 1 UNCOMPRESSED; anything else is this writer's gzip extension (numBytes = stored bytes)
				}
				if nb <= 0 || (!gz && nb%32 != 0) {
					return info, issue("bloom-header", "%s: bloom filter numBytes %d", where, nb)
				}
				if md.Has(15) && ln > 0 {
					if int64(used)+nb != ln {
						return info, issue("bloom-length", "%s: bloom_filter_length %d, header (%d) + bitset (%d) = %d", where, ln, used, nb, int64(used)+nb)
					}
					if off+ln > f.FooterPos {
						return info, issue("bloom-length", "%s: bloom filter [%d,%d) exceeds the file body", where, off, off+ln)
					}
				}
			} else if md.Has(15) && md.Int(15, 0) != 0 {
				return info, issue("bloom-length", "%s: bloom_filter_length %d without an offset", where, md.Int(15, 0))
			}
			got[ci] = append(got[ci], stream...)
			if col.MaxRep > 0 || col.MaxDef > 1 {
				info.Nested = true
			}
		}
		info.Pages = append(info.Pages, pagesOfRG)
		if fo, ok := rg.V.Field(5); ok && ncols > 0 && fo.I != rg.Chunks[0].Start {
			return info, issue("rowgroup-file-offset", "row group %d: file_offset %d, first page is at %d", gi, fo.I, rg.Chunks[0].Start)
		}
		if tc, ok := rg.V.Field(6); ok && tc.I != sumComp {
			return info, issue("rowgroup-total-compressed", "row group %d: total_compressed_size %d, chunks sum to %d", gi, tc.I, sumComp)
		}
		if tb := rg.V.Int(2, -1); tb != sumUncomp {
			return info, issue("rowgroup-total-byte-size", "row group %d: total_byte_size %d, chunks sum to %d uncompressed bytes", gi, tb, sumUncomp)
		}
		if ex.MaxRows > 0 && rgRows > ex.MaxRows {
			return info, issue("rowgroup-too-large", "row group %d has %d rows, MaxRowsPerRowGroup is %d", gi, rgRows, ex.MaxRows)
		}
		totalRows += rgRows
	}
	if f.NumRows() != totalRows {
		return info, issue("file-num-rows", "file num_rows %d, row groups sum to %d", f.NumRows(), totalRows)
	}
	info.Streams = got
	if ex.Opts != nil {
		want := map[string]string{}
		for _, kv := range ex.Opts.KV {
			want[kv[0]] = kv[1]
		}
		have := map[string]string{}
		for _, kv := range f.Meta.List(5) {
			have[string(kv.Bytes(1))] = string(kv.Bytes(2))
		}
		for k, v := range want {
			if hv, ok := have[k]; !ok || hv != v {
				return info, issue("key-value-metadata", "key %q: want %q, file has %q (present=%v)", k, v, hv, ok)
			}
		}
	}
	if ex.Streams != nil {
		for c := range got {
			w, g := ex.Streams[c], got[c]
			if len(w) != len(g) {
				return info, issue("values-count", "column %d (%s): independent decoder finds %d entries, %d were written", c, ref.PathString(f.Cols[c].Path), len(g), len(w))
			}
			for i := range w {
				if !sameLV(leaves[c], w[i], g[i]) {
					return info, issue("values-differ", "column %d (%s) entry %d: written %v, independent decoder reads %v", c, ref.PathString(f.Cols[c].Path), i, w[i], g[i])
				}
			}
		}
	}
	return info, nil
}

func sameLV(l ref.Leaf, a, b ref.LV) bool {
	if a.Null != b.Null || a.Rep != b.Rep || a.Def != b.Def {
		return false
	}
	if a.Null {
		return true
	}
	switch l.Phys {
	case ref.Boolean:
		return a.I == b.I // booleans must decode to exactly 0 or 1
	case ref.Int32, ref.Float:
		return uint32(a.I) == uint32(b.I)
	case ref.Int64, ref.Double:
		return a.I == b.I
	}
	return bytes.Equal(a.B, b.B)
}

func keys(m map[int]bool) []int {
	var out []int
	for k := range m {
		out = append(out, k)
	}
	sort.Ints(out)
	return out
}

func sortedStats(m map[[2]int]int) [][3]int {
	var out [][3]int
	for k, v := range m {
		out = append(out, [3]int{k[0], k[1], v})
	}
	sort.Slice(out, func(i, j int) bool {
		if out[i][0] != out[j][0] {
			return out[i][0] < out[j][0]
		}
		return out[i][1] < out[j][1]
	})
	return out
}

// readIndex reads the thrift struct at (offset field, length field) of a ColumnChunk.
func readIndex(f *ref.PFile, cc ref.TVal, offField, lenField int16) (*ref.TVal, *Issue) {
	if !cc.Has(offField) {
		return nil, nil
	}
	off, ln := cc.Int(offField, 0), cc.Int(lenField, 0)
	if off == 0 && ln == 0 {
		return nil, nil
	}
	if off < 4 || off+ln > f.FooterPos || ln <= 0 {
		return nil, issue("index-location", "index at [%d,+%d) outside the file body", off, ln)
	}
	v, used, err := ref.ReadThriftStruct(f.Data[off : off+ln])
	if err != nil {
		return nil, issue("index-decode", "index at %d: %v", off, err)
	}
	if int64(used) != ln {
		return nil, issue("index-length", "index at %d: recorded length %d, struct occupies %d", off, ln, used)
	}
	return &v, nil
}
