package c02

import (
	"bytes"
	"testing"

	"github.com/parquet-go/parquet-go"

	"pgregory.net/rapid"

	"verifharness/gen"
	"verifharness/kit"
	"verifharness/pq"
	"verifharness/ref"
)

func TestMain(m *testing.M) { kit.Main(m) }

type Case struct {
	Schema ref.Node       `json:"schema"`
	Plan   gen.RowPlan    `json:"plan"`
	Opts   gen.WriterOpts `json:"opts"`
	Ops    []gen.Op       `json:"ops"`
	Path   string         `json:"path,omitempty"`    // "" WriteRows | "WriteRowGroup(file)" | "WriteRowGroup(buffer)"
	Src    gen.WriterOpts `json:"srcopts"`           // options of the intermediate file of the WriteRowGroup(file) path
	BigDic int            `json:"bigdict,omitempty"` // >0: that many extra rows with distinct values (dictionary indexes above 16 bits)
}

func genCase(t *rapid.T) Case {
	var c Case
	c.Schema = gen.Schema(t, gen.SchemaOpts{MaxDepth: 3, MaxLeaves: kit.Pick(6, 10), PerLeafEnc: true, PerLeafCodec: true, EncFor: pq.ValidEncodings, Codecs: pq.CodecNames})
	cols := ref.Columns(&c.Schema)
	st := []gen.Style{gen.Mixed, gen.SmallDom, gen.Wide}[rapid.IntRange(0, 2).Draw(t, "style")]
	c.Plan = gen.Rows(t, &c.Schema, 8, kit.Pick(300, 3000), gen.ValueOpts{Style: st, Leaf: gen.Opts{MaxBytes: kit.Pick(40, 300)}, LongLists: 10})
	c.Plan.Uniq = rapid.IntRange(0, 2).Draw(t, "uniq") == 0
	c.Opts = gen.WriterOptions(t, cols, gen.OptsBias{SmallPages: rapid.Bool().Draw(t, "small"), EncFor: pq.ValidEncodings})
	c.Ops = gen.WriteOps(t, c.Plan.NumRows())
	c.Path = []string{"", "", "", "WriteRowGroup(file)", "WriteRowGroup(buffer)"}[rapid.IntRange(0, 4).Draw(t, "path")]
	c.Src = gen.WriterOptions(t, cols, gen.OptsBias{SmallPages: rapid.Bool().Draw(t, "srcsmall"), NoBloom: true, EncFor: pq.ValidEncodings})
	c.Src.Pool = ""
	if rapid.IntRange(0, 39).Draw(t, "bigdict") == 7 {
		// one row group, a dictionary above 65536 entries: RLE_DICTIONARY indexes wider than 16 bits
		c.BigDic = 66000 + rapid.IntRange(0, 3000).Draw(t, "bigdictn")
		c.Schema = ref.Node{Name: "root", Rep: "req", Kind: "group", Children: []ref.Node{
			{Name: "c0", Rep: "req", Kind: "leaf", Leaf: []string{"int64", "string", "int32"}[rapid.IntRange(0, 2).Draw(t, "bdleaf")], Enc: "dict"},
			{Name: "c1", Rep: "opt", Kind: "leaf", Leaf: "int32"},
		}}
		c.Plan = gen.RowPlan{Pool: []ref.V{{F: []ref.V{{I: 1, B: []byte("v")}, {I: 7}}}}, Runs: [][2]int{{0, c.BigDic}}, Uniq: true}
		c.Opts.MaxRows, c.Opts.DictMax, c.Opts.PageBuf, c.Opts.Bloom, c.Ops, c.Path = 0, 0, 0, nil, nil, ""
		c.Opts.SkipBounds, c.Opts.SkipStats = nil, nil
	}
	return c
}

// produce writes the rows through the case's path.
func produce(c Case, cols []ref.Column, rows []ref.V) ([]byte, error) {
	if c.Path == "" {
		return pq.WriteFile(&c.Schema, cols, rows, c.Opts, c.Ops)
	}
	schema := pq.BuildSchema(&c.Schema)
	var rgs []parquet.RowGroup
	if c.Path == "WriteRowGroup(file)" {
		src, err := pq.WriteFile(&c.Schema, cols, rows, c.Src, c.Ops)
		if err != nil {
			return nil, err
		}
		f, err := pq.Open(src)
		if err != nil {
			return nil, err
		}
		rgs = f.RowGroups()
	} else {
		b := parquet.NewBuffer(schema)
		if _, err := b.WriteRows(pq.Rows(&c.Schema, cols, rows)); err != nil {
			return nil, err
		}
		rgs = []parquet.RowGroup{b}
	}
	var out bytes.Buffer
	w := parquet.NewWriter(&out, append([]parquet.WriterOption{schema}, pq.Options(c.Opts, cols, "")...)...)
	for _, rg := range rgs {
		if _, err := w.WriteRowGroup(rg); err != nil {
			return nil, err
		}
	}
	if err := w.Close(); err != nil {
		return nil, err
	}
	return out.Bytes(), nil
}

func codecsOf(root *ref.Node, cols []ref.Column, o gen.WriterOpts) []int {
	out := make([]int, len(cols))
	for i, c := range cols {
		name := c.Node.Codec
		if name == "" {
			name = o.Codec
		}
		out[i] = CodecID(name)
	}
	return out
}

func runCase(c Case, o *kit.Obs) *kit.Failure {
	cols := ref.Columns(&c.Schema)
	rows := c.Plan.ExpandWith(&c.Schema)
	data, err := produce(c, cols, rows)
	if err != nil {
		o.Rejected()
		o.Class("write-error")
		return nil
	}
	ex := Expect{Cols: cols, Streams: ref.ShredRows(&c.Schema, rows), Opts: &c.Opts, Codecs: codecsOf(&c.Schema, cols, c.Opts), MaxRows: c.Opts.MaxRows}
	if c.Path != "" {
		// a copied chunk may keep the source's codec, and row groups arrive as the source cut them
		ex.Codecs, ex.MaxRows = nil, 0
		o.Class("path-" + c.Path)
	}
	o.ClassIf(c.BigDic > 0, "dictionary-above-65536")
	info, is := Verify(data, ex)
	if is != nil {
		return kit.Failf("c02/"+is.Rule, "%s", is.Msg)
	}
	o.ClassIf(info.MaxPages >= 2, "multi-page")
	o.ClassIf(info.RowGroups >= 2, "multi-rowgroup")
	o.ClassIf(info.DictPages > 0, "dictionary")
	o.ClassIf(info.Blooms > 0, "bloom")
	o.ClassIf(info.Nested, "nested")
	if info.MaxPages >= 2 && (info.RowGroups >= 2 || info.DictPages > 0 || info.Blooms > 0 || info.Nested) {
		o.NonTrivial()
	}
	return nil
}

var spec = &kit.Spec[Case]{
	Property: "C02",
	Name:     "wellformed",
	Rule: "files from the C01 domain (random nested schemas over 37 leaf types, per-leaf encodings/codecs, every writer option incl. bloom filters, multiple row groups, v1/v2 pages, dictionary fallback, long lists, Write/Flush histories) " +
		"are parsed by an independent decoder written from parquet.thrift / Encodings.md (thrift compact reader, page walk, RLE hybrid, PLAIN, dictionary, DELTA_*, BYTE_STREAM_SPLIT, snappy/LZ4 block decoders, std gzip; zstd/brotli via their upstream packages): " +
		"~30 structural rules (offsets, sizes, counts, CRC-32 of every page body, pages starting on row boundaries, encodings/encoding_stats, offset-index and column-index alignment, bloom header, key/value metadata, row-group limits) and equality of the decoded Dremel streams with the reference shredder. " +
		"Non-trivial = some chunk has ≥2 data pages and the file has ≥2 row groups, a dictionary page, a bloom filter or nested columns.",
	Assumptions: []string{
		"the decoder encodes my reading of the format documents; it is self-tested on the third-party files of /repo/testdata against the library's reading",
		"zstd (klauspost/compress) and brotli (andybalholm/brotli) decompression are trusted third-party code called directly",
		"min/max bounds are checked by C05, not here",
	},
	Gen: genCase,
	Run: runCase,
}

func TestProp(t *testing.T) { kit.Both(t, spec) }
