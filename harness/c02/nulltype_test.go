package c02

import (
	"bytes"
	"fmt"
	"testing"

	"github.com/parquet-go/parquet-go"
	"pgregory.net/rapid"

	"verifharness/kit"
)

// NullTypeCase: files holding a column of the NULL (UNKNOWN) logical type —
// every value is null — next to ordinary columns: the walker of this directory
// (footer, page headers, page index arrays, offsets, counts) must find them as
// well-formed as any other file.
type NullTypeCase struct {
	Rows    int  `json:"rows"`
	Batch   int  `json:"batch"`   // rows per WriteRows call
	PageBuf int  `json:"pagebuf"` // PageBufferSize (0: default)
	MaxRows int  `json:"maxrows"` // MaxRowsPerRowGroup (0: none)
	V2      bool `json:"v2"`
	Flush   int  `json:"flush"` // Flush after every n-th batch (0: never)
	Buffer  bool `json:"buffer"` // written as WriteRowGroup of a Buffer
}

func genNullTypeCase(t *rapid.T) NullTypeCase {
	return NullTypeCase{
		Rows:    rapid.IntRange(0, 200).Draw(t, "rows"),
		Batch:   []int{1, 3, 10, 64}[rapid.IntRange(0, 3).Draw(t, "batch")],
		PageBuf: []int{0, 16, 64}[rapid.IntRange(0, 2).Draw(t, "pagebuf")],
		MaxRows: []int{0, 7, 50}[rapid.IntRange(0, 2).Draw(t, "maxrows")],
		V2:      rapid.Bool().Draw(t, "v2"),
		Flush:   []int{0, 0, 2, 5}[rapid.IntRange(0, 3).Draw(t, "flush")],
		Buffer:  rapid.IntRange(0, 3).Draw(t, "buffer") == 0,
	}
}

func runNullTypeCase(c NullTypeCase, o *kit.Obs) (fl *kit.Failure) {
	defer func() {
		if r := recover(); r != nil {
			fl = kit.Failf("c02/nulltype/panic", "%v", r)
		}
	}()
	if c.Batch <= 0 {
		c.Batch = 1
	}
	schema := parquet.NewSchema("t", parquet.Group{
		"a": parquet.Int(64),
		"n": parquet.Optional(parquet.Leaf(parquet.NullType)),
		"s": parquet.Optional(parquet.String()),
	})
	opts := []parquet.WriterOption{schema}
	if c.PageBuf > 0 {
		opts = append(opts, parquet.PageBufferSize(c.PageBuf))
	}
	if c.MaxRows > 0 {
		opts = append(opts, parquet.MaxRowsPerRowGroup(int64(c.MaxRows)))
	}
	if c.V2 {
		opts = append(opts, parquet.DataPageVersion(2))
	} else {
		opts = append(opts, parquet.DataPageVersion(1))
	}
	rows := make([]parquet.Row, c.Rows)
	for i := range rows {
		s := parquet.NullValue().Level(0, 0, 2)
		if i%3 != 0 {
			s = parquet.ByteArrayValue([]byte(fmt.Sprintf("s%d", i%7))).Level(0, 1, 2)
		}
		rows[i] = parquet.Row{parquet.Int64Value(int64(i)).Level(0, 0, 0), parquet.NullValue().Level(0, 0, 1), s}
	}
	var out bytes.Buffer
	w := parquet.NewWriter(&out, opts...)
	if c.Buffer {
		b := parquet.NewBuffer(schema)
		if _, err := b.WriteRows(rows); err != nil {
			return kit.Failf("c02/nulltype/write-error", "Buffer.WriteRows: %v", err)
		}
		if _, err := w.WriteRowGroup(b); err != nil {
			return kit.Failf("c02/nulltype/write-error", "WriteRowGroup: %v", err)
		}
	} else {
		for at, k := 0, 0; at < len(rows); k++ {
			n := min(c.Batch, len(rows)-at)
			if _, err := w.WriteRows(rows[at : at+n]); err != nil {
				return kit.Failf("c02/nulltype/write-error", "WriteRows: %v", err)
			}
			at += n
			if c.Flush > 0 && k%c.Flush == c.Flush-1 {
				if err := w.Flush(); err != nil {
					return kit.Failf("c02/nulltype/write-error", "Flush: %v", err)
				}
			}
		}
	}
	if err := w.Close(); err != nil {
		return kit.Failf("c02/nulltype/write-error", "Close: %v", err)
	}
	info, is := Verify(out.Bytes(), Expect{})
	if is != nil {
		return kit.Failf("c02/nulltype/"+is.Rule, "%s", is.Msg)
	}
	if info.RowGroups > 0 && c.Rows >= 10 {
		o.NonTrivial()
	}
	o.ClassIf(c.Buffer, "buffer")
	o.ClassIf(info.RowGroups > 1, "row-groups>1")
	return nil
}

var nullTypeSpec = &kit.Spec[NullTypeCase]{
	Property: "C02",
	Name:     "nulltype",
	Rule: "0-200 rows of {int64, optional NULL-type column, optional string} written by WriteRows in batches (with Flush at generated places) or as WriteRowGroup of a Buffer, data page v1 / v2, page buffers of 16 / 64 bytes or default, MaxRowsPerRowGroup 7 / 50 / none; " +
		"the file is walked by the independent decoder of this directory with the schema found in the file: footer, page headers, offsets, counts, null pages and the arrays of the page index must agree with the bytes. Non-trivial = at least 10 rows.",
	Gen: genNullTypeCase,
	Run: runNullTypeCase,
}

func TestPropNullType(t *testing.T) { kit.Both(t, nullTypeSpec) }
