package c15

import (
	"bytes"
	"crypto/sha256"
	"encoding/hex"
	"fmt"
	"github.com/parquet-go/parquet-go/variant"
	"io"
	"math"
	"os"
	"reflect"
	"runtime"
	"sort"
	"sync"
	"testing"
	"time"

	"github.com/parquet-go/parquet-go"
	"pgregory.net/rapid"

	"verifharness/gen"
	"verifharness/kit"
	"verifharness/pq"
	"verifharness/ref"
)

func TestMain(m *testing.M) { kit.Main(m) }

// Job is one unit of documented concurrent use.
type Job struct {
	Kind string `json:"kind"` // write | read-rows | read-pages | read-index | read-bloom | column-writers | rowgroups | buffer-sort | async-seek | schema-of
	Seed int    `json:"seed"` // picks rows / targets deterministically
	N    int    `json:"n"`
}

type Case struct {
	Schema     ref.Node       `json:"schema"`
	Plan       gen.RowPlan    `json:"plan"`
	Opts       gen.WriterOpts `json:"opts"`
	Jobs       []Job          `json:"jobs"`
	Procs      int            `json:"procs"`
	Goroutines int            `json:"goroutines"`
	Rounds     int            `json:"rounds"` // every goroutine repeats its job this many times
}

var jobKinds = []string{"read-encrypted", "variant-convert", "write-reuse", "read-any", "reconstruct", "write", "read-rows", "read-rows", "read-pages", "read-index", "read-bloom", "column-writers", "rowgroups", "buffer-sort", "async-seek", "schema-of"}

func genCase(t *rapid.T) Case {
	var c Case
	c.Schema = gen.Schema(t, gen.SchemaOpts{MaxDepth: 2, MaxLeaves: 4, LeafIDs: []string{"int64", "string", "bytes", "int32", "double", "bool", "uuid"}, PerLeafEnc: true, EncFor: pq.ValidEncodings})
	cols := ref.Columns(&c.Schema)
	c.Plan = gen.RowsAtLeast(t, &c.Schema, 6, 60, 400, gen.ValueOpts{Style: gen.Mixed, Leaf: gen.Opts{MaxBytes: 24}})
	if len(c.Plan.Pool) == 0 { // an empty file gives the readers nothing to do: use rows of zero values instead
		c.Plan.Pool = []ref.V{{}}
		c.Plan.Runs = [][2]int{{0, 60}}
	}
	c.Plan.Uniq = true
	c.Opts = gen.WriterOptions(t, cols, gen.OptsBias{SmallPages: true, EncFor: pq.ValidEncodings, Codecs: []string{"", "snappy", "zstd", "gzip", "lz4", "brotli"}})
	c.Opts.Pool, c.Opts.KV = "", nil
	c.Opts.MaxRows = int64([]int{0, 50, 100}[rapid.IntRange(0, 2).Draw(t, "mr")])
	for i := range cols { // bloom filters on every column so read-bloom has work
		c.Opts.Bloom = append(c.Opts.Bloom, gen.BloomCol{Col: i, Bits: 10})
	}
	n := rapid.IntRange(3, 10).Draw(t, "njobs")
	toAny := anyReadable(&c.Schema)
	for i := 0; i < n; i++ {
		j := Job{Kind: jobKinds[rapid.IntRange(0, len(jobKinds)-1).Draw(t, "jk")], Seed: rapid.IntRange(0, 1000).Draw(t, "js"), N: rapid.IntRange(1, 64).Draw(t, "jn")}
		if !toAny && (j.Kind == "read-any" || j.Kind == "reconstruct") {
			j.Kind = "read-rows"
		}
		c.Jobs = append(c.Jobs, j)
	}
	c.Procs = []int{1, 2, 4, 16}[rapid.IntRange(0, 3).Draw(t, "procs")]
	c.Goroutines = []int{2, 4, 8, 16}[rapid.IntRange(0, 3).Draw(t, "g")]
	c.Rounds = rapid.IntRange(1, 4).Draw(t, "rounds")
	return c
}

// anyReadable reports whether rows of the schema can be materialised as `any`:
// the library reads MAP columns into map[string]any, which only works for
// string keys (other key types panic or are converted rune-wise; reading into
// `any` is not a documented mapping, so those schemas get other reader jobs).
func anyReadable(n *ref.Node) bool {
	if n.Kind == "map" && n.Children[0].Leaf != "string" {
		return false
	}
	for i := range n.Children {
		if !anyReadable(&n.Children[i]) {
			return false
		}
	}
	return true
}

type world struct {
	c      Case
	cols   []ref.Column
	rows   []ref.V
	prows  []parquet.Row
	schema *parquet.Schema
	data   []byte             // the shared file's bytes
	file   *parquet.File      // opened once, shared by all reader jobs
	afile  *parquet.File      // same bytes opened in asynchronous read mode
	edata  []byte             // the same rows in an encrypted file
	efile  *parquet.File      // ... opened without its page index (dictionaries are loaded lazily)
	pool   parquet.BufferPool // shared by the writers that defer their bloom filters
	vrg    parquet.RowGroup   // a row group with a shredded variant column (fixed content)
	vconv  parquet.Conversion // shredded -> unshredded, ONE value shared by every goroutine
}

// variantWorld builds the fixed shredded-variant row group and the shared conversion.
func (w *world) variantWorld() error {
	shredded, err := parquet.ShreddedVariant(parquet.Group{"a": parquet.Int(64), "b": parquet.String()})
	if err != nil {
		return err
	}
	src := parquet.NewSchema("t", parquet.Group{"id": parquet.Int(64), "var": shredded})
	dst := parquet.NewSchema("t", parquet.Group{"id": parquet.Int(64), "var": parquet.Variant()})
	type raw struct {
		Metadata []byte `parquet:"metadata"`
		Value    []byte `parquet:"value"`
	}
	type row struct {
		ID  int64 `parquet:"id"`
		Var any   `parquet:"var,variant"`
	}
	rows := make([]row, 300)
	for i := range rows {
		fields := []variant.Field{{Name: "a", Value: variant.Int64(int64(i))}, {Name: "b", Value: variant.String(fmt.Sprintf("s%d", i))}}
		if i%3 == 0 {
			fields = append(fields, variant.Field{Name: fmt.Sprintf("extra%d", i%7), Value: variant.Double(float64(i))})
		}
		if i%5 == 0 {
			fields[0].Value = variant.String("not an int")
		}
		var mb variant.MetadataBuilder
		data := variant.Encode(&mb, variant.MakeObject(fields))
		_, meta := mb.Build()
		rows[i] = row{ID: int64(i), Var: raw{Metadata: meta, Value: data}}
	}
	var buf bytes.Buffer
	wr := parquet.NewGenericWriter[row](&buf, src, parquet.PageBufferSize(512))
	if _, err := wr.Write(rows); err != nil {
		return err
	}
	if err := wr.Close(); err != nil {
		return err
	}
	f, err := pq.Open(buf.Bytes())
	if err != nil {
		return err
	}
	w.vrg = f.RowGroups()[0]
	w.vconv, err = parquet.Convert(dst, src)
	return err
}

func digest(parts ...[]byte) string {
	h := sha256.New()
	for _, p := range parts {
		h.Write(p)
	}
	return hex.EncodeToString(h.Sum(nil)[:8])
}

func rowsDigest(rows []parquet.Row) string {
	h := sha256.New()
	for _, r := range rows {
		for _, v := range r {
			fmt.Fprintf(h, "%d/%d/%d/%v|", v.Column(), v.RepetitionLevel(), v.DefinitionLevel(), v.IsNull())
			if !v.IsNull() {
				h.Write(v.Bytes())
			}
		}
	}
	return hex.EncodeToString(h.Sum(nil)[:8])
}

// canon writes a value tree deterministically: pointers are followed, map keys sorted.
func canon(w io.Writer, v reflect.Value) {
	if !v.IsValid() {
		io.WriteString(w, "nil|")
		return
	}
	switch v.Kind() {
	case reflect.Interface, reflect.Pointer:
		if v.IsNil() {
			io.WriteString(w, "nil|")
			return
		}
		canon(w, v.Elem())
	case reflect.Map:
		keys := v.MapKeys()
		ks := make([]string, len(keys))
		for i, k := range keys {
			var b bytes.Buffer
			canon(&b, k)
			ks[i] = b.String()
		}
		idx := make([]int, len(keys))
		for i := range idx {
			idx[i] = i
		}
		sort.Slice(idx, func(a, b int) bool { return ks[idx[a]] < ks[idx[b]] })
		io.WriteString(w, "map{")
		for _, i := range idx {
			io.WriteString(w, ks[i])
			io.WriteString(w, ":")
			canon(w, v.MapIndex(keys[i]))
		}
		io.WriteString(w, "}")
	case reflect.Slice, reflect.Array:
		if v.Kind() == reflect.Slice && v.Type().Elem().Kind() == reflect.Uint8 {
			fmt.Fprintf(w, "%x|", v.Bytes())
			return
		}
		io.WriteString(w, "[")
		for i := 0; i < v.Len(); i++ {
			canon(w, v.Index(i))
		}
		io.WriteString(w, "]")
	case reflect.Struct:
		io.WriteString(w, "{")
		for i := 0; i < v.NumField(); i++ {
			if v.Type().Field(i).IsExported() {
				canon(w, v.Field(i))
			} else {
				fmt.Fprintf(w, "%v|", v.Field(i))
			}
		}
		io.WriteString(w, "}")
	case reflect.Float32, reflect.Float64:
		fmt.Fprintf(w, "%x|", math.Float64bits(v.Float()))
	default:
		fmt.Fprintf(w, "%v|", v.Interface())
	}
}

// run executes one job and returns a digest of its observable result.
func (w *world) run(j Job) (string, error) {
	c := w.c
	switch j.Kind {
	case "write":
		lo := j.Seed % (len(w.prows) + 1)
		var buf bytes.Buffer
		wr := parquet.NewWriter(&buf, append([]parquet.WriterOption{w.schema}, pq.Options(c.Opts, w.cols, "")...)...)
		if _, err := wr.WriteRows(w.prows[lo:]); err != nil {
			return "", err
		}
		if _, err := wr.WriteRows(w.prows[:lo]); err != nil {
			return "", err
		}
		if err := wr.Close(); err != nil {
			return "", err
		}
		return digest(buf.Bytes()), nil
	case "variant-convert":
		// one Conversion (shredded variant -> unshredded) used by every goroutine at once
		r := parquet.ConvertRowGroup(w.vrg, w.vconv).Rows()
		rows, err := pq.ReadAllRows(r, 1+j.N)
		r.Close()
		if err != nil {
			return "", err
		}
		return rowsDigest(rows), nil
	case "write-reuse":
		// a writer that is closed, reset and used again; its bloom filters are deferred to the end
		// of the file through a buffer pool that all such writers share
		lo := j.Seed % (len(w.prows) + 1)
		var b1, b2 bytes.Buffer
		opts := append([]parquet.WriterOption{w.schema}, pq.Options(c.Opts, w.cols, "")...)
		opts = append(opts, parquet.DeferBloomFiltersWithBuffers(w.pool), parquet.MaxRowsPerRowGroup(int64(20+j.N)))
		wr := parquet.NewWriter(&b1, opts...)
		if _, err := wr.WriteRows(w.prows[lo:]); err != nil {
			return "", err
		}
		if err := wr.Close(); err != nil {
			return "", err
		}
		wr.Reset(&b2)
		if _, err := wr.WriteRows(w.prows[:lo]); err != nil {
			return "", err
		}
		if err := wr.Close(); err != nil {
			return "", err
		}
		return digest(b1.Bytes(), b2.Bytes()), nil
	case "read-rows":
		rgs := w.file.RowGroups()
		rg := rgs[j.Seed%len(rgs)]
		r := rg.Rows()
		defer r.Close()
		if k := int64(j.Seed) % (rg.NumRows() + 1); k > 0 && j.Seed%2 == 0 {
			if err := r.SeekToRow(k); err != nil {
				return "", err
			}
		}
		rows, err := pq.ReadAllRows(r, j.N)
		if err != nil {
			return "", err
		}
		return rowsDigest(rows), nil
	case "read-encrypted":
		rgs := w.efile.RowGroups()
		rg := rgs[j.Seed%len(rgs)]
		r := rg.Rows()
		defer r.Close()
		if k := int64(j.Seed) % (rg.NumRows() + 1); k > 0 && j.Seed%3 != 0 {
			if err := r.SeekToRow(k); err != nil {
				return "", err
			}
		}
		rows, err := pq.ReadAllRows(r, j.N)
		if err != nil {
			return "", err
		}
		return rowsDigest(rows), nil
	case "async-seek":
		rgs := w.afile.RowGroups()
		rg := rgs[j.Seed%len(rgs)]
		r := rg.Rows()
		defer r.Close()
		h := ""
		for _, k := range []int64{int64(j.Seed) % (rg.NumRows() + 1), 0, int64(j.N) % (rg.NumRows() + 1)} {
			if err := r.SeekToRow(k); err != nil {
				return "", err
			}
			buf := make([]parquet.Row, 7)
			n, _ := r.ReadRows(buf)
			h += rowsDigest(buf[:n])
		}
		return h, nil
	case "read-pages":
		rgs := w.file.RowGroups()
		rg := rgs[j.Seed%len(rgs)]
		cc := rg.ColumnChunks()[j.N%len(w.cols)]
		pages := cc.Pages()
		defer pages.Close()
		h := sha256.New()
		for {
			p, err := pages.ReadPage()
			if err != nil {
				break
			}
			vals := make([]parquet.Value, p.NumValues())
			n, _ := p.Values().ReadValues(vals)
			for _, v := range vals[:n] {
				fmt.Fprintf(h, "%d/%d/%v|", v.RepetitionLevel(), v.DefinitionLevel(), v.IsNull())
				if !v.IsNull() {
					h.Write(v.Bytes())
				}
			}
			parquet.Release(p)
		}
		return hex.EncodeToString(h.Sum(nil)[:8]), nil
	case "read-index":
		h := ""
		for _, rg := range w.file.RowGroups() {
			for _, cc := range rg.ColumnChunks() {
				ci, err := cc.ColumnIndex()
				if err != nil {
					return "", err
				}
				oi, err := cc.OffsetIndex()
				if err != nil {
					return "", err
				}
				h += fmt.Sprint(ci.NumPages(), oi.NumPages())
				for p := 0; p < oi.NumPages(); p++ {
					h += fmt.Sprint(oi.Offset(p), oi.FirstRowIndex(p), ci.NullCount(p), ci.NullPage(p))
				}
			}
		}
		return digest([]byte(h)), nil
	case "read-bloom":
		h := ""
		for _, rg := range w.file.RowGroups() {
			for ci, cc := range rg.ColumnChunks() {
				bf := cc.BloomFilter()
				if bf == nil {
					h += "-"
					continue
				}
				row := w.prows[j.Seed%len(w.prows)]
				for _, v := range row {
					if v.Column() == ci && !v.IsNull() {
						ok, err := bf.Check(v)
						if err != nil {
							return "", err
						}
						h += fmt.Sprint(ok)
					}
				}
			}
		}
		return digest([]byte(h)), nil
	case "column-writers":
		// one goroutine per ColumnWriter, whole rows per call
		var buf bytes.Buffer
		wr := parquet.NewWriter(&buf, append([]parquet.WriterOption{w.schema}, pq.Options(c.Opts, w.cols, "")...)...)
		streams, err := ref.SplitRows(ref.ShredRows(&c.Schema, w.rows))
		if err != nil {
			return "", err
		}
		cws := wr.ColumnWriters()
		var wg sync.WaitGroup
		errs := make([]error, len(cws))
		for ci := range cws {
			wg.Add(1)
			go func(ci int) {
				defer wg.Done()
				step := j.N
				for i := 0; i < len(streams); i += step {
					var vals []parquet.Value
					for _, r := range streams[i:min(i+step, len(streams))] {
						for _, lv := range r[ci] {
							vals = append(vals, pq.ToValue(w.cols[ci].Leaf, lv, ci))
						}
					}
					if _, err := cws[ci].WriteRowValues(vals); err != nil {
						errs[ci] = err
						return
					}
				}
			}(ci)
		}
		wg.Wait()
		for _, e := range errs {
			if e != nil {
				return "", e
			}
		}
		if err := wr.Close(); err != nil {
			return "", err
		}
		return digest(buf.Bytes()), nil
	case "rowgroups":
		// row groups filled concurrently, committed in order
		var buf bytes.Buffer
		opts := c.Opts
		opts.MaxRows = 0
		wr := parquet.NewWriter(&buf, append([]parquet.WriterOption{w.schema}, pq.Options(opts, w.cols, "")...)...)
		k := 2 + j.Seed%3
		parts := make([]*parquet.ConcurrentRowGroupWriter, k)
		for i := range parts {
			parts[i] = wr.BeginRowGroup()
		}
		var wg sync.WaitGroup
		errs := make([]error, k)
		per := (len(w.prows) + k - 1) / k
		for i := range parts {
			wg.Add(1)
			go func(i int) {
				defer wg.Done()
				lo, hi := i*per, min((i+1)*per, len(w.prows))
				if lo < hi {
					_, errs[i] = parts[i].WriteRows(w.prows[lo:hi])
				}
			}(i)
		}
		wg.Wait()
		for i := range parts {
			if errs[i] != nil {
				return "", errs[i]
			}
			if _, err := parts[i].Commit(); err != nil {
				return "", err
			}
		}
		if err := wr.Close(); err != nil {
			return "", err
		}
		return digest(buf.Bytes()), nil
	case "buffer-sort":
		b := parquet.NewBuffer(w.schema)
		if _, err := b.WriteRows(w.prows[:min(len(w.prows), 10+j.N)]); err != nil {
			return "", err
		}
		sort.Sort(b)
		r := b.Rows()
		rows, err := pq.ReadAllRows(r, 13)
		r.Close()
		if err != nil {
			return "", err
		}
		return rowsDigest(rows), nil
	case "read-any":
		// rows materialised as Go maps through the File's shared Schema (reconstruct functions are built once per Schema)
		r := parquet.NewGenericReader[any](w.file)
		defer r.Close()
		if err := r.SeekToRow(int64(j.Seed) % (w.file.NumRows() + 1) / 2); err != nil {
			return "", err
		}
		h := sha256.New()
		buf := make([]any, 1+j.N%17)
		for total := 0; total < 200; {
			n, err := r.Read(buf)
			for _, v := range buf[:n] {
				canon(h, reflect.ValueOf(v))
			}
			total += n
			if err != nil {
				if err == io.EOF {
					break
				}
				return "", err
			}
		}
		return hex.EncodeToString(h.Sum(nil)[:8]), nil
	case "reconstruct":
		// the shared Schema value used directly: Reconstruct into maps
		h := sha256.New()
		lo := j.Seed % len(w.prows)
		for _, row := range w.prows[lo:min(len(w.prows), lo+j.N)] {
			var m any
			if err := w.schema.Reconstruct(&m, row); err != nil {
				return "", err
			}
			canon(h, reflect.ValueOf(m))
		}
		return hex.EncodeToString(h.Sum(nil)[:8]), nil
	case "schema-of":
		// shared Schema value: Lookup / Comparator / Deconstruct use lazily built state
		s := w.schema
		h := fmt.Sprint(s.Columns())
		for _, p := range s.Columns() {
			l, _ := s.Lookup(p...)
			h += fmt.Sprint(l.ColumnIndex, l.MaxDefinitionLevel)
		}
		return digest([]byte(h)), nil
	}
	return "", fmt.Errorf("unknown job %s", j.Kind)
}

func runCase(c Case, o *kit.Obs) *kit.Failure {
	w := &world{c: c, cols: ref.Columns(&c.Schema), pool: parquet.NewBufferPool()}
	w.rows = c.Plan.ExpandWith(&c.Schema)
	w.prows = pq.Rows(&c.Schema, w.cols, w.rows)
	w.schema = pq.BuildSchema(&c.Schema)
	data, err := pq.WriteFile(&c.Schema, w.cols, w.rows, c.Opts, nil)
	if err != nil || len(w.prows) == 0 {
		if os.Getenv("VERIF_DEBUG") != "" {
			fmt.Println("serial error: writefile", err)
		}
		o.Rejected()
		return nil
	}
	w.data = data
	ekey := pq.FooterKeyOnly("0123456789abcdef")
	for _, j := range c.Jobs {
		if j.Kind == "read-encrypted" && w.edata == nil {
			if w.edata, err = pq.WriteFileWith(&c.Schema, w.cols, w.rows, c.Opts, nil, parquet.WithEncryption(&parquet.EncryptionConfig{FooterKey: ekey, EncryptedFooter: c.Procs%2 == 0})); err != nil {
				o.Rejected()
				return nil
			}
		}
	}
	for _, j := range c.Jobs {
		if j.Kind == "variant-convert" && w.vrg == nil {
			if err := w.variantWorld(); err != nil {
				return kit.Failf("harness/variant-world", "%v", err)
			}
		}
	}
	// serial reference: fresh File handles so the lazily loaded state is populated serially
	open := func() bool {
		f, err1 := pq.Open(data)
		af, err2 := pq.Open(data, parquet.FileReadMode(parquet.ReadModeAsync))
		if err1 != nil || err2 != nil || len(f.RowGroups()) == 0 {
			return false
		}
		w.file, w.afile = f, af
		if w.edata != nil {
			ef, err := pq.Open(w.edata, parquet.WithDecryption(ekey), parquet.SkipPageIndex(true))
			if err != nil || len(ef.RowGroups()) == 0 {
				return false
			}
			w.efile = ef
		}
		return true
	}
	if !open() {
		o.Rejected()
		return nil
	}
	serial := make([]string, len(c.Jobs))
	for i, j := range c.Jobs {
		d, err := w.run(j)
		if err != nil {
			o.Rejected()
			o.Class("serial-error-" + j.Kind)
			if os.Getenv("VERIF_DEBUG") != "" {
				fmt.Println("serial error:", j.Kind, err)
			}
			return nil
		}
		serial[i] = d
	}
	// concurrent run on fresh File handles (lazy indexes / bloom filters not loaded yet)
	if !open() {
		o.Rejected()
		return nil
	}
	prev := runtime.GOMAXPROCS(c.Procs)
	defer runtime.GOMAXPROCS(prev)
	type result struct {
		job int
		d   string
		err error
		pan any
	}
	total := c.Goroutines
	if total < len(c.Jobs) {
		total = len(c.Jobs)
	}
	results := make(chan result, total)
	var wg sync.WaitGroup
	start := make(chan struct{})
	for g := 0; g < total; g++ {
		wg.Add(1)
		go func(g int) {
			defer wg.Done()
			ji := g % len(c.Jobs)
			defer func() {
				if r := recover(); r != nil {
					results <- result{job: ji, pan: r}
				}
			}()
			<-start
			var d string
			var err error
			for k := 0; k < max(c.Rounds, 1) && err == nil; k++ {
				var dk string
				dk, err = w.run(c.Jobs[ji])
				if k > 0 && err == nil && dk != d {
					d = dk + " (round " + fmt.Sprint(k) + ", earlier rounds " + d + ")"
					break
				}
				d = dk
			}
			results <- result{job: ji, d: d, err: err}
		}(g)
	}
	close(start)
	done := make(chan struct{})
	go func() { wg.Wait(); close(done) }()
	select {
	case <-done:
	case <-time.After(60 * time.Second):
		buf := make([]byte, 1<<16)
		n := runtime.Stack(buf, true)
		return kit.Failf("c15/deadlock", "the concurrent run of %d jobs did not finish within 60 s\n%s", total, buf[:n])
	}
	close(results)
	for r := range results {
		kind := c.Jobs[r.job].Kind
		if r.pan != nil {
			return kit.Failf("c15/panic{job="+kind+"}", "job %d (%s) panicked in the concurrent run: %v", r.job, kind, r.pan)
		}
		if r.err != nil {
			return kit.Failf("c15/error{job="+kind+"}", "job %d (%s) failed in the concurrent run (it succeeded serially): %v", r.job, kind, r.err)
		}
		if r.d != serial[r.job] {
			return kit.Failf("c15/result-differs{job="+kind+"}", "job %d (%s) produced a different result concurrently (%s) than serially (%s)", r.job, kind, r.d, serial[r.job])
		}
	}
	shared := 0
	kinds := map[string]bool{}
	for _, j := range c.Jobs {
		kinds[j.Kind] = true
		if j.Kind[:4] == "read" || j.Kind == "async-seek" {
			shared++
		}
		o.Class("job-" + j.Kind)
	}
	o.Class(fmt.Sprintf("procs-%d", c.Procs))
	if total >= 4 && shared >= 2 && len(kinds) >= 3 {
		o.NonTrivial()
	}
	return nil
}

var spec = &kit.Spec[Case]{
	Property: "C15",
	Name:     "concurrency",
	Rule: "a workload of 3-10 jobs drawn from the documented concurrent uses — independent writers; many goroutines reading ONE opened File (rows with seeks, pages, ColumnIndex/OffsetIndex, BloomFilter.Check; the File handles are fresh, so lazily loaded indexes and filters are first touched concurrently); one goroutine per ColumnWriter; " +
		"row groups filled concurrently with BeginRowGroup and committed in order; buffers sorted independently; asynchronous read mode with seeks; a shared Schema value — is first executed serially (digest per job: sha256 of produced bytes / of returned rows and values), then concurrently on max(jobs, 2..16) goroutines released together under GOMAXPROCS in {1,2,4,16}. " +
		"Oracle: every concurrent job returns the serial digest, no panic, no error, no deadlock (60 s watchdog inside the case); one stage of every tier runs under the Go race detector, whose report fails the run. Non-trivial = ≥4 goroutines, ≥2 jobs sharing the File, ≥3 job kinds.",
	Assumptions: []string{
		"schedules are whatever the Go runtime produces under the chosen GOMAXPROCS (the harness does not own the scheduler): absence of findings holds for the explored schedules only",
		"encryption and codecs' shared pools are exercised concurrently by C20, not here",
	},
	CaseTimeout: 180 * time.Second,
	Gen:         genCase,
	Run:         runCase,
}

func TestProp(t *testing.T) { kit.Both(t, spec) }
