package c07

import (
	"bytes"
	"fmt"
	"testing"

	"github.com/parquet-go/parquet-go"
	"pgregory.net/rapid"

	"verifharness/gen"
	"verifharness/kit"
	"verifharness/pq"
	"verifharness/ref"
)

func TestMain(m *testing.M) { kit.Main(m) }

type Case struct {
	Schema   ref.Node       `json:"schema"`
	Plan     gen.RowPlan    `json:"plan"`
	Opts     gen.WriterOpts `json:"opts"`
	Ops      []gen.Op       `json:"ops"`
	Path     string         `json:"path"`                // how the values reach the destination file
	Skip     bool           `json:"skipbloom,omitempty"` // unused placeholder for reader options
	Prefetch bool           `json:"prefetch,omitempty"`
	SrcOpts  gen.WriterOpts `json:"srcopts"` // options of the intermediate source file for WriteRowGroup paths
}

var paths = []string{"WriteRows", "WriteRows", "WriteRowGroup(buffer)", "WriteRowGroup(file)", "WriteRowGroup(file,same-config)", "CopyRows(file)", "Reset+WriteRows", "WriteRows+WriteRowGroup(multi)"}

var leafIDs = []string{"bool", "int32", "int64", "int96", "float", "double", "bytes", "string", "flba:16", "flba:5", "flba:1", "uuid", "uint32", "uint64", "int8", "date", "dec64:18:4", "decflba:5:10:3", "decbytes:20:5"}

func genCase(t *rapid.T) Case {
	var c Case
	c.Schema = gen.Schema(t, gen.SchemaOpts{MaxDepth: 2, MaxLeaves: 4, LeafIDs: leafIDs, PerLeafEnc: true, EncFor: pq.ValidEncodings})
	cols := ref.Columns(&c.Schema)
	st := []gen.Style{gen.Mixed, gen.SmallDom, gen.Wide}[rapid.IntRange(0, 2).Draw(t, "style")]
	c.Plan = gen.RowsAtLeast(t, &c.Schema, 8, []int{0, 0, 50, 150}[rapid.IntRange(0, 3).Draw(t, "min")], kit.Pick(400, 3000), gen.ValueOpts{Style: st, Leaf: gen.Opts{MaxBytes: 24}})
	c.Plan.Uniq = rapid.IntRange(0, 2).Draw(t, "uniq") != 0
	// filters larger than the reader's 4 KiB buffer: ≥1200 values at 32 bits per value, in one row group
	bigFilter := rapid.IntRange(0, 7).Draw(t, "bigfilter") == 3
	if bigFilter {
		c.Plan = gen.RowsAtLeast(t, &c.Schema, 8, 1200, 1500, gen.ValueOpts{Style: st, Leaf: gen.Opts{MaxBytes: 24}})
		c.Plan.Uniq = true
	}
	bias := gen.OptsBias{SmallPages: rapid.Bool().Draw(t, "small"), NoBloom: true, EncFor: pq.ValidEncodings}
	c.Opts = gen.WriterOptions(t, cols, bias)
	c.Opts.Pool = ""
	// bloom filters on most columns
	for i := range cols {
		if rapid.IntRange(0, 3).Draw(t, "bloom?") != 0 {
			c.Opts.Bloom = append(c.Opts.Bloom, gen.BloomCol{Col: i, Bits: []int{1, 10, 32}[rapid.IntRange(0, 2).Draw(t, "bits")]})
		}
	}
	if rapid.IntRange(0, 2).Draw(t, "gz") == 0 {
		c.Opts.BloomCodec = "gzip"
	}
	c.Opts.DeferBloom = rapid.IntRange(0, 2).Draw(t, "defer") == 0
	c.Ops = gen.WriteOps(t, c.Plan.NumRows())
	if bigFilter {
		c.Ops, c.Opts.MaxRows = nil, 0
		for i := range c.Opts.Bloom {
			c.Opts.Bloom[i].Bits = 32
		}
	}
	c.Path = paths[rapid.IntRange(0, len(paths)-1).Draw(t, "path")]
	c.Prefetch = rapid.IntRange(0, 3).Draw(t, "prefetch") == 0
	c.SrcOpts = gen.WriterOptions(t, cols, bias)
	c.SrcOpts.Pool = ""
	if rapid.Bool().Draw(t, "srcbloom") {
		c.SrcOpts.Bloom = c.Opts.Bloom
	}
	return c
}

func produce(c Case, cols []ref.Column, rows []ref.V) ([]byte, error) {
	schema := pq.BuildSchema(&c.Schema)
	prows := pq.Rows(&c.Schema, cols, rows)
	dstOpts := append([]parquet.WriterOption{schema}, pq.Options(c.Opts, cols, "")...)
	if _, err := parquet.NewWriterConfig(dstOpts...); err != nil {
		return nil, &pq.ConfigError{Err: err}
	}
	var out bytes.Buffer
	switch c.Path {
	case "WriteRows":
		w := parquet.NewWriter(&out, dstOpts...)
		if err := pq.ApplyOps(w, prows, c.Ops); err != nil {
			return nil, err
		}
		if err := w.Close(); err != nil {
			return nil, err
		}
		return out.Bytes(), nil
	case "Reset+WriteRows":
		var first bytes.Buffer
		w := parquet.NewWriter(&first, dstOpts...)
		// a prior file with other values, then Reset
		if _, err := w.WriteRows(prows[:len(prows)/2]); err != nil {
			return nil, err
		}
		if err := w.Close(); err != nil {
			return nil, err
		}
		w.Reset(&out)
		if err := pq.ApplyOps(w, prows, c.Ops); err != nil {
			return nil, err
		}
		if err := w.Close(); err != nil {
			return nil, err
		}
		return out.Bytes(), nil
	case "WriteRows+WriteRowGroup(multi)":
		// rows pending in the writer (not flushed), then a multi row group holding the rest
		half := len(prows) / 2
		w := parquet.NewWriter(&out, dstOpts...)
		if _, err := w.WriteRows(prows[:half]); err != nil {
			return nil, err
		}
		var rgs []parquet.RowGroup
		third := (len(prows) - half) / 3
		for _, part := range [][]parquet.Row{prows[half : half+third], prows[half+third : half+2*third], prows[half+2*third:]} {
			if len(part) == 0 {
				continue
			}
			b := parquet.NewBuffer(schema)
			if _, err := b.WriteRows(part); err != nil {
				return nil, err
			}
			rgs = append(rgs, b)
		}
		if len(rgs) > 0 {
			if _, err := w.WriteRowGroup(parquet.MultiRowGroup(rgs...)); err != nil {
				return nil, err
			}
		}
		if err := w.Close(); err != nil {
			return nil, err
		}
		return out.Bytes(), nil
	case "WriteRowGroup(buffer)":
		b := parquet.NewBuffer(schema)
		if _, err := b.WriteRows(prows); err != nil {
			return nil, err
		}
		w := parquet.NewWriter(&out, dstOpts...)
		if _, err := w.WriteRowGroup(b); err != nil {
			return nil, err
		}
		if err := w.Close(); err != nil {
			return nil, err
		}
		return out.Bytes(), nil
	default:
		so := c.SrcOpts
		if c.Path == "WriteRowGroup(file,same-config)" {
			so = c.Opts
		}
		src, err := pq.WriteFile(&c.Schema, cols, rows, so, c.Ops)
		if err != nil {
			return nil, err
		}
		f, err := pq.Open(src)
		if err != nil {
			return nil, fmt.Errorf("open source: %w", err)
		}
		w := parquet.NewWriter(&out, dstOpts...)
		if c.Path == "CopyRows(file)" {
			r := parquet.NewReader(f)
			defer r.Close()
			if _, err := parquet.CopyRows(w, r); err != nil {
				return nil, err
			}
		} else {
			for _, rg := range f.RowGroups() {
				if _, err := w.WriteRowGroup(rg); err != nil {
					return nil, err
				}
			}
		}
		if err := w.Close(); err != nil {
			return nil, err
		}
		return out.Bytes(), nil
	}
}

func runCase(c Case, o *kit.Obs) *kit.Failure {
	cols := ref.Columns(&c.Schema)
	rows := c.Plan.ExpandWith(&c.Schema)
	data, err := produce(c, cols, rows)
	if err != nil {
		o.Rejected()
		o.Class("write-error")
		return nil
	}
	var fo []parquet.FileOption
	if c.Prefetch {
		fo = append(fo, parquet.PrefetchBloomFilters(true))
	}
	f, err := pq.Open(data, fo...)
	if err != nil {
		return kit.Failf("c07/open-error", "%v", err)
	}
	streams := ref.ShredRows(&c.Schema, rows)
	wantRows, err := ref.SplitRows(streams)
	if err != nil {
		return kit.Failf("harness/split", "%v", err)
	}
	if f.NumRows() != int64(len(rows)) {
		return kit.Failf("c07/rowcount{path="+c.Path+"}", "file has %d rows, %d written", f.NumRows(), len(rows))
	}
	filtered := map[int]bool{}
	for _, b := range c.Opts.Bloom {
		filtered[b.Col] = true
	}
	base := int64(0)
	fallback, checked := false, 0
	for gi, rg := range f.RowGroups() {
		n := rg.NumRows()
		for ci, cc := range rg.ColumnChunks() {
			if !filtered[ci] {
				continue
			}
			l := cols[ci].Leaf
			feat := fmt.Sprintf("{type=%s,path=%s}", physName(l), c.Path)
			// distinct non-null values of this chunk per the model
			seen := map[string]bool{}
			var vals []ref.LV
			for _, r := range wantRows[base : base+n] {
				for _, e := range r[ci] {
					if e.Null {
						continue
					}
					k := fmt.Sprint(e.I, e.B)
					if !seen[k] {
						seen[k] = true
						vals = append(vals, e)
					}
				}
			}
			if len(vals) == 0 {
				continue
			}
			bf := cc.BloomFilter()
			if bf == nil {
				return kit.Failf("c07/no-filter"+feat, "row group %d column %d (%s) has values but no bloom filter", gi, ci, l.ID)
			}
			for _, e := range vals {
				ok, err := bf.Check(pq.Scalar(l, e.I, e.B))
				if err != nil {
					return kit.Failf("c07/check-error"+feat, "row group %d column %d: Check: %v", gi, ci, err)
				}
				if !ok {
					return kit.Failf("c07/false-negative"+feat, "row group %d column %d (%s, %d distinct values, enc=%s dictmax=%d): written value %v reported absent",
						gi, ci, l.ID, len(vals), cols[ci].Node.Enc, c.Opts.DictMax, e)
				}
				checked++
			}
			if fc, ok := cc.(*parquet.FileColumnChunk); ok {
				_ = fc
			}
		}
		base += n
	}
	// the same chunks seen through a MultiRowGroup, alone and together with the chunks of a file holding the
	// same rows written WITHOUT bloom filters: a filter offered for the combined chunk must not answer absent
	// for any value of any part
	if len(f.RowGroups()) > 0 && len(rows) > 0 {
		plain := c.Opts
		plain.Bloom = nil
		// (other values than the file's: the uniq-by-index variant of the same plan, or its plain variant)
		plan2 := c.Plan
		plan2.Uniq = !plan2.Uniq
		rows2 := plan2.ExpandWith(&c.Schema)
		streams2 := ref.ShredRows(&c.Schema, rows2)
		var f2 *parquet.File
		if d2, err := pq.WriteFile(&c.Schema, cols, rows2, plain, nil); err == nil {
			f2, _ = pq.Open(d2)
		}
		combos := [][]parquet.RowGroup{f.RowGroups()}
		if f2 != nil && len(f2.RowGroups()) > 0 {
			combos = append(combos, append(append([]parquet.RowGroup{}, f.RowGroups()...), f2.RowGroups()...), append(append([]parquet.RowGroup{}, f2.RowGroups()...), f.RowGroups()...))
		}
		for ki, rgs := range combos {
			m := parquet.MultiRowGroup(rgs...)
			for ci, cc := range m.ColumnChunks() {
				if !filtered[ci] {
					continue
				}
				bf := cc.BloomFilter()
				if bf == nil {
					continue // no filter offered: nothing can be skipped
				}
				l := cols[ci].Leaf
				seen := map[string]bool{}
				all := streams[ci]
				if ki > 0 {
					all = append(append([]ref.LV{}, all...), streams2[ci]...)
				}
				for _, e := range all {
					k := fmt.Sprint(e.I, e.B)
					if e.Null || seen[k] {
						continue
					}
					seen[k] = true
					ok, err := bf.Check(pq.Scalar(l, e.I, e.B))
					if err != nil {
						return kit.Failf("c07/check-error{multi}", "MultiRowGroup column %d: Check: %v", ci, err)
					}
					if !ok {
						return kit.Failf(fmt.Sprintf("c07/false-negative{type=%s,multi=%d}", physName(l), ki), "the bloom filter of column %d (%s) of a MultiRowGroup of %d row groups (%s) reports the written value %v absent",
							ci, l.ID, len(rgs), []string{"the file's own", "the file's, then other rows written without filters", "other rows written without filters, then the file's"}[ki], e)
					}
					checked++
				}
				o.Class("multi-rowgroup-filter")
			}
		}
	}
	if c.Opts.DictMax > 0 {
		fallback = true
	}
	o.Class("path-" + c.Path)
	o.ClassIf(len(f.RowGroups()) >= 2, "multi-rowgroup")
	o.ClassIf(fallback, "dictmax-set")
	o.ClassIf(c.Opts.BloomCodec == "gzip", "gzip")
	o.ClassIf(c.Opts.DeferBloom, "deferred")
	if checked > 0 && (len(f.RowGroups()) >= 2 || fallback || c.Path != "WriteRows") {
		o.NonTrivial()
	}
	return nil
}

func physName(l ref.Leaf) string {
	n := gen.PhysNames[l.Phys]
	if l.Phys == ref.FLBA {
		if l.Len == 16 {
			return n + "(16)"
		}
		return n + "(n)"
	}
	return n
}

var spec = &kit.Spec[Case]{
	Property: "C07",
	Name:     "bloom",
	Rule: "files over schemas of ≤4 leaves drawn from 19 leaf types (all 8 physical types incl. BOOLEAN, INT96, FLBA of 16/5/1 bytes), required/optional/repeated, per-leaf and default encodings (plain, dictionary, delta, ...), " +
		"DictionaryMaxBytes in {0,1,16,64,1024} (fallback), bloom filters with 1/10/32 bits per value on most columns, gzip and deferred filters, several row groups; values reach the destination through " +
		"WriteRows, Reset+WriteRows, WriteRowGroup from a Buffer, WriteRowGroup from a file written with a different or the same configuration (copy / re-encode fast paths), or CopyRows; every distinct non-null value of every " +
		"filtered chunk (chunk membership from the model rows and the row-group row counts) must Check() true. Non-trivial = at least one value checked and (≥2 row groups, or a dictionary limit is set, or a path other than WriteRows).",
	Assumptions: []string{"false-positive rate is not measured", "chunk membership is computed from the reference rows and the NumRows of each row group (C01 checks that row groups partition the rows in order)"},
	Gen:         genCase,
	Run:         runCase,
}

func TestProp(t *testing.T) { kit.Both(t, spec) }
