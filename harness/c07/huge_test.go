package c07

import (
	"bytes"
	"fmt"
	"testing"

	"github.com/parquet-go/parquet-go"
	"pgregory.net/rapid"

	"verifharness/kit"
)

// HugeCase: one column chunk with hundreds of thousands of distinct values and
// a filter of tens of thousands of blocks. Block selection multiplies the upper
// hash bits by the number of blocks; implementations of it (assembly on the
// write side, Go on the read side) can only disagree for a few hashes per
// million when the number of blocks is large.
type HugeCase struct {
	N        int    `json:"n"`
	Bits     int    `json:"bits"`
	Kind     string `json:"kind"` // "int64" | "string"
	Seed     uint64 `json:"seed"`
	Prefetch bool   `json:"prefetch,omitempty"`
}

func genHuge(t *rapid.T) HugeCase {
	return HugeCase{
		N:        []int{600000, 800000, 1000000}[rapid.IntRange(0, 2).Draw(t, "n")],
		Bits:     []int{32, 32, 20}[rapid.IntRange(0, 2).Draw(t, "bits")],
		Kind:     []string{"int64", "int64", "string"}[rapid.IntRange(0, 2).Draw(t, "kind")],
		Seed:     rapid.Uint64().Draw(t, "seed"),
		Prefetch: rapid.Bool().Draw(t, "prefetch"),
	}
}

func runHuge(c HugeCase, o *kit.Obs) *kit.Failure {
	x := c.Seed | 1
	next := func() uint64 {
		x ^= x >> 12
		x ^= x << 25
		x ^= x >> 27
		return x * 2685821657736338717
	}
	var node parquet.Node = parquet.Int(64)
	if c.Kind == "string" {
		node = parquet.String()
	}
	schema := parquet.NewSchema("root", parquet.Group{"v": node})
	var buf bytes.Buffer
	w := parquet.NewWriter(&buf, schema, parquet.BloomFilters(parquet.SplitBlockFilter(uint(c.Bits), "v")), parquet.MaxRowsPerRowGroup(int64(c.N)+1))
	values := make([]parquet.Value, c.N)
	rows := make([]parquet.Row, 0, 4096)
	for i := range values {
		if c.Kind == "string" {
			values[i] = parquet.ByteArrayValue([]byte(fmt.Sprintf("k%016x", next()))).Level(0, 0, 0)
		} else {
			values[i] = parquet.Int64Value(int64(next())).Level(0, 0, 0)
		}
	}
	for i := 0; i < len(values); i += 4096 {
		rows = rows[:0]
		for j := i; j < i+4096 && j < len(values); j++ {
			rows = append(rows, values[j:j+1:j+1])
		}
		if _, err := w.WriteRows(rows); err != nil {
			o.Rejected()
			return nil
		}
	}
	if err := w.Close(); err != nil {
		o.Rejected()
		return nil
	}
	var fo []parquet.FileOption
	if c.Prefetch {
		fo = append(fo, parquet.PrefetchBloomFilters(true))
	}
	f, err := parquet.OpenFile(bytes.NewReader(buf.Bytes()), int64(buf.Len()), fo...)
	if err != nil {
		return kit.Failf("c07/open-error", "%v", err)
	}
	feat := fmt.Sprintf("{type=%s,path=WriteRows}{huge}", map[string]string{"int64": "INT64", "string": "BYTE_ARRAY"}[c.Kind])
	checked := 0
	for _, rg := range f.RowGroups() {
		bf := rg.ColumnChunks()[0].BloomFilter()
		if bf == nil {
			return kit.Failf("c07/filter-missing"+feat, "no bloom filter on a configured column")
		}
		o.Metric("filter_bytes", int(bf.Size()))
	}
	// every written value against the filter of the (single) row group
	bf := f.RowGroups()[0].ColumnChunks()[0].BloomFilter()
	if len(f.RowGroups()) != 1 {
		return kit.Failf("harness/rowgroups", "want one row group, got %d", len(f.RowGroups()))
	}
	missing := 0
	var first parquet.Value
	for _, v := range values {
		ok, err := bf.Check(v)
		if err != nil {
			return kit.Failf("c07/check-error"+feat, "%v", err)
		}
		if !ok {
			if missing == 0 {
				first = v
			}
			missing++
		}
		checked++
	}
	if missing > 0 {
		return kit.Failf("c07/false-negative"+feat, "%d of %d written values are reported absent by a filter of %d bytes (first: %v)", missing, checked, bf.Size(), first)
	}
	o.Metric("values_checked", checked)
	o.NonTrivial()
	return nil
}

var hugeSpec = &kit.Spec[HugeCase]{
	Property: "C07",
	Name:     "huge",
	Rule: "one chunk of 600k-1M distinct INT64 or string values with a filter of 20-32 bits per value (19k-125k blocks); every written value is checked through FileBloomFilter.Check (with and without prefetching). A few cases per run: the point is the number of blocks, which makes " +
		"the rounding of block selection observable (a per-value disagreement probability of blocks/2^33). Every case is non-trivial.",
	Assumptions: []string{"values are pseudo-random functions of the generated seed"},
	Scale:       0.02,
	Gen:         genHuge,
	Run:         runHuge,
}

func TestPropHuge(t *testing.T) { kit.Both(t, hugeSpec) }
