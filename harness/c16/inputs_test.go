package c16

import (
	"bytes"
	"fmt"
	"io"
	"testing"

	"github.com/parquet-go/parquet-go"
	"pgregory.net/rapid"

	"verifharness/gen"
	"verifharness/kit"
	"verifharness/pq"
	"verifharness/ref"
)

// InCase: rows handed to a row-oriented writer of some kind, in batches; the
// caller's rows must be bit-identical after every later call on that writer
// (more writes, Reset + other rows, Flush, Close).
type InCase struct {
	Schema  ref.Node    `json:"schema"`
	Plan    gen.RowPlan `json:"plan"`
	Sink    string      `json:"sink"`
	Batches []int       `json:"batches"`
	Reset   bool        `json:"reset"` // after the batches: Reset the sink (where it has one) and write the rows reversed
	SortN   int         `json:"sortn"` // SortingWriter: rows per sorted run
}

var sinks = []string{"Writer.WriteRows", "Buffer.WriteRows", "RowBuffer.WriteRows", "SortingWriter.WriteRows", "FilterRowWriter", "DedupeRowWriter", "TransformRowWriter", "MultiRowWriter", "CopyRows"}

func genIn(t *rapid.T) InCase {
	var c InCase
	c.Schema = gen.Schema(t, gen.SchemaOpts{MaxDepth: 2, MaxLeaves: 4, LeafIDs: byteLeaves})
	c.Plan = gen.RowsAtLeast(t, &c.Schema, 6, 10, 200, gen.ValueOpts{Style: gen.Mixed, Leaf: gen.Opts{MaxBytes: 30}})
	c.Plan.Uniq = true
	c.Sink = sinks[rapid.IntRange(0, len(sinks)-1).Draw(t, "sink")]
	nb := rapid.IntRange(1, 5).Draw(t, "nb")
	for i := 0; i < nb; i++ {
		c.Batches = append(c.Batches, []int{1, 3, 10, 64, 100}[rapid.IntRange(0, 4).Draw(t, "bn")])
	}
	c.Reset = rapid.Bool().Draw(t, "reset")
	c.SortN = []int{1, 7, 50, 1000}[rapid.IntRange(0, 3).Draw(t, "sortn")]
	return c
}

type rowsReader struct{ rows []parquet.Row }

func (r *rowsReader) ReadRows(dst []parquet.Row) (int, error) {
	n := 0
	for n < len(dst) && len(r.rows) > 0 {
		dst[n] = append(dst[n][:0], r.rows[0]...)
		r.rows = r.rows[1:]
		n++
	}
	if len(r.rows) == 0 {
		return n, io.EOF
	}
	return n, nil
}

func runIn(c InCase, o *kit.Obs) *kit.Failure {
	cols := ref.Columns(&c.Schema)
	vals := c.Plan.ExpandWith(&c.Schema)
	schema := pq.BuildSchema(&c.Schema)
	rows := pq.Rows(&c.Schema, cols, vals)
	// the caller's view: deep snapshot of every row it passes
	snapshot := func(rs []parquet.Row) [][]ref.LV {
		s, _ := pq.Streams(cols, rs)
		for ci := range s {
			for i := range s[ci] {
				s[ci][i].B = append([]byte(nil), s[ci][i].B...)
			}
		}
		return s
	}
	before := snapshot(rows)
	feat := "{api=" + c.Sink + "}"
	verify := func(when string) *kit.Failure {
		after, err := pq.Streams(cols, rows)
		if err != nil {
			return kit.Failf("c16/input-modified"+feat, "rows passed to the writer are malformed %s: %v", when, err)
		}
		if d := pq.DiffStreams(cols, before, after); d != "" {
			return kit.Failf("c16/input-modified"+feat, "rows passed to the writer were modified by the library, seen %s: %s", when, d)
		}
		return nil
	}
	var out bytes.Buffer
	var sink parquet.RowWriter
	var reset, flush, closeFn func() error
	switch c.Sink {
	case "Writer.WriteRows", "FilterRowWriter", "DedupeRowWriter", "TransformRowWriter", "MultiRowWriter", "CopyRows":
		w := parquet.NewWriter(&out, schema, parquet.PageBufferSize(256))
		sink, flush, closeFn = w, w.Flush, w.Close
		reset = func() error { w.Reset(&out); return nil }
		switch c.Sink {
		case "FilterRowWriter":
			sink = parquet.FilterRowWriter(w, func(r parquet.Row) bool { return len(r)%2 == 0 || true })
		case "DedupeRowWriter":
			sink = parquet.DedupeRowWriter(w, func(a, b parquet.Row) int {
				if a.Equal(b) {
					return 0
				}
				return 1
			})
		case "TransformRowWriter":
			sink = parquet.TransformRowWriter(w, func(dst, src parquet.Row) (parquet.Row, error) { return append(dst, src...), nil })
		case "MultiRowWriter":
			var second bytes.Buffer
			w2 := parquet.NewWriter(&second, schema)
			sink = parquet.MultiRowWriter(w, w2)
		}
	case "Buffer.WriteRows":
		b := parquet.NewBuffer(schema)
		sink = b
		reset = func() error { b.Reset(); return nil }
	case "RowBuffer.WriteRows":
		b := parquet.NewRowBuffer[any](schema)
		sink = b
		reset = func() error { b.Reset(); return nil }
	case "SortingWriter.WriteRows":
		var sc []parquet.SortingColumn
		for _, col := range cols {
			if col.MaxRep == 0 && col.MaxDef == 0 {
				sc = append(sc, parquet.Ascending(col.Path...))
				break
			}
		}
		w := parquet.NewSortingWriter[any](&out, int64(c.SortN), schema, parquet.SortingWriterConfig(parquet.SortingColumns(sc...)))
		sink, flush, closeFn = w, w.Flush, w.Close
		reset = func() error { w.Reset(&out); return nil }
	}
	write := func(rs []parquet.Row, what string) *kit.Failure {
		if c.Sink == "CopyRows" {
			if _, err := parquet.CopyRows(sink, &rowsReader{rows: rs}); err != nil {
				o.Rejected()
				return nil
			}
		} else if _, err := sink.WriteRows(rs); err != nil {
			o.Rejected()
			return nil
		}
		return verify("after " + what)
	}
	i := 0
	for bi, n := range c.Batches {
		if i >= len(rows) {
			break
		}
		if i+n > len(rows) {
			n = len(rows) - i
		}
		if f := write(rows[i:i+n], fmt.Sprintf("WriteRows of batch %d (%d rows)", bi, n)); f != nil {
			return f
		}
		i += n
	}
	if i < len(rows) {
		if f := write(rows[i:], "WriteRows of the remaining rows"); f != nil {
			return f
		}
	}
	if flush != nil {
		if err := flush(); err == nil {
			if f := verify("after Flush"); f != nil {
				return f
			}
		}
	}
	if c.Reset && reset != nil {
		if closeFn != nil {
			closeFn()
		}
		reset()
		if f := verify("after Reset"); f != nil {
			return f
		}
		// other bytes into the memory the sink kept: the rows reversed, as fresh copies
		rev := make([]ref.V, len(vals))
		for k := range vals {
			rev[k] = vals[len(vals)-1-k]
		}
		if _, err := sink.WriteRows(pq.Rows(&c.Schema, cols, rev)); err == nil {
			if f := verify("after Reset and a write of other rows"); f != nil {
				return f
			}
		}
	}
	if closeFn != nil {
		closeFn()
		if f := verify("after Close"); f != nil {
			return f
		}
	}
	o.Class("sink-" + c.Sink)
	o.ClassIf(c.Reset && reset != nil, "reset-and-rewrite")
	if len(rows) >= 10 {
		o.NonTrivial()
	}
	return nil
}

var inSpec = &kit.Spec[InCase]{
	Property: "C16",
	Name:     "inputs",
	Rule: "rows of byte-array-heavy dynamic schemas are passed, in 1-5 batches, to Writer.WriteRows, Buffer.WriteRows, RowBuffer.WriteRows, SortingWriter.WriteRows (runs of 1/7/50/1000 rows), FilterRowWriter, DedupeRowWriter, TransformRowWriter, MultiRowWriter or CopyRows; " +
		"the caller's rows (levels, kinds, bytes) are compared with a deep snapshot after every WriteRows, after Flush, after Reset, after a write of other rows into the reset sink and after Close. Non-trivial = ≥10 rows.",
	Assumptions: []string{"the rows reader used for CopyRows copies into the destination rows like the library's own readers do"},
	Scale:       1,
	Gen:         genIn,
	Run:         runIn,
}

func TestPropInputs(t *testing.T) { kit.Both(t, inSpec) }
