package c16

import (
	"bytes"
	"errors"
	"fmt"
	"io"
	"runtime"
	"strings"
	"testing"
	"time"

	"github.com/parquet-go/parquet-go"
	"pgregory.net/rapid"

	"verifharness/gen"
	"verifharness/kit"
	"verifharness/pq"
	"verifharness/ref"
	"verifharness/typed"
)

func TestMain(m *testing.M) {
	parquet.VerifSetPoison(true) // released pooled memory is overwritten: late references become wrong values
	kit.Main(m)
}

type Op struct {
	K string `json:"k"` // read | seek | churn | close | rewrite
	N int    `json:"n,omitempty"`
}

// Case: a file of a catalogue type (typed reads) or a dynamic schema (row reads)
// and a history; everything handed to the caller is snapshotted and re-checked
// after every later operation.
type Case struct {
	Type   string         `json:"type,omitempty"`
	Schema *ref.Node      `json:"schema,omitempty"`
	Plan   gen.RowPlan    `json:"plan"`
	Opts   gen.WriterOpts `json:"opts"`
	Ops    []Op           `json:"ops"`
	Async  bool           `json:"async,omitempty"`
	Clone  bool           `json:"clone,omitempty"`  // row reads: keep clones (valid forever) instead of raw rows
	Reuse  bool           `json:"reuse,omitempty"`  // typed reads: one destination slice is passed to every Read and the rows are copied out shallowly
	Source string         `json:"source,omitempty"` // typed reads: "" file | "GenericBuffer" | "RowBuffer" (in-memory row group, rewritten by "rewrite" ops)
}

var byteLeaves = []string{"string", "bytes", "flba:5", "flba:16", "uuid", "int96", "decbytes:20:5", "json", "int64", "double", "bool"}

func genCase(t *rapid.T) Case {
	var c Case
	var root *ref.Node
	if rapid.Bool().Draw(t, "typed") {
		names := []string{"Scalars", "OptScalars", "OptPair", "Pointers", "Encoded", "Logical", "Lists", "Nested", "Maps", "DictLists", "Deep", "NestedMaps", "OptGroup", "Embedded", "Maps", "Lists"}
		c.Type = names[rapid.IntRange(0, len(names)-1).Draw(t, "type")]
		root = &typed.ByName(c.Type).Node
	} else {
		s := gen.Schema(t, gen.SchemaOpts{MaxDepth: 3, MaxLeaves: 4, LeafIDs: byteLeaves, PerLeafEnc: true, EncFor: pq.ValidEncodings})
		c.Schema = &s
		root = c.Schema
	}
	cols := ref.Columns(root)
	c.Plan = gen.RowsAtLeast(t, root, 6, []int{20, 80, 200}[rapid.IntRange(0, 2).Draw(t, "min")], kit.Pick(400, 2000), gen.ValueOpts{Style: gen.Mixed, Leaf: gen.Opts{MaxBytes: 30}})
	c.Plan.Uniq = true
	c.Opts = gen.WriterOptions(t, cols, gen.OptsBias{SmallPages: true, NoBloom: true, EncFor: pq.ValidEncodings, Codecs: []string{"", "snappy", "zstd", "lz4"}})
	c.Opts.Pool, c.Opts.KV = "", nil
	c.Opts.PageBuf = []int{64, 128, 256, 1024}[rapid.IntRange(0, 3).Draw(t, "pb")]
	c.Opts.MaxRows = int64([]int{0, 0, 50, 100}[rapid.IntRange(0, 3).Draw(t, "mr")])
	n := rapid.IntRange(2, 14).Draw(t, "nops")
	for i := 0; i < n; i++ {
		switch k := rapid.IntRange(0, 9).Draw(t, "op"); {
		case k <= 4:
			c.Ops = append(c.Ops, Op{K: "read", N: []int{1, 3, 17, 64, 200}[rapid.IntRange(0, 4).Draw(t, "rn")]})
		case k <= 6:
			c.Ops = append(c.Ops, Op{K: "churn", N: rapid.IntRange(1, 3).Draw(t, "cn")})
		case k <= 8:
			c.Ops = append(c.Ops, Op{K: "seek", N: rapid.IntRange(0, 1000).Draw(t, "sk")})
		default:
			c.Ops = append(c.Ops, Op{K: []string{"close", "close", "drop"}[rapid.IntRange(0, 2).Draw(t, "end")]})
		}
	}
	c.Ops = append(c.Ops, Op{K: "churn", N: 2}, Op{K: "close"}, Op{K: "churn", N: 2})
	c.Async = rapid.IntRange(0, 3).Draw(t, "async") == 0
	c.Clone = rapid.Bool().Draw(t, "clone")
	c.Reuse = c.Type != "" && rapid.Bool().Draw(t, "reuse")
	if c.Type != "" && rapid.IntRange(0, 2).Draw(t, "buffered") == 0 {
		c.Source = []string{"GenericBuffer", "RowBuffer"}[rapid.IntRange(0, 1).Draw(t, "bufkind")]
		// the memory of the buffer is reused when it is reset and written again
		for i := range c.Ops {
			if c.Ops[i].K == "churn" {
				c.Ops[i].K = "rewrite"
			}
		}
	}
	return c
}

// churn writes and reads unrelated files so that pooled buffers are taken and
// released (and, with the hook, poisoned) by other readers and writers.
func churn(n int) {
	type Rec struct {
		A string  `parquet:"a"`
		B []byte  `parquet:"b,dict"`
		C []int64 `parquet:"c,list"`
	}
	for k := 0; k < n; k++ {
		rows := make([]Rec, 300)
		for i := range rows {
			rows[i] = Rec{A: fmt.Sprintf("churn-%d-%d-xxxxxxxxxxxxxxxx", k, i), B: bytes.Repeat([]byte{byte(i)}, 20), C: []int64{int64(i), int64(k)}}
		}
		var buf bytes.Buffer
		w := parquet.NewGenericWriter[Rec](&buf, parquet.PageBufferSize(512), parquet.Compression(&parquet.Snappy))
		w.Write(rows)
		w.Close()
		got, _ := parquet.Read[Rec](bytes.NewReader(buf.Bytes()), int64(buf.Len()))
		_ = got
	}
}

// collect runs the garbage collector until the finalizers queued by it have
// run (a sentinel finalizer queued in the same cycle signals it; the wait is bounded).
func collect() {
	done := make(chan struct{})
	s := new([16]byte)
	runtime.SetFinalizer(s, func(*[16]byte) { close(done) })
	s = nil
	for i := 0; i < 10; i++ {
		runtime.GC()
		select {
		case <-done:
			runtime.GC()
			runtime.Gosched()
			return
		case <-time.After(20 * time.Millisecond):
		}
	}
}

type held struct {
	what  string
	snap  []ref.V        // snapshot taken at hand-over
	live  func() []ref.V // re-extraction from the live object
	until int            // op index after which it is no longer checked (-1: forever)
}

func runCase(c Case, o *kit.Obs) *kit.Failure {
	var e *typed.Entry
	root := c.Schema
	if c.Type != "" {
		e = typed.ByName(c.Type)
		root = &e.Node
	}
	cols := ref.Columns(root)
	vals := c.Plan.ExpandWith(root)
	var data []byte
	if e != nil {
		var buf bytes.Buffer
		if err := e.GenericWrite(&buf, e.New(vals), pq.Options(c.Opts, cols, ""), nil); err != nil {
			o.Rejected()
			return nil
		}
		data = buf.Bytes()
	} else {
		var err error
		// inputs to WriteRows must not be modified by the library
		prows := pq.Rows(root, cols, vals)
		before, _ := pq.Streams(cols, prows)
		schema := pq.BuildSchema(root)
		var buf bytes.Buffer
		w := parquet.NewWriter(&buf, append([]parquet.WriterOption{schema}, pq.Options(c.Opts, cols, "")...)...)
		if _, err = w.WriteRows(prows); err == nil {
			err = w.Close()
		}
		if err != nil {
			o.Rejected()
			return nil
		}
		after, _ := pq.Streams(cols, prows)
		if d := pq.DiffStreams(cols, before, after); d != "" {
			return kit.Failf("c16/input-modified{api=WriteRows}", "rows passed to WriteRows were modified by the library: %s", d)
		}
		data = buf.Bytes()
	}
	var fo []parquet.FileOption
	if c.Async {
		fo = append(fo, parquet.FileReadMode(parquet.ReadModeAsync))
	}
	feat := fmt.Sprintf("{api=%s}", map[bool]string{true: "GenericReader.Read", false: "ReadRows"}[e != nil])
	if e == nil && c.Clone {
		feat = "{api=ReadRows+Clone}"
	}

	var helds []held
	check := func(opIndex int, when string) *kit.Failure {
		for _, h := range helds {
			if h.until >= 0 && opIndex > h.until {
				continue
			}
			live := h.live()
			for i := range h.snap {
				if d := ref.DiffRow(root, h.snap[i], live[i]); d != "" {
					return kit.Failf("c16/value-changed"+feat, "%s, row %d changed %s: %s", h.what, i, when, d)
				}
			}
		}
		return nil
	}

	var tr *typed.Reader
	var rr *parquet.Reader
	var err error
	if e != nil && c.Source != "" {
		if tr, err = e.OpenBufferReader(c.Source, e.New(vals)); err != nil {
			o.Rejected()
			return nil
		}
		feat = "{api=GenericReader.Read(" + c.Source + ")}"
	} else if e != nil {
		if tr, err = e.OpenReader(data, fo...); err != nil {
			return kit.Failf("c16/open-error", "%v", err)
		}
	} else {
		f, err := pq.Open(data, fo...)
		if err != nil {
			return kit.Failf("c16/open-error", "%v", err)
		}
		rr = parquet.NewReader(f)
	}
	if tr != nil && c.Reuse {
		tr.ReuseDst = true
		feat = strings.Replace(feat, ".Read", ".Read[reused batch]", 1)
	}
	closed := false
	pagesCrossed, churned := 0, false
	numRows := int64(len(vals))
	for oi, op := range c.Ops {
		switch op.K {
		case "read":
			if closed {
				continue
			}
			if e != nil {
				got, rerr := tr.Read(op.N)
				if rerr != nil && !errors.Is(rerr, io.EOF) {
					return kit.Failf("c16/read-error"+feat, "%v", rerr)
				}
				if e.Len(got) > 0 {
					g := got
					helds = append(helds, held{what: fmt.Sprintf("values returned by Read at op %d", oi), snap: e.LaxTrees(g), live: func() []ref.V { return e.LaxTrees(g) }, until: -1})
					pagesCrossed++
				}
			} else {
				buf := make([]parquet.Row, op.N)
				n, rerr := rr.ReadRows(buf)
				if rerr != nil && !errors.Is(rerr, io.EOF) {
					return kit.Failf("c16/read-error"+feat, "%v", rerr)
				}
				if n > 0 {
					rows := buf[:n]
					until := nextReaderOp(c.Ops, oi) - 1 // raw rows are valid until the next call on the same reader
					if c.Clone {
						cl := make([]parquet.Row, n)
						for i := range rows {
							cl[i] = rows[i].Clone()
						}
						rows, until = cl, -1
					}
					snap, terr := pq.RowsToTrees(root, cols, rows)
					if terr != nil {
						return kit.Failf("c16/malformed-row"+feat, "%v", terr)
					}
					r := rows
					helds = append(helds, held{what: fmt.Sprintf("rows returned by ReadRows at op %d", oi), snap: snap, until: until, live: func() []ref.V {
						t, err := pq.RowsToTrees(root, cols, r)
						if err != nil {
							return make([]ref.V, len(r))
						}
						return t
					}})
					pagesCrossed++
				}
			}
		case "seek":
			if closed {
				continue
			}
			k := numRows * int64(op.N) / 1000
			if k >= numRows {
				k = numRows - 1
			}
			if k < 0 {
				k = 0
			}
			if e != nil {
				err = tr.Seek(k)
			} else {
				err = rr.SeekToRow(k)
			}
			if err != nil {
				return kit.Failf("c16/seek-error"+feat, "SeekToRow(%d of %d): %v", k, numRows, err)
			}
		case "rewrite":
			if tr != nil && tr.Rewrite != nil && !closed {
				// other rows (reversed order: different bytes at every position) in the same memory
				rev := make([]ref.V, len(vals))
				for i := range vals {
					rev[i] = vals[len(vals)-1-i]
				}
				if op.N%2 == 0 {
					rev = rev[:len(rev)/2]
				}
				if err := tr.Rewrite(e.New(rev)); err != nil {
					return kit.Failf("c16/rewrite-error"+feat, "%v", err)
				}
				numRows = int64(len(rev))
				churned = true
				break
			}
			fallthrough
		case "churn":
			churn(op.N)
			churned = true
		case "drop":
			// the reader becomes unreachable without Close and is collected (its finalizer runs);
			// what it handed out stays valid: there is no further call on it
			if !closed {
				tr, rr = nil, nil
				closed = true
				collect()
				churn(1)
				o.Class("reader-dropped-and-collected")
			}
		case "close":
			if !closed {
				if e != nil {
					tr.Close()
				} else {
					rr.Close()
				}
				closed = true
			}
		}
		if fl := check(oi, fmt.Sprintf("after op %d (%s)", oi, op.K)); fl != nil {
			return fl
		}
	}
	o.Class("api-" + feat)
	o.ClassIf(c.Async, "async")
	if pagesCrossed >= 2 && churned {
		o.NonTrivial()
	}
	return nil
}

// nextReaderOp returns the index of the next operation on the same reader after i.
func nextReaderOp(ops []Op, i int) int {
	for j := i + 1; j < len(ops); j++ {
		if ops[j].K == "drop" {
			return len(ops) // later operations on the reader are skipped
		}
		if ops[j].K == "read" || ops[j].K == "seek" || ops[j].K == "close" {
			return j
		}
	}
	return len(ops)
}

var spec = &kit.Spec[Case]{
	Property: "C16",
	Name:     "stability",
	Rule: "a file of byte-array-heavy columns (catalogue struct types with strings, []byte, [N]byte, lists, maps, pointers; or dynamic schemas over string/bytes/fixed/uuid/int96/decimal leaves; dictionary and plain, several codecs, tiny pages, several row groups; every row distinct) and a history of read(n) / seek / churn / close operations: " +
		"values filled by GenericReader[T].Read are snapshotted at hand-over and re-compared after EVERY later operation until the end (including after Close and after unrelated readers/writers churned the pools); rows returned by Reader.ReadRows are re-compared until the next call on the same reader (raw) or until the end (Clone()d); rows passed to WriteRows are compared before/after. " +
		"The poison-on-release hook overwrites pooled memory when it is released, so a value still referencing a released buffer becomes a wrong value deterministically. Non-trivial = at least two reads returned data and at least one churn step ran.",
	Assumptions: []string{
		"claimed for the hooked build: every pooled byte slice returns to its pool through memory.putSliceToPool, where the hook overwrites it (buffers too small to be pooled are left to the GC)",
		"a failure appearing only with the hook is accepted as genuine only after showing that the same bytes can be handed out again by the pool in an unhooked build",
	},
	Gen: genCase,
	Run: runCase,
}

func TestProp(t *testing.T) { kit.Both(t, spec) }
