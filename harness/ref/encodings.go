package ref

import (
	"encoding/binary"
	"fmt"
)

// Decoders written from parquet-format Encodings.md. They return values in the
// model form (I for ints/floats bits/bools, B for byte strings).

// Parquet encoding ids.
const (
	EncPlain       = 0
	EncPlainDict   = 2
	EncRLE         = 3
	EncBitPacked   = 4
	EncDeltaBinary = 5
	EncDeltaLength = 6
	EncDeltaBytes  = 7
	EncRLEDict     = 8
	EncBSS         = 9
)

type bitReader struct {
	b   []byte
	pos uint // bit position
}

func (r *bitReader) read(width uint) (uint64, error) {
	var v uint64
	for i := uint(0); i < width; i++ {
		byteIdx := (r.pos + i) / 8
		if int(byteIdx) >= len(r.b) {
			return 0, fmt.Errorf("bit reader: out of data")
		}
		bit := (r.b[byteIdx] >> ((r.pos + i) % 8)) & 1
		v |= uint64(bit) << i
	}
	r.pos += width
	return v, nil
}

// DecodeHybrid decodes n values of the RLE / bit-packing hybrid with the bit width.
func DecodeHybrid(b []byte, width uint, n int) ([]int64, int, error) {
	out := make([]int64, 0, n)
	pos := 0
	if width == 0 {
		for len(out) < n {
			out = append(out, 0)
		}
		// a zero-width stream may still carry run headers; consume what is there
		for pos < len(b) {
			_, k := binary.Uvarint(b[pos:])
			if k <= 0 {
				break
			}
			pos += k
		}
		return out, pos, nil
	}
	for len(out) < n {
		h, k := binary.Uvarint(b[pos:])
		if k <= 0 {
			return nil, pos, fmt.Errorf("hybrid: bad run header at %d (have %d of %d values)", pos, len(out), n)
		}
		pos += k
		if h&1 == 1 { // bit-packed: (h>>1) groups of 8 values
			groups := int(h >> 1)
			nbytes := groups * int(width)
			if pos+nbytes > len(b) {
				// the last group may be truncated by writers that pad; be strict
				return nil, pos, fmt.Errorf("hybrid: bit-packed run of %d groups exceeds data", groups)
			}
			br := &bitReader{b: b[pos : pos+nbytes]}
			for i := 0; i < groups*8; i++ {
				v, err := br.read(width)
				if err != nil {
					return nil, pos, err
				}
				if len(out) < n {
					out = append(out, int64(v))
				}
			}
			pos += nbytes
		} else {
			count := int(h >> 1)
			vb := int((width + 7) / 8)
			if pos+vb > len(b) {
				return nil, pos, fmt.Errorf("hybrid: rle value exceeds data")
			}
			var v uint64
			for i := 0; i < vb; i++ {
				v |= uint64(b[pos+i]) << (8 * uint(i))
			}
			pos += vb
			if count == 0 {
				return nil, pos, fmt.Errorf("hybrid: zero-length run")
			}
			for i := 0; i < count && len(out) < n; i++ {
				out = append(out, int64(v))
			}
		}
	}
	return out, pos, nil
}

func bitWidthOf(max int) uint {
	w := uint(0)
	for (1 << w) <= max {
		w++
	}
	return w
}

// DecodeDeltaBinary decodes a DELTA_BINARY_PACKED stream; returns the values and bytes consumed.
func DecodeDeltaBinary(b []byte, is32 bool) ([]int64, int, error) {
	pos := 0
	uv := func() (uint64, error) {
		v, k := binary.Uvarint(b[pos:])
		if k <= 0 {
			return 0, fmt.Errorf("delta: bad varint at %d", pos)
		}
		pos += k
		return v, nil
	}
	blockSize, err := uv()
	if err != nil {
		return nil, pos, err
	}
	miniblocks, err := uv()
	if err != nil {
		return nil, pos, err
	}
	total, err := uv()
	if err != nil {
		return nil, pos, err
	}
	fz, err := uv()
	if err != nil {
		return nil, pos, err
	}
	first := int64(fz>>1) ^ -int64(fz&1)
	if total == 0 {
		return nil, pos, nil
	}
	if blockSize == 0 || miniblocks == 0 || blockSize%128 != 0 || blockSize%miniblocks != 0 || (blockSize/miniblocks)%32 != 0 {
		return nil, pos, fmt.Errorf("delta: invalid block size %d / miniblocks %d", blockSize, miniblocks)
	}
	if total > uint64(len(b))*64+1 {
		return nil, pos, fmt.Errorf("delta: implausible count %d", total)
	}
	perMini := int(blockSize / miniblocks)
	out := make([]int64, 0, total)
	out = append(out, first)
	prev := first
	for uint64(len(out)) < total {
		mz, err := uv()
		if err != nil {
			return nil, pos, err
		}
		minDelta := int64(mz>>1) ^ -int64(mz&1)
		if pos+int(miniblocks) > len(b) {
			return nil, pos, fmt.Errorf("delta: bit widths exceed data")
		}
		widths := b[pos : pos+int(miniblocks)]
		pos += int(miniblocks)
		for m := 0; m < int(miniblocks) && uint64(len(out)) < total; m++ {
			w := uint(widths[m])
			if w > 64 {
				return nil, pos, fmt.Errorf("delta: bit width %d", w)
			}
			nbytes := perMini * int(w) / 8
			if pos+nbytes > len(b) {
				return nil, pos, fmt.Errorf("delta: miniblock exceeds data")
			}
			br := &bitReader{b: b[pos : pos+nbytes]}
			for i := 0; i < perMini; i++ {
				d, err := br.read(w)
				if err != nil {
					return nil, pos, err
				}
				if uint64(len(out)) < total {
					// arithmetic wraps (spec: deltas are computed with overflow)
					prev = prev + minDelta + int64(d)
					if is32 {
						prev = int64(int32(prev))
					}
					out = append(out, prev)
				}
			}
			pos += nbytes
		}
	}
	return out, pos, nil
}

// DecodeValues decodes n non-null values of a leaf with the encoding.
// dict is the decoded dictionary for dictionary encodings.
func DecodeValues(l Leaf, enc int, b []byte, n int, dict []LV) ([]LV, error) {
	switch enc {
	case EncPlain:
		return decodePlain(l, b, n)
	case EncRLEDict, EncPlainDict:
		if n == 0 {
			return nil, nil
		}
		if len(b) < 1 {
			return nil, fmt.Errorf("dictionary page data: missing bit width")
		}
		idx, _, err := DecodeHybrid(b[1:], uint(b[0]), n)
		if err != nil {
			return nil, fmt.Errorf("dictionary indexes: %w", err)
		}
		out := make([]LV, n)
		for i, k := range idx {
			if k < 0 || int(k) >= len(dict) {
				return nil, fmt.Errorf("dictionary index %d out of range (%d entries)", k, len(dict))
			}
			out[i] = dict[k]
		}
		return out, nil
	case EncRLE:
		if l.Phys != Boolean {
			return nil, fmt.Errorf("RLE data encoding on non-boolean column")
		}
		if n == 0 {
			return nil, nil
		}
		if len(b) < 4 {
			return nil, fmt.Errorf("RLE booleans: missing length prefix")
		}
		ln := int(binary.LittleEndian.Uint32(b))
		if 4+ln > len(b) {
			return nil, fmt.Errorf("RLE booleans: length prefix %d exceeds data", ln)
		}
		vals, _, err := DecodeHybrid(b[4:4+ln], 1, n)
		if err != nil {
			return nil, err
		}
		out := make([]LV, n)
		for i, v := range vals {
			out[i] = LV{I: v}
		}
		return out, nil
	case EncDeltaBinary:
		vals, _, err := DecodeDeltaBinary(b, l.Phys == Int32)
		if err != nil {
			return nil, err
		}
		if len(vals) != n {
			return nil, fmt.Errorf("delta binary packed: %d values, want %d", len(vals), n)
		}
		out := make([]LV, n)
		for i, v := range vals {
			out[i] = LV{I: v}
		}
		return out, nil
	case EncDeltaLength:
		lens, used, err := DecodeDeltaBinary(b, true)
		if err != nil {
			return nil, err
		}
		if len(lens) != n {
			return nil, fmt.Errorf("delta length: %d lengths, want %d", len(lens), n)
		}
		out := make([]LV, n)
		pos := used
		for i, ln := range lens {
			if ln < 0 || pos+int(ln) > len(b) {
				return nil, fmt.Errorf("delta length: value %d exceeds data", i)
			}
			out[i] = LV{B: append([]byte{}, b[pos:pos+int(ln)]...)}
			pos += int(ln)
		}
		return out, nil
	case EncDeltaBytes:
		if n == 0 {
			return nil, nil
		}
		prefixes, used, err := DecodeDeltaBinary(b, true)
		if err != nil {
			return nil, err
		}
		suffixes, used2, err := DecodeDeltaBinary(b[used:], true)
		if err != nil {
			return nil, err
		}
		if len(prefixes) != n || len(suffixes) != n {
			return nil, fmt.Errorf("delta byte array: %d prefixes / %d suffixes, want %d", len(prefixes), len(suffixes), n)
		}
		pos := used + used2
		out := make([]LV, n)
		var prev []byte
		for i := 0; i < n; i++ {
			p, s := int(prefixes[i]), int(suffixes[i])
			if p < 0 || p > len(prev) || s < 0 || pos+s > len(b) {
				return nil, fmt.Errorf("delta byte array: value %d prefix %d suffix %d invalid", i, p, s)
			}
			v := append(append([]byte{}, prev[:p]...), b[pos:pos+s]...)
			pos += s
			out[i] = LV{B: v}
			prev = v
		}
		if l.Phys == FLBA {
			for i := range out {
				if len(out[i].B) != l.Len {
					return nil, fmt.Errorf("delta byte array: fixed-length value %d has %d bytes", i, len(out[i].B))
				}
			}
		}
		return out, nil
	case EncBSS:
		var w int
		switch l.Phys {
		case Float, Int32:
			w = 4
		case Double, Int64:
			w = 8
		case FLBA:
			w = l.Len
		default:
			return nil, fmt.Errorf("byte stream split on physical type %d", l.Phys)
		}
		if len(b) != n*w {
			return nil, fmt.Errorf("byte stream split: %d bytes for %d values of width %d", len(b), n, w)
		}
		plain := make([]byte, n*w)
		for k := 0; k < w; k++ {
			for i := 0; i < n; i++ {
				plain[i*w+k] = b[k*n+i]
			}
		}
		return decodePlain(l, plain, n)
	}
	return nil, fmt.Errorf("unsupported encoding %d", enc)
}

func decodePlain(l Leaf, b []byte, n int) ([]LV, error) {
	out := make([]LV, n)
	switch l.Phys {
	case Boolean:
		if len(b)*8 < n {
			return nil, fmt.Errorf("plain booleans: %d bytes for %d values", len(b), n)
		}
		for i := 0; i < n; i++ {
			out[i] = LV{I: int64((b[i/8] >> (uint(i) % 8)) & 1)}
		}
	case Int32, Float:
		if len(b) < 4*n {
			return nil, fmt.Errorf("plain 32-bit: %d bytes for %d values", len(b), n)
		}
		for i := 0; i < n; i++ {
			out[i] = LV{I: int64(int32(binary.LittleEndian.Uint32(b[4*i:])))}
		}
	case Int64, Double:
		if len(b) < 8*n {
			return nil, fmt.Errorf("plain 64-bit: %d bytes for %d values", len(b), n)
		}
		for i := 0; i < n; i++ {
			out[i] = LV{I: int64(binary.LittleEndian.Uint64(b[8*i:]))}
		}
	case Int96:
		if len(b) < 12*n {
			return nil, fmt.Errorf("plain int96: %d bytes for %d values", len(b), n)
		}
		for i := 0; i < n; i++ {
			out[i] = LV{B: append([]byte{}, b[12*i:12*i+12]...)}
		}
	case ByteArr:
		pos := 0
		for i := 0; i < n; i++ {
			if pos+4 > len(b) {
				return nil, fmt.Errorf("plain byte array: value %d length prefix exceeds data", i)
			}
			ln := int(binary.LittleEndian.Uint32(b[pos:]))
			pos += 4
			if ln < 0 || pos+ln > len(b) {
				return nil, fmt.Errorf("plain byte array: value %d of %d bytes exceeds data", i, ln)
			}
			out[i] = LV{B: append([]byte{}, b[pos:pos+ln]...)}
			pos += ln
		}
	case FLBA:
		if len(b) < l.Len*n {
			return nil, fmt.Errorf("plain fixed: %d bytes for %d values of %d", len(b), n, l.Len)
		}
		for i := 0; i < n; i++ {
			out[i] = LV{B: append([]byte{}, b[l.Len*i:l.Len*(i+1)]...)}
		}
	}
	return out, nil
}
