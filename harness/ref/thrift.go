package ref

import (
	"encoding/binary"
	"fmt"
	"math"
)

// Thrift compact protocol reader producing a generic field tree. Written from
// the thrift compact protocol specification; knows nothing about parquet.

const (
	tStop   = 0
	tTrue   = 1
	tFalse  = 2
	tByte   = 3
	tI16    = 4
	tI32    = 5
	tI64    = 6
	tDouble = 7
	tBinary = 8
	tList   = 9
	tSet    = 10
	tMap    = 11
	tStruct = 12
)

// TVal is a decoded thrift value.
type TVal struct {
	T byte
	I int64   // bool (0/1), byte, i16, i32, i64
	D float64 // double
	B []byte  // binary
	L []TVal  // list / set elements
	F []TField
}

// TField is a struct field.
type TField struct {
	ID int16
	V  TVal
}

// Field returns the field with the id.
func (v TVal) Field(id int16) (TVal, bool) {
	for _, f := range v.F {
		if f.ID == id {
			return f.V, true
		}
	}
	return TVal{}, false
}

// Int returns the integer field or def.
func (v TVal) Int(id int16, def int64) int64 {
	if f, ok := v.Field(id); ok {
		return f.I
	}
	return def
}

// Has reports whether the field is present.
func (v TVal) Has(id int16) bool { _, ok := v.Field(id); return ok }

// Bytes returns the binary field (nil when absent).
func (v TVal) Bytes(id int16) []byte {
	if f, ok := v.Field(id); ok {
		if f.B == nil {
			return []byte{}
		}
		return f.B
	}
	return nil
}

// List returns the list field.
func (v TVal) List(id int16) []TVal {
	if f, ok := v.Field(id); ok {
		return f.L
	}
	return nil
}

type tReader struct {
	b   []byte
	pos int
}

func (r *tReader) byte() (byte, error) {
	if r.pos >= len(r.b) {
		return 0, fmt.Errorf("thrift: unexpected end of input at %d", r.pos)
	}
	c := r.b[r.pos]
	r.pos++
	return c, nil
}

func (r *tReader) uvarint() (uint64, error) {
	v, n := binary.Uvarint(r.b[r.pos:])
	if n <= 0 {
		return 0, fmt.Errorf("thrift: bad varint at %d", r.pos)
	}
	r.pos += n
	return v, nil
}

func (r *tReader) zigzag() (int64, error) {
	u, err := r.uvarint()
	if err != nil {
		return 0, err
	}
	return int64(u>>1) ^ -int64(u&1), nil
}

func (r *tReader) value(t byte, depth int) (TVal, error) {
	if depth > 64 {
		return TVal{}, fmt.Errorf("thrift: nesting too deep")
	}
	v := TVal{T: t}
	switch t {
	case tTrue:
		v.I = 1
	case tFalse:
		v.I = 0
	case tByte:
		c, err := r.byte()
		if err != nil {
			return v, err
		}
		v.I = int64(int8(c))
	case tI16, tI32, tI64:
		i, err := r.zigzag()
		if err != nil {
			return v, err
		}
		v.I = i
	case tDouble:
		if r.pos+8 > len(r.b) {
			return v, fmt.Errorf("thrift: short double")
		}
		v.D = math.Float64frombits(binary.LittleEndian.Uint64(r.b[r.pos:]))
		r.pos += 8
	case tBinary:
		n, err := r.uvarint()
		if err != nil {
			return v, err
		}
		if uint64(r.pos)+n > uint64(len(r.b)) {
			return v, fmt.Errorf("thrift: binary of %d bytes exceeds input", n)
		}
		v.B = r.b[r.pos : r.pos+int(n) : r.pos+int(n)]
		r.pos += int(n)
	case tList, tSet:
		h, err := r.byte()
		if err != nil {
			return v, err
		}
		n := uint64(h >> 4)
		et := h & 0x0f
		if n == 15 {
			if n, err = r.uvarint(); err != nil {
				return v, err
			}
		}
		if n > uint64(len(r.b)) {
			return v, fmt.Errorf("thrift: list of %d elements exceeds input", n)
		}
		v.L = make([]TVal, 0, n)
		for i := uint64(0); i < n; i++ {
			var e TVal
			if et == tTrue || et == tFalse {
				c, err := r.byte()
				if err != nil {
					return v, err
				}
				e = TVal{T: tTrue}
				if c == 1 {
					e.I = 1
				}
			} else {
				if e, err = r.value(et, depth+1); err != nil {
					return v, err
				}
			}
			v.L = append(v.L, e)
		}
	case tMap:
		n, err := r.uvarint()
		if err != nil {
			return v, err
		}
		if n > 0 {
			h, err := r.byte()
			if err != nil {
				return v, err
			}
			kt, vt := h>>4, h&0x0f
			for i := uint64(0); i < n; i++ {
				k, err := r.value(kt, depth+1)
				if err != nil {
					return v, err
				}
				val, err := r.value(vt, depth+1)
				if err != nil {
					return v, err
				}
				v.L = append(v.L, k, val)
			}
		}
	case tStruct:
		last := int16(0)
		for {
			h, err := r.byte()
			if err != nil {
				return v, err
			}
			if h == tStop {
				break
			}
			ft := h & 0x0f
			delta := int16(h >> 4)
			var id int16
			if delta == 0 {
				z, err := r.zigzag()
				if err != nil {
					return v, err
				}
				id = int16(z)
			} else {
				id = last + delta
			}
			last = id
			fv, err := r.value(ft, depth+1)
			if err != nil {
				return v, fmt.Errorf("field %d: %w", id, err)
			}
			v.F = append(v.F, TField{ID: id, V: fv})
		}
	default:
		return v, fmt.Errorf("thrift: unknown type %d at %d", t, r.pos)
	}
	return v, nil
}

// ReadThriftStruct decodes one struct from the start of b and returns the
// number of bytes it occupied.
func ReadThriftStruct(b []byte) (TVal, int, error) {
	r := &tReader{b: b}
	v, err := r.value(tStruct, 0)
	return v, r.pos, err
}
