package ref

import (
	"crypto/aes"
	"crypto/cipher"
	"encoding/binary"
	"fmt"
)

// Independent reader of encrypted parquet files (Parquet Modular Encryption,
// AES_GCM_V1), written from Encryption.md with Go's standard AES-GCM. The AAD
// module numbering is a parameter because the library under test numbers its
// modules differently from the document.

// Module types of the AAD suffix.
type ModuleTypes struct {
	Footer, ColumnMeta, DataPage, DictPage, DataPageHeader, DictPageHeader, ColumnIndex, OffsetIndex, BloomHeader, BloomBitset byte
	// DictPageOrdinal: the AAD of dictionary page modules carries a page ordinal
	// (always 0). Encryption.md says it does not; the library under test adds it.
	DictPageOrdinal bool
}

// SpecModules is the numbering of Encryption.md §4.4.2.
var SpecModules = ModuleTypes{Footer: 0, ColumnMeta: 1, DataPage: 2, DictPage: 3, DataPageHeader: 4, DictPageHeader: 5, ColumnIndex: 6, OffsetIndex: 7, BloomHeader: 8, BloomBitset: 9}

// LibModules is the numbering used by parquet-go (encrypt.go constants).
var LibModules = ModuleTypes{Footer: 0, ColumnMeta: 1, DataPage: 2, DataPageHeader: 3, DictPage: 4, DictPageHeader: 5, BloomHeader: 6, BloomBitset: 7, ColumnIndex: 8, OffsetIndex: 9, DictPageOrdinal: true}

// Keys gives the reader its keys: Footer key and per-column keys by dotted path.
type Keys struct {
	Footer  []byte
	Columns map[string][]byte
	Prefix  []byte // AAD prefix supplied by the caller when the file does not store it
}

// Module is one encrypted module found in the file.
type Module struct {
	Kind    string // "page-header" | "page-body" | "dict-header" | "dict-body" | "footer" | "column-meta"
	Offset  int64  // of the 4-byte length prefix
	Len     int    // total bytes incl. the length prefix
	RG, Col int
	PageOrd int
	PageIdx int    // index in the chunk's page list
	Plain   []byte // decrypted content, when the reference reader decrypted the module
}

// EncFile is a decrypted view of an encrypted file.
type EncFile struct {
	*PFile
	EncryptedFooter bool
	FileUnique      []byte
	Prefix          []byte
	Modules         []Module
	FooterPlain     []byte // decrypted (or plaintext) FileMetaData bytes
	SigOffset       int64  // plaintext-footer mode: offset of the 28-byte signature
}

func aad(prefix, unique []byte, module byte, ords ...int) []byte {
	b := append(append([]byte{}, prefix...), unique...)
	b = append(b, module)
	for _, o := range ords {
		b = append(b, byte(o), byte(o>>8))
	}
	return b
}

// OpenModule authenticates and decrypts a length-prefixed module.
func OpenModule(key, aadBytes, module []byte) ([]byte, error) {
	if len(module) < 4 {
		return nil, fmt.Errorf("module shorter than its length prefix")
	}
	n := int(binary.LittleEndian.Uint32(module))
	if n < 28 || 4+n > len(module) {
		return nil, fmt.Errorf("module length %d invalid for %d bytes", n, len(module))
	}
	block, err := aes.NewCipher(key)
	if err != nil {
		return nil, err
	}
	gcm, err := cipher.NewGCM(block)
	if err != nil {
		return nil, err
	}
	return gcm.Open(nil, module[4:16], module[16:4+n], aadBytes)
}

func moduleLen(data []byte, off int64) (int, error) {
	if off < 0 || off+4 > int64(len(data)) {
		return 0, fmt.Errorf("module at %d outside the file", off)
	}
	n := int(binary.LittleEndian.Uint32(data[off:]))
	if n < 28 || off+4+int64(n) > int64(len(data)) {
		return 0, fmt.Errorf("module at %d: length %d invalid", off, n)
	}
	return 4 + n, nil
}

// ParseEncrypted opens an encrypted file with the given keys and module numbering.
func ParseEncrypted(data []byte, keys Keys, mt ModuleTypes) (*EncFile, error) {
	if len(data) < 12 {
		return nil, fmt.Errorf("file too short")
	}
	head, tail := string(data[:4]), string(data[len(data)-4:])
	if head != tail {
		return nil, fmt.Errorf("magic mismatch %q / %q", head, tail)
	}
	flen := int64(binary.LittleEndian.Uint32(data[len(data)-8:]))
	fpos := int64(len(data)) - 8 - flen
	if fpos < 4 {
		return nil, fmt.Errorf("footer length %d exceeds file", flen)
	}
	ef := &EncFile{}
	var meta TVal
	switch head {
	case "PARE":
		ef.EncryptedFooter = true
		cm, used, err := ReadThriftStruct(data[fpos : len(data)-8])
		if err != nil {
			return nil, fmt.Errorf("FileCryptoMetaData: %w", err)
		}
		algo, _ := cm.Field(1)
		gcmv1, ok := algo.Field(1)
		if !ok {
			return nil, fmt.Errorf("only AES_GCM_V1 is supported by the reference reader")
		}
		ef.Prefix, ef.FileUnique = gcmv1.Bytes(1), gcmv1.Bytes(2)
		if ef.Prefix == nil {
			ef.Prefix = keys.Prefix
		}
		mod := data[fpos+int64(used) : len(data)-8]
		plain, err := OpenModule(keys.Footer, aad(ef.Prefix, ef.FileUnique, mt.Footer), mod)
		if err != nil {
			return nil, fmt.Errorf("footer module: %w", err)
		}
		ef.FooterPlain = plain
		ef.Modules = append(ef.Modules, Module{Kind: "footer", Offset: fpos + int64(used), Len: len(mod), RG: -1, Col: -1})
		m, _, err := ReadThriftStruct(plain)
		if err != nil {
			return nil, fmt.Errorf("decrypted footer: %w", err)
		}
		meta = m
	case "PAR1":
		if flen < 28 {
			return nil, fmt.Errorf("footer too short for a signature")
		}
		m, used, err := ReadThriftStruct(data[fpos : len(data)-8-28])
		if err != nil {
			return nil, fmt.Errorf("plaintext footer: %w", err)
		}
		if int64(used) != flen-28 {
			return nil, fmt.Errorf("plaintext footer occupies %d bytes, length field minus signature says %d", used, flen-28)
		}
		algo, ok := m.Field(8)
		if !ok {
			return nil, fmt.Errorf("plaintext footer without encryption_algorithm")
		}
		gcmv1, ok := algo.Field(1)
		if !ok {
			return nil, fmt.Errorf("only AES_GCM_V1 is supported by the reference reader")
		}
		ef.Prefix, ef.FileUnique = gcmv1.Bytes(1), gcmv1.Bytes(2)
		if ef.Prefix == nil {
			ef.Prefix = keys.Prefix
		}
		ef.FooterPlain = data[fpos : len(data)-8-28]
		ef.SigOffset = int64(len(data)) - 8 - 28
		// verify the signature: tag over (aad || footer) with empty plaintext
		sig := data[ef.SigOffset : ef.SigOffset+28]
		block, err := aes.NewCipher(keys.Footer)
		if err != nil {
			return nil, err
		}
		gcm, _ := cipher.NewGCM(block)
		ad := append(aad(ef.Prefix, ef.FileUnique, mt.Footer), ef.FooterPlain...)
		if _, err := gcm.Open(nil, sig[:12], sig[12:], ad); err != nil {
			return nil, fmt.Errorf("footer signature: %w", err)
		}
		meta = m
	default:
		return nil, fmt.Errorf("unknown magic %q", head)
	}
	pf := &PFile{Data: data, Meta: meta, FooterPos: fpos}
	if err := pf.parseSchema(); err != nil {
		return nil, err
	}
	ef.PFile = pf
	for gi, rg := range meta.List(4) {
		prg := PRowGroup{V: rg}
		for ci, cc := range rg.List(1) {
			ch := PChunk{Top: cc}
			key := keys.Footer
			if cm, ok := cc.Field(8); ok {
				if ck, ok := cm.Field(2); ok { // ENCRYPTION_WITH_COLUMN_KEY
					var path []string
					for _, p := range ck.List(1) {
						path = append(path, string(p.B))
					}
					k, ok := keys.Columns[PathString(path)]
					if !ok {
						return nil, fmt.Errorf("row group %d column %d: no key for %q", gi, ci, PathString(path))
					}
					key = k
				}
			}
			if enc := cc.Bytes(9); len(enc) > 0 {
				plain, err := OpenModule(key, aad(ef.Prefix, ef.FileUnique, mt.ColumnMeta, gi, ci), enc)
				if err != nil {
					return nil, fmt.Errorf("row group %d column %d: encrypted_column_metadata: %w", gi, ci, err)
				}
				md, _, err := ReadThriftStruct(plain)
				if err != nil {
					return nil, fmt.Errorf("row group %d column %d: decrypted column metadata: %w", gi, ci, err)
				}
				ch.Meta = md
			} else if md, ok := cc.Field(3); ok {
				ch.Meta = md
			} else {
				return nil, fmt.Errorf("row group %d column %d: neither meta_data nor encrypted_column_metadata", gi, ci)
			}
			// page index and bloom filter modules (located by the offsets of the metadata)
			if off, ln := cc.Int(4, 0), cc.Int(5, 0); off > 0 && ln > 0 {
				m := Module{Kind: "offset-index", Offset: off, Len: int(ln), RG: gi, Col: ci}
				if off+ln <= int64(len(data)) {
					m.Plain, _ = OpenModule(key, aad(ef.Prefix, ef.FileUnique, mt.OffsetIndex, gi, ci), data[off:off+ln])
				}
				ef.Modules = append(ef.Modules, m)
			}
			if off, ln := cc.Int(6, 0), cc.Int(7, 0); off > 0 && ln > 0 {
				m := Module{Kind: "column-index", Offset: off, Len: int(ln), RG: gi, Col: ci}
				if off+ln <= int64(len(data)) {
					m.Plain, _ = OpenModule(key, aad(ef.Prefix, ef.FileUnique, mt.ColumnIndex, gi, ci), data[off:off+ln])
				}
				ef.Modules = append(ef.Modules, m)
			}
			if off := ch.Meta.Int(14, 0); off > 0 {
				if hl, err := moduleLen(data, off); err == nil {
					ef.Modules = append(ef.Modules, Module{Kind: "bloom-header", Offset: off, Len: hl, RG: gi, Col: ci})
					if bl, err := moduleLen(data, off+int64(hl)); err == nil {
						ef.Modules = append(ef.Modules, Module{Kind: "bloom-bitset", Offset: off + int64(hl), Len: bl, RG: gi, Col: ci})
					}
				}
			}
			prg.Chunks = append(prg.Chunks, ch)
		}
		pf.RowGroups = append(pf.RowGroups, prg)
	}
	return ef, nil
}

// WalkEncryptedChunk walks and decrypts the page modules of a chunk.
func (ef *EncFile) WalkEncryptedChunk(gi, ci int, key []byte, mt ModuleTypes) error {
	c := &ef.RowGroups[gi].Chunks[ci]
	md := c.Meta
	start := md.Int(9, 0)
	if d := md.Int(11, 0); md.Has(11) && d > 0 && d < start {
		start = d
	}
	c.Start = start
	want := md.Int(5, 0)
	pos := start
	var seen int64
	pageOrd := 0
	c.Pages = nil
	for seen < want {
		hl, err := moduleLen(ef.Data, pos)
		if err != nil {
			return fmt.Errorf("page header module: %w", err)
		}
		// try as a data page header first, then as a dictionary page header
		var h TVal
		kind := "page-header"
		plain, err := OpenModule(key, aad(ef.Prefix, ef.FileUnique, mt.DataPageHeader, gi, ci, pageOrd), ef.Data[pos:pos+int64(hl)])
		isDict := false
		if err != nil {
			dictOrds := []int{gi, ci}
			if mt.DictPageOrdinal {
				dictOrds = append(dictOrds, 0)
			}
			plain, err = OpenModule(key, aad(ef.Prefix, ef.FileUnique, mt.DictPageHeader, dictOrds...), ef.Data[pos:pos+int64(hl)])
			if err != nil {
				return fmt.Errorf("page header module at %d (data page ordinal %d): authentication failed as data and as dictionary page header", pos, pageOrd)
			}
			isDict, kind = true, "dict-header"
		}
		if h, _, err = ReadThriftStruct(plain); err != nil {
			return fmt.Errorf("page header at %d: %w", pos, err)
		}
		ef.Modules = append(ef.Modules, Module{Kind: kind, Offset: pos, Len: hl, RG: gi, Col: ci, PageOrd: pageOrd, PageIdx: len(c.Pages), Plain: plain})
		bpos := pos + int64(hl)
		bl, err := moduleLen(ef.Data, bpos)
		if err != nil {
			return fmt.Errorf("page body module: %w", err)
		}
		var body []byte
		if isDict {
			dictOrds := []int{gi, ci}
			if mt.DictPageOrdinal {
				dictOrds = append(dictOrds, 0)
			}
			body, err = OpenModule(key, aad(ef.Prefix, ef.FileUnique, mt.DictPage, dictOrds...), ef.Data[bpos:bpos+int64(bl)])
			kind = "dict-body"
		} else {
			body, err = OpenModule(key, aad(ef.Prefix, ef.FileUnique, mt.DataPage, gi, ci, pageOrd), ef.Data[bpos:bpos+int64(bl)])
			kind = "page-body"
		}
		if err != nil {
			return fmt.Errorf("page body module at %d: %w", bpos, err)
		}
		ef.Modules = append(ef.Modules, Module{Kind: kind, Offset: bpos, Len: bl, RG: gi, Col: ci, PageOrd: pageOrd, PageIdx: len(c.Pages), Plain: body})
		p := PPage{Offset: pos, HeaderLen: hl, BodyOffset: bpos, Header: h, Type: int(h.Int(1, -1)), UncompSize: int(h.Int(2, -1)), CompSize: int(h.Int(3, -1)), Plain: body}
		if p.CompSize != len(body) {
			return fmt.Errorf("page at %d: compressed_page_size %d but the decrypted body has %d bytes", pos, p.CompSize, len(body))
		}
		switch p.Type {
		case 0:
			dh, _ := h.Field(5)
			p.NumValues, p.Encoding = int(dh.Int(1, 0)), int(dh.Int(2, 0))
			if st, ok := dh.Field(5); ok {
				p.Stats = &st
			}
			seen += int64(p.NumValues)
			pageOrd++
		case 2:
			dh, _ := h.Field(7)
			p.NumValues, p.Encoding = int(dh.Int(1, 0)), int(dh.Int(2, 0))
		case 3:
			dh, _ := h.Field(8)
			p.NumValues, p.NumNulls, p.NumRows = int(dh.Int(1, 0)), int(dh.Int(2, 0)), int(dh.Int(3, 0))
			p.Encoding = int(dh.Int(4, 0))
			p.DefLen, p.RepLen = int(dh.Int(5, 0)), int(dh.Int(6, 0))
			p.IsCompressed = dh.Int(7, 1) != 0
			if st, ok := dh.Field(8); ok {
				p.Stats = &st
			}
			seen += int64(p.NumValues)
			pageOrd++
		default:
			return fmt.Errorf("page at %d: unexpected type %d", pos, p.Type)
		}
		c.Pages = append(c.Pages, p)
		pos = bpos + int64(bl)
	}
	c.End = pos
	return nil
}
