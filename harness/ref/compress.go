package ref

import (
	"bytes"
	"compress/gzip"
	"encoding/binary"
	"fmt"
	"io"

	"github.com/andybalholm/brotli"
	"github.com/klauspost/compress/zstd"
)

// Parquet compression codec ids.
const (
	CodecNone   = 0
	CodecSnappy = 1
	CodecGzip   = 2
	CodecBrotli = 4
	CodecLZ4    = 5
	CodecZstd   = 6
	CodecLZ4Raw = 7
)

// Decompress is the reference decompressor: snappy and LZ4 block decoders are
// written here from the format descriptions, gzip is the standard library,
// zstd and brotli call the third-party packages directly (trusted base).
func Decompress(codec int, src []byte, size int) ([]byte, error) {
	switch codec {
	case CodecNone:
		return src, nil
	case CodecSnappy:
		return snappyDecode(src)
	case CodecGzip:
		zr, err := gzip.NewReader(bytes.NewReader(src))
		if err != nil {
			return nil, err
		}
		return io.ReadAll(zr)
	case CodecZstd:
		d, err := zstd.NewReader(nil)
		if err != nil {
			return nil, err
		}
		defer d.Close()
		return d.DecodeAll(src, nil)
	case CodecBrotli:
		return io.ReadAll(brotli.NewReader(bytes.NewReader(src)))
	case CodecLZ4Raw:
		return lz4BlockDecode(src, size)
	}
	return nil, fmt.Errorf("unsupported codec %d", codec)
}

// snappyDecode decodes the raw snappy block format (format_description.txt).
func snappyDecode(src []byte) ([]byte, error) {
	n, k := binary.Uvarint(src)
	if k <= 0 {
		return nil, fmt.Errorf("snappy: bad length preamble")
	}
	if n > 1<<31 {
		return nil, fmt.Errorf("snappy: implausible length %d", n)
	}
	out := make([]byte, 0, n)
	pos := k
	for pos < len(src) {
		tag := src[pos]
		pos++
		switch tag & 3 {
		case 0: // literal
			ln := int(tag >> 2)
			if ln >= 60 {
				nb := ln - 59
				if pos+nb > len(src) {
					return nil, fmt.Errorf("snappy: truncated literal length")
				}
				ln = 0
				for i := 0; i < nb; i++ {
					ln |= int(src[pos+i]) << (8 * uint(i))
				}
				pos += nb
			}
			ln++
			if pos+ln > len(src) {
				return nil, fmt.Errorf("snappy: literal exceeds input")
			}
			out = append(out, src[pos:pos+ln]...)
			pos += ln
		case 1:
			if pos >= len(src) {
				return nil, fmt.Errorf("snappy: truncated copy1")
			}
			ln := 4 + int((tag>>2)&7)
			off := int(tag>>5)<<8 | int(src[pos])
			pos++
			if err := snappyCopy(&out, off, ln); err != nil {
				return nil, err
			}
		case 2:
			if pos+2 > len(src) {
				return nil, fmt.Errorf("snappy: truncated copy2")
			}
			ln := 1 + int(tag>>2)
			off := int(binary.LittleEndian.Uint16(src[pos:]))
			pos += 2
			if err := snappyCopy(&out, off, ln); err != nil {
				return nil, err
			}
		case 3:
			if pos+4 > len(src) {
				return nil, fmt.Errorf("snappy: truncated copy4")
			}
			ln := 1 + int(tag>>2)
			off := int(binary.LittleEndian.Uint32(src[pos:]))
			pos += 4
			if err := snappyCopy(&out, off, ln); err != nil {
				return nil, err
			}
		}
	}
	if uint64(len(out)) != n {
		return nil, fmt.Errorf("snappy: decoded %d bytes, preamble says %d", len(out), n)
	}
	return out, nil
}

func snappyCopy(out *[]byte, off, ln int) error {
	if off <= 0 || off > len(*out) {
		return fmt.Errorf("snappy: copy offset %d out of range", off)
	}
	start := len(*out) - off
	for i := 0; i < ln; i++ {
		*out = append(*out, (*out)[start+i])
	}
	return nil
}

// lz4BlockDecode decodes one LZ4 block (lz4_Block_format.md).
func lz4BlockDecode(src []byte, size int) ([]byte, error) {
	out := make([]byte, 0, size)
	pos := 0
	for pos < len(src) {
		token := src[pos]
		pos++
		lit := int(token >> 4)
		if lit == 15 {
			for {
				if pos >= len(src) {
					return nil, fmt.Errorf("lz4: truncated literal length")
				}
				c := src[pos]
				pos++
				lit += int(c)
				if c != 255 {
					break
				}
			}
		}
		if pos+lit > len(src) {
			return nil, fmt.Errorf("lz4: literals exceed input")
		}
		out = append(out, src[pos:pos+lit]...)
		pos += lit
		if pos >= len(src) {
			break // last sequence has no match
		}
		if pos+2 > len(src) {
			return nil, fmt.Errorf("lz4: truncated offset")
		}
		off := int(binary.LittleEndian.Uint16(src[pos:]))
		pos += 2
		ml := int(token & 15)
		if ml == 15 {
			for {
				if pos >= len(src) {
					return nil, fmt.Errorf("lz4: truncated match length")
				}
				c := src[pos]
				pos++
				ml += int(c)
				if c != 255 {
					break
				}
			}
		}
		ml += 4
		if off <= 0 || off > len(out) {
			return nil, fmt.Errorf("lz4: offset %d out of range", off)
		}
		start := len(out) - off
		for i := 0; i < ml; i++ {
			out = append(out, out[start+i])
		}
	}
	return out, nil
}
