package ref

import "fmt"

// Shred turns one row (a value tree for the root group) into one Dremel
// stream per leaf column, following Melnik et al. and the LIST / MAP layouts of
// parquet-format LogicalTypes.md.
func Shred(root *Node, row V, out [][]LV) [][]LV {
	if out == nil {
		out = make([][]LV, len(Columns(root)))
	}
	col := 0
	for i := range root.Children {
		var f V
		if i < len(row.F) {
			f = row.F[i]
		} else {
			f = zeroOf(&root.Children[i])
		}
		col = shredNode(&root.Children[i], f, 0, 0, 0, col, out)
	}
	return out
}

// zeroOf is the value used when a tree is shorter than the schema: null for
// optional, empty for repeated, zero for required.
func zeroOf(n *Node) V {
	switch n.Rep {
	case "opt":
		return V{Null: true}
	case "rep":
		return V{}
	}
	switch n.Kind {
	case "leaf":
		l := ParseLeaf(n.Leaf)
		if l.Phys == FLBA {
			return V{B: make([]byte, l.Len)}
		}
		if l.Phys == Int96 {
			return V{B: make([]byte, 12)}
		}
		if l.IsBytes() {
			return V{B: []byte{}}
		}
		return V{}
	case "group":
		v := V{}
		for i := range n.Children {
			v.F = append(v.F, zeroOf(&n.Children[i]))
		}
		return v
	}
	return V{}
}

// LeafCount returns the number of leaf columns under the node.
func LeafCount(n *Node) int {
	switch n.Kind {
	case "leaf":
		return 1
	default:
		c := 0
		for i := range n.Children {
			c += LeafCount(&n.Children[i])
		}
		return c
	}
}

func emitNulls(n *Node, r, d, col int, out [][]LV) int {
	k := LeafCount(n)
	for i := 0; i < k; i++ {
		out[col+i] = append(out[col+i], LV{Null: true, Rep: r, Def: d})
	}
	return col + k
}

// shredNode handles the node's own repetition then its content.
// r: repetition level to stamp on the first value emitted; d: definition level
// reached so far; depth: number of repeated ancestors (the repetition level of
// a continuation inside the innermost one).
func shredNode(n *Node, v V, r, d, depth, col int, out [][]LV) int {
	switch n.Rep {
	case "opt":
		if v.Null {
			return emitNulls(n, r, d, col, out)
		}
		return shredContent(n, v, r, d+1, depth, col, out)
	case "rep":
		if len(v.L) == 0 {
			return emitNulls(n, r, d, col, out)
		}
		next := col
		for i := range v.L {
			ri := r
			if i > 0 {
				ri = depth + 1
			}
			next = shredContent(n, v.L[i], ri, d+1, depth+1, col, out)
		}
		return next
	default:
		return shredContent(n, v, r, d, depth, col, out)
	}
}

func shredContent(n *Node, v V, r, d, depth, col int, out [][]LV) int {
	switch n.Kind {
	case "leaf":
		b := v.B
		// fixed-size values are normalised to their size (a shrunk or zero V has no bytes)
		if l := ParseLeaf(n.Leaf); l.Phys == FLBA || l.Phys == Int96 {
			size := l.Len
			if l.Phys == Int96 {
				size = 12
			}
			if len(b) != size {
				nb := make([]byte, size)
				copy(nb, b)
				b = nb
			}
		}
		out[col] = append(out[col], LV{I: v.I, B: b, Rep: r, Def: d})
		return col + 1
	case "group":
		for i := range n.Children {
			var f V
			if i < len(v.F) {
				f = v.F[i]
			} else {
				f = zeroOf(&n.Children[i])
			}
			col = shredNode(&n.Children[i], f, r, d, depth, col, out)
		}
		return col
	case "list", "map":
		// the inner repeated group ("list" / "key_value")
		if len(v.L) == 0 {
			return emitNulls(n, r, d, col, out)
		}
		next := col
		for i := range v.L {
			ri := r
			if i > 0 {
				ri = depth + 1
			}
			c := col
			if n.Kind == "list" {
				c = shredNode(&n.Children[0], v.L[i], ri, d+1, depth+1, c, out)
			} else {
				e := v.L[i]
				var k, val V
				if len(e.F) > 0 {
					k = e.F[0]
				}
				if len(e.F) > 1 {
					val = e.F[1]
				} else {
					val = zeroOf(&n.Children[1])
				}
				c = shredNode(&n.Children[0], k, ri, d+1, depth+1, c, out)
				c = shredNode(&n.Children[1], val, ri, d+1, depth+1, c, out)
			}
			next = c
		}
		return next
	}
	panic("ref: bad node kind " + n.Kind)
}

// ShredRows shreds every row and returns, per column, the concatenated stream
// together with the number of stream entries of each row (for row slicing).
func ShredRows(root *Node, rows []V) [][]LV {
	out := make([][]LV, len(Columns(root)))
	for _, r := range rows {
		Shred(root, r, out)
	}
	return out
}

// CountRows counts rows in a stream of a column (entries with Rep == 0).
func CountRows(s []LV) int {
	n := 0
	for _, e := range s {
		if e.Rep == 0 {
			n++
		}
	}
	return n
}

// Assemble is the inverse of Shred for one row: given, per column, exactly the
// entries of that row, it rebuilds the value tree. It is used as a self-test of
// the model (Assemble∘Shred = id up to the normal form produced by Normalize).
func Assemble(root *Node, cols [][]LV) (V, error) {
	a := &assembler{cols: cols, pos: make([]int, len(cols))}
	v := V{}
	col := 0
	for i := range root.Children {
		n := &root.Children[i]
		f, err := a.node(n, 0, 0, col)
		if err != nil {
			return V{}, err
		}
		v.F = append(v.F, f)
		col += LeafCount(n)
	}
	for i := range cols {
		if a.pos[i] != len(cols[i]) {
			return V{}, fmt.Errorf("assemble: column %d has %d unread entries", i, len(cols[i])-a.pos[i])
		}
	}
	return v, nil
}

type assembler struct {
	cols [][]LV
	pos  []int
}

func (a *assembler) peek(col int) (LV, bool) {
	if a.pos[col] >= len(a.cols[col]) {
		return LV{}, false
	}
	return a.cols[col][a.pos[col]], true
}

func (a *assembler) skip(n *Node, col int) {
	k := LeafCount(n)
	for i := 0; i < k; i++ {
		a.pos[col+i]++
	}
}

// node reads one instance of n whose first leaf is column col. d is the
// definition level reached by the ancestors, depth the number of repeated
// ancestors.
func (a *assembler) node(n *Node, d, depth, col int) (V, error) {
	first, ok := a.peek(col)
	if !ok {
		return V{}, fmt.Errorf("assemble: column %d exhausted", col)
	}
	switch n.Rep {
	case "opt":
		if first.Def <= d {
			a.skip(n, col)
			return V{Null: true}, nil
		}
		return a.content(n, d+1, depth, col)
	case "rep":
		if first.Def <= d {
			a.skip(n, col)
			return V{}, nil
		}
		out := V{}
		for {
			e, err := a.content(n, d+1, depth+1, col)
			if err != nil {
				return V{}, err
			}
			out.L = append(out.L, e)
			nx, ok := a.peek(col)
			if !ok || nx.Rep != depth+1 {
				break
			}
		}
		return out, nil
	}
	return a.content(n, d, depth, col)
}

func (a *assembler) content(n *Node, d, depth, col int) (V, error) {
	switch n.Kind {
	case "leaf":
		e, _ := a.peek(col)
		a.pos[col]++
		if e.Null {
			return V{}, fmt.Errorf("assemble: null where value expected in column %d (def %d, want ≥ %d)", col, e.Def, d)
		}
		return V{I: e.I, B: e.B}, nil
	case "group":
		v := V{}
		for i := range n.Children {
			f, err := a.node(&n.Children[i], d, depth, col)
			if err != nil {
				return V{}, err
			}
			v.F = append(v.F, f)
			col += LeafCount(&n.Children[i])
		}
		return v, nil
	case "list", "map":
		first, _ := a.peek(col)
		if first.Def <= d {
			a.skip(n, col)
			return V{}, nil
		}
		out := V{}
		for {
			if n.Kind == "list" {
				e, err := a.node(&n.Children[0], d+1, depth+1, col)
				if err != nil {
					return V{}, err
				}
				out.L = append(out.L, e)
			} else {
				k, err := a.node(&n.Children[0], d+1, depth+1, col)
				if err != nil {
					return V{}, err
				}
				v, err := a.node(&n.Children[1], d+1, depth+1, col+LeafCount(&n.Children[0]))
				if err != nil {
					return V{}, err
				}
				out.L = append(out.L, V{F: []V{k, v}})
			}
			nx, ok := a.peek(col)
			if !ok || nx.Rep != depth+1 {
				break
			}
		}
		return out, nil
	}
	return V{}, fmt.Errorf("assemble: bad kind %q", n.Kind)
}
