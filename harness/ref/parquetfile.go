package ref

import (
	"encoding/binary"
	"fmt"
	"hash/crc32"
	"strings"
)

// Independent reader of the parquet file layout, written from parquet.thrift
// and the parquet-format documents. It parses the footer, walks the pages of
// every column chunk and decodes them into Dremel streams.

// FileColumn is a leaf column as described by the file's schema.
type FileColumn struct {
	Path   []string
	Phys   int
	Len    int
	MaxRep int
	MaxDef int
}

// PPage is one page found by walking a column chunk.
type PPage struct {
	Offset     int64 // of the page header
	HeaderLen  int
	BodyOffset int64
	CompSize   int
	UncompSize int
	Type       int // 0 data v1, 2 dictionary, 3 data v2
	Header     TVal
	HasCRC     bool
	CRC        uint32
	NumValues  int
	Encoding   int
	// v2 only
	NumNulls, NumRows int
	DefLen, RepLen    int
	IsCompressed      bool
	Stats             *TVal
	FirstRowInChunk   int64 // filled by the walk (data pages)
	DecodedRows       int
	Rep, Def          []int
	Values            []LV   // non-null values
	Plain             []byte // decrypted body (encrypted files); nil: the body is in the file bytes
}

// PChunk is a column chunk.
type PChunk struct {
	Top   TVal // ColumnChunk
	Meta  TVal // ColumnMetaData
	Pages []PPage
	Start int64 // first byte of the chunk (dictionary page or first data page)
	End   int64 // one past the last page body
}

// PRowGroup is a row group.
type PRowGroup struct {
	V      TVal
	Chunks []PChunk
}

// PFile is a parsed file.
type PFile struct {
	Data      []byte
	Meta      TVal
	FooterPos int64
	Cols      []FileColumn
	RowGroups []PRowGroup
}

// ParseFile parses magic, footer and schema (no page access yet).
func ParseFile(data []byte) (*PFile, error) {
	if len(data) < 12 {
		return nil, fmt.Errorf("file of %d bytes is too short", len(data))
	}
	if string(data[:4]) != "PAR1" {
		return nil, fmt.Errorf("bad leading magic %q", data[:4])
	}
	if string(data[len(data)-4:]) != "PAR1" {
		return nil, fmt.Errorf("bad trailing magic %q", data[len(data)-4:])
	}
	flen := int64(binary.LittleEndian.Uint32(data[len(data)-8:]))
	fpos := int64(len(data)) - 8 - flen
	if fpos < 4 {
		return nil, fmt.Errorf("footer length %d exceeds file", flen)
	}
	meta, used, err := ReadThriftStruct(data[fpos : len(data)-8])
	if err != nil {
		return nil, fmt.Errorf("footer: %w", err)
	}
	if int64(used) != flen {
		return nil, fmt.Errorf("footer length field says %d bytes, FileMetaData occupies %d", flen, used)
	}
	f := &PFile{Data: data, Meta: meta, FooterPos: fpos}
	if err := f.parseSchema(); err != nil {
		return nil, err
	}
	for _, rg := range meta.List(4) {
		prg := PRowGroup{V: rg}
		for _, cc := range rg.List(1) {
			md, ok := cc.Field(3)
			if !ok {
				return nil, fmt.Errorf("column chunk without meta_data")
			}
			prg.Chunks = append(prg.Chunks, PChunk{Top: cc, Meta: md})
		}
		f.RowGroups = append(f.RowGroups, prg)
	}
	return f, nil
}

func (f *PFile) parseSchema() error {
	elems := f.Meta.List(2)
	if len(elems) == 0 {
		return fmt.Errorf("empty schema")
	}
	pos := 1
	var walk func(path []string, rep, def int) error
	walk = func(path []string, rep, def int) error {
		if pos >= len(elems) {
			return fmt.Errorf("schema: num_children exceeds element list")
		}
		e := elems[pos]
		pos++
		name := string(e.Bytes(4))
		p := append(append([]string{}, path...), name)
		switch e.Int(3, 0) { // repetition_type: 0 required 1 optional 2 repeated
		case 1:
			def++
		case 2:
			rep++
			def++
		}
		if e.Has(5) && e.Int(5, 0) > 0 || !e.Has(1) {
			n := int(e.Int(5, 0))
			for i := 0; i < n; i++ {
				if err := walk(p, rep, def); err != nil {
					return err
				}
			}
			return nil
		}
		f.Cols = append(f.Cols, FileColumn{Path: p, Phys: int(e.Int(1, 0)), Len: int(e.Int(2, 0)), MaxRep: rep, MaxDef: def})
		return nil
	}
	root := elems[0]
	n := int(root.Int(5, 0))
	for i := 0; i < n; i++ {
		if err := walk(nil, 0, 0); err != nil {
			return err
		}
	}
	if pos != len(elems) {
		return fmt.Errorf("schema: %d elements, %d reachable from the root", len(elems), pos)
	}
	return nil
}

// NumRows returns FileMetaData.num_rows.
func (f *PFile) NumRows() int64 { return f.Meta.Int(3, 0) }

// WalkChunk reads the page headers of a chunk starting at its recorded first
// page and stops when the data pages account for meta num_values.
func (f *PFile) WalkChunk(c *PChunk) error {
	md := c.Meta
	start := md.Int(9, 0) // data_page_offset
	if d := md.Int(11, 0); md.Has(11) && d > 0 {
		if d < start {
			start = d
		}
	}
	c.Start = start
	want := md.Int(5, 0)
	pos := start
	var seen int64
	c.Pages = nil
	for seen < want {
		if pos < 4 || pos >= f.FooterPos {
			return fmt.Errorf("page header offset %d outside the data area [4,%d)", pos, f.FooterPos)
		}
		h, used, err := ReadThriftStruct(f.Data[pos:f.FooterPos])
		if err != nil {
			return fmt.Errorf("page header at %d: %w", pos, err)
		}
		p := PPage{Offset: pos, HeaderLen: used, BodyOffset: pos + int64(used), Header: h,
			Type: int(h.Int(1, -1)), UncompSize: int(h.Int(2, -1)), CompSize: int(h.Int(3, -1))}
		if p.CompSize < 0 || p.UncompSize < 0 {
			return fmt.Errorf("page at %d: missing size fields", pos)
		}
		if crc, ok := h.Field(4); ok {
			p.HasCRC, p.CRC = true, uint32(int32(crc.I))
		}
		if p.BodyOffset+int64(p.CompSize) > f.FooterPos {
			return fmt.Errorf("page at %d: body of %d bytes exceeds the data area", pos, p.CompSize)
		}
		switch p.Type {
		case 0:
			dh, ok := h.Field(5)
			if !ok {
				return fmt.Errorf("page at %d: DATA_PAGE without data_page_header", pos)
			}
			p.NumValues, p.Encoding = int(dh.Int(1, 0)), int(dh.Int(2, 0))
			if st, ok := dh.Field(5); ok {
				p.Stats = &st
			}
			seen += int64(p.NumValues)
		case 2:
			dh, ok := h.Field(7)
			if !ok {
				return fmt.Errorf("page at %d: DICTIONARY_PAGE without header", pos)
			}
			p.NumValues, p.Encoding = int(dh.Int(1, 0)), int(dh.Int(2, 0))
		case 3:
			dh, ok := h.Field(8)
			if !ok {
				return fmt.Errorf("page at %d: DATA_PAGE_V2 without header", pos)
			}
			p.NumValues, p.NumNulls, p.NumRows = int(dh.Int(1, 0)), int(dh.Int(2, 0)), int(dh.Int(3, 0))
			p.Encoding = int(dh.Int(4, 0))
			p.DefLen, p.RepLen = int(dh.Int(5, 0)), int(dh.Int(6, 0))
			p.IsCompressed = dh.Int(7, 1) != 0
			if st, ok := dh.Field(8); ok {
				p.Stats = &st
			}
			seen += int64(p.NumValues)
		default:
			return fmt.Errorf("page at %d: unexpected page type %d", pos, p.Type)
		}
		c.Pages = append(c.Pages, p)
		pos = p.BodyOffset + int64(p.CompSize)
	}
	c.End = pos
	return nil
}

// Body returns the stored (possibly compressed) body bytes of the page.
func (f *PFile) Body(p *PPage) []byte {
	if p.Plain != nil {
		return p.Plain
	}
	return f.Data[p.BodyOffset : p.BodyOffset+int64(p.CompSize)]
}

// CRCOf computes the CRC-32 (IEEE) of the stored body.
func (f *PFile) CRCOf(p *PPage) uint32 { return crc32.ChecksumIEEE(f.Body(p)) }

// DecodeChunk decodes every page of a walked chunk into levels and values and
// returns the chunk's Dremel stream.
func (f *PFile) DecodeChunk(col FileColumn, leaf Leaf, c *PChunk) ([]LV, error) {
	codec := int(c.Meta.Int(4, 0))
	var dict []LV
	var out []LV
	rowsSoFar := int64(0)
	for i := range c.Pages {
		p := &c.Pages[i]
		body := f.Body(p)
		switch p.Type {
		case 2:
			raw, err := Decompress(codec, body, p.UncompSize)
			if err != nil {
				return nil, fmt.Errorf("dictionary page at %d: decompress: %w", p.Offset, err)
			}
			if len(raw) != p.UncompSize {
				return nil, fmt.Errorf("dictionary page at %d: uncompressed_page_size %d but body decompresses to %d", p.Offset, p.UncompSize, len(raw))
			}
			if p.Encoding != EncPlain && p.Encoding != EncPlainDict {
				return nil, fmt.Errorf("dictionary page at %d: encoding %d", p.Offset, p.Encoding)
			}
			d, err := decodePlain(leaf, raw, p.NumValues)
			if err != nil {
				return nil, fmt.Errorf("dictionary page at %d: %w", p.Offset, err)
			}
			dict = d
		case 0:
			raw, err := Decompress(codec, body, p.UncompSize)
			if err != nil {
				return nil, fmt.Errorf("data page at %d: decompress: %w", p.Offset, err)
			}
			if len(raw) != p.UncompSize {
				return nil, fmt.Errorf("data page at %d: uncompressed_page_size %d but body decompresses to %d", p.Offset, p.UncompSize, len(raw))
			}
			pos := 0
			readLevels := func(max int) ([]int, error) {
				if max == 0 {
					return make([]int, p.NumValues), nil
				}
				if pos+4 > len(raw) {
					return nil, fmt.Errorf("level length prefix exceeds page")
				}
				ln := int(binary.LittleEndian.Uint32(raw[pos:]))
				pos += 4
				if pos+ln > len(raw) {
					return nil, fmt.Errorf("levels of %d bytes exceed page", ln)
				}
				vals, _, err := DecodeHybrid(raw[pos:pos+ln], bitWidthOf(max), p.NumValues)
				pos += ln
				if err != nil {
					return nil, err
				}
				lv := make([]int, len(vals))
				for i, v := range vals {
					lv[i] = int(v)
				}
				return lv, nil
			}
			if p.Rep, err = readLevels(col.MaxRep); err != nil {
				return nil, fmt.Errorf("data page at %d: repetition levels: %w", p.Offset, err)
			}
			if p.Def, err = readLevels(col.MaxDef); err != nil {
				return nil, fmt.Errorf("data page at %d: definition levels: %w", p.Offset, err)
			}
			if err := f.finishPage(col, leaf, p, raw[pos:], dict); err != nil {
				return nil, err
			}
		case 3:
			if p.RepLen+p.DefLen > len(body) {
				return nil, fmt.Errorf("data page v2 at %d: level lengths %d+%d exceed body %d", p.Offset, p.RepLen, p.DefLen, len(body))
			}
			rep, _, err := decodeLevelsV2(body[:p.RepLen], col.MaxRep, p.NumValues)
			if err != nil {
				return nil, fmt.Errorf("data page v2 at %d: repetition levels: %w", p.Offset, err)
			}
			def, _, err := decodeLevelsV2(body[p.RepLen:p.RepLen+p.DefLen], col.MaxDef, p.NumValues)
			if err != nil {
				return nil, fmt.Errorf("data page v2 at %d: definition levels: %w", p.Offset, err)
			}
			p.Rep, p.Def = rep, def
			vals := body[p.RepLen+p.DefLen:]
			want := p.UncompSize - p.RepLen - p.DefLen
			if p.IsCompressed && codec != CodecNone {
				if vals, err = Decompress(codec, vals, want); err != nil {
					return nil, fmt.Errorf("data page v2 at %d: decompress: %w", p.Offset, err)
				}
			}
			if len(vals) != want {
				return nil, fmt.Errorf("data page v2 at %d: uncompressed_page_size %d but levels+values are %d bytes", p.Offset, p.UncompSize, len(vals)+p.RepLen+p.DefLen)
			}
			if err := f.finishPage(col, leaf, p, vals, dict); err != nil {
				return nil, err
			}
		}
		if p.Type != 2 {
			p.FirstRowInChunk = rowsSoFar
			vi := 0
			for k := range p.Def {
				e := LV{Rep: p.Rep[k], Def: p.Def[k]}
				if p.Def[k] == col.MaxDef {
					e.I, e.B = p.Values[vi].I, p.Values[vi].B
					vi++
				} else {
					e.Null = true
				}
				if e.Rep == 0 {
					p.DecodedRows++
				}
				out = append(out, e)
			}
			rowsSoFar += int64(p.DecodedRows)
		}
	}
	return out, nil
}

func decodeLevelsV2(b []byte, max, n int) ([]int, int, error) {
	if max == 0 {
		// some writers emit level bytes even for required columns; they carry no information
		return make([]int, n), 0, nil
	}
	vals, used, err := DecodeHybrid(b, bitWidthOf(max), n)
	if err != nil {
		return nil, used, err
	}
	lv := make([]int, len(vals))
	for i, v := range vals {
		lv[i] = int(v)
	}
	return lv, used, nil
}

func (f *PFile) finishPage(col FileColumn, leaf Leaf, p *PPage, vals []byte, dict []LV) error {
	nonNull := 0
	for _, d := range p.Def {
		if d > col.MaxDef {
			return fmt.Errorf("page at %d: definition level %d above the maximum %d", p.Offset, d, col.MaxDef)
		}
		if d == col.MaxDef {
			nonNull++
		}
	}
	for _, r := range p.Rep {
		if r > col.MaxRep {
			return fmt.Errorf("page at %d: repetition level %d above the maximum %d", p.Offset, r, col.MaxRep)
		}
	}
	v, err := DecodeValues(leaf, p.Encoding, vals, nonNull, dict)
	if err != nil {
		return fmt.Errorf("page at %d (encoding %d, %d non-null values): %w", p.Offset, p.Encoding, nonNull, err)
	}
	p.Values = v
	return nil
}

// PathString joins a column path.
func PathString(p []string) string { return strings.Join(p, ".") }
