package ref

import (
	"bytes"
	"fmt"
	"sort"
)

// DiffV compares two value trees under the schema node (content level, the
// node's own repetition included). Map entries are compared as sets ordered by
// key; INT32-backed and float values compare on their physical bits. It
// returns "" when equal, else a path to the first difference.
func DiffV(n *Node, a, b V) string { return diffNode(n, a, b, n.Name) }

func diffNode(n *Node, a, b V, path string) string {
	switch n.Rep {
	case "opt":
		if a.Null != b.Null {
			return fmt.Sprintf("%s: null=%v vs null=%v", path, a.Null, b.Null)
		}
		if a.Null {
			return ""
		}
	case "rep":
		if len(a.L) != len(b.L) {
			return fmt.Sprintf("%s: %d vs %d repeated values", path, len(a.L), len(b.L))
		}
		for i := range a.L {
			if d := diffContent(n, a.L[i], b.L[i], fmt.Sprintf("%s[%d]", path, i)); d != "" {
				return d
			}
		}
		return ""
	}
	return diffContent(n, a, b, path)
}

func diffContent(n *Node, a, b V, path string) string {
	switch n.Kind {
	case "leaf":
		l := ParseLeaf(n.Leaf)
		if !leafEqual(l, a, b) {
			return fmt.Sprintf("%s (%s): %s vs %s", path, n.Leaf, leafString(l, a), leafString(l, b))
		}
	case "group":
		for i := range n.Children {
			var fa, fb V
			if i < len(a.F) {
				fa = a.F[i]
			} else {
				fa = zeroOf(&n.Children[i])
			}
			if i < len(b.F) {
				fb = b.F[i]
			} else {
				fb = zeroOf(&n.Children[i])
			}
			if d := diffNode(&n.Children[i], fa, fb, path+"."+n.Children[i].Name); d != "" {
				return d
			}
		}
	case "list":
		if len(a.L) != len(b.L) {
			return fmt.Sprintf("%s: list of %d vs %d elements", path, len(a.L), len(b.L))
		}
		for i := range a.L {
			if d := diffNode(&n.Children[0], a.L[i], b.L[i], fmt.Sprintf("%s[%d]", path, i)); d != "" {
				return d
			}
		}
	case "map":
		if len(a.L) != len(b.L) {
			return fmt.Sprintf("%s: map of %d vs %d entries", path, len(a.L), len(b.L))
		}
		ea, eb := sortedEntries(n, a.L), sortedEntries(n, b.L)
		for i := range ea {
			if d := diffNode(&n.Children[0], ea[i].F[0], eb[i].F[0], fmt.Sprintf("%s{key %d}", path, i)); d != "" {
				return d
			}
			if d := diffNode(&n.Children[1], ea[i].F[1], eb[i].F[1], fmt.Sprintf("%s{value %d}", path, i)); d != "" {
				return d
			}
		}
	}
	return ""
}

func sortedEntries(n *Node, es []V) []V {
	out := append([]V(nil), es...)
	sort.SliceStable(out, func(i, j int) bool {
		ki, kj := out[i].F[0], out[j].F[0]
		if ki.I != kj.I {
			return ki.I < kj.I
		}
		return bytes.Compare(ki.B, kj.B) < 0
	})
	return out
}

func leafEqual(l Leaf, a, b V) bool {
	switch l.Phys {
	case Boolean:
		return (a.I != 0) == (b.I != 0)
	case Int32, Float:
		return uint32(a.I) == uint32(b.I)
	case Int64, Double:
		return a.I == b.I
	}
	return bytes.Equal(a.B, b.B)
}

func leafString(l Leaf, v V) string {
	if l.IsBytes() {
		return fmt.Sprintf("%x", v.B)
	}
	return fmt.Sprintf("%d", v.I)
}

// DiffRow compares two rows (root group values).
func DiffRow(root *Node, a, b V) string {
	for i := range root.Children {
		var fa, fb V
		if i < len(a.F) {
			fa = a.F[i]
		} else {
			fa = zeroOf(&root.Children[i])
		}
		if i < len(b.F) {
			fb = b.F[i]
		} else {
			fb = zeroOf(&root.Children[i])
		}
		if d := diffNode(&root.Children[i], fa, fb, root.Children[i].Name); d != "" {
			return d
		}
	}
	return ""
}

// SplitRows cuts per-column streams into rows (a row starts at Rep == 0).
func SplitRows(streams [][]LV) ([][][]LV, error) {
	if len(streams) == 0 {
		return nil, nil
	}
	n := CountRows(streams[0])
	out := make([][][]LV, n)
	for i := range out {
		out[i] = make([][]LV, len(streams))
	}
	for c, s := range streams {
		r := -1
		for _, e := range s {
			if e.Rep == 0 {
				r++
			}
			if r < 0 || r >= n {
				return nil, fmt.Errorf("column %d: stream does not split into %d rows", c, n)
			}
			out[r][c] = append(out[r][c], e)
		}
		if r != n-1 {
			return nil, fmt.Errorf("column %d has %d rows, column 0 has %d", c, r+1, n)
		}
	}
	return out, nil
}
