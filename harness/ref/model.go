// Package ref holds the reference side of every oracle: the abstract schema
// and value model, the Dremel shredder/assembler, the sort orders and the
// independent file decoder. Nothing in this package imports parquet-go.
package ref

import (
	"bytes"
	"fmt"
	"math"
	"strconv"
	"strings"
)

// Physical types (parquet.thrift Type enum values).
const (
	Boolean = 0
	Int32   = 1
	Int64   = 2
	Int96   = 3
	Float   = 4
	Double  = 5
	ByteArr = 6
	FLBA    = 7
)

// Order is the sort order of a leaf type.
type Order int

const (
	OrderNone     Order = iota // undefined (INT96, INTERVAL)
	OrderSigned                // signed integer on I
	OrderUnsigned              // unsigned integer on I (width given by physical type)
	OrderFloat                 // IEEE (I holds the bits), NaN unordered, -0 == +0
	OrderBytes                 // unsigned lexicographic on B
	OrderDecBytes              // signed big-endian two's complement on B
	OrderBool                  // false < true
)

// Leaf describes a leaf type id such as "int32", "uint8", "flba:7",
// "dec32:9:2", "decflba:5:10:3", "ts:ms".
type Leaf struct {
	ID       string
	Phys     int
	Len      int // FLBA length
	Order    Order
	Bits     int // logical integer width (8,16,32,64) for int/uint ids, else 0
	Unsigned bool
}

// ParseLeaf decodes a leaf id.
func ParseLeaf(id string) Leaf {
	l := Leaf{ID: id}
	parts := strings.Split(id, ":")
	atoi := func(i int) int { n, _ := strconv.Atoi(parts[i]); return n }
	switch parts[0] {
	case "bool":
		l.Phys, l.Order = Boolean, OrderBool
	case "int32", "date", "time:ms":
		l.Phys, l.Order, l.Bits = Int32, OrderSigned, 32
	case "int8", "int16":
		l.Phys, l.Order = Int32, OrderSigned
		l.Bits, _ = strconv.Atoi(parts[0][3:])
	case "int64":
		l.Phys, l.Order, l.Bits = Int64, OrderSigned, 64
	case "uint8", "uint16", "uint32":
		l.Phys, l.Order, l.Unsigned = Int32, OrderUnsigned, true
		l.Bits, _ = strconv.Atoi(parts[0][4:])
	case "uint64":
		l.Phys, l.Order, l.Unsigned, l.Bits = Int64, OrderUnsigned, true, 64
	case "int96":
		l.Phys, l.Order = Int96, OrderNone
	case "float":
		l.Phys, l.Order = Float, OrderFloat
	case "double":
		l.Phys, l.Order = Double, OrderFloat
	case "bytes", "string", "json", "bson", "enum":
		l.Phys, l.Order = ByteArr, OrderBytes
	case "flba":
		l.Phys, l.Order, l.Len = FLBA, OrderBytes, atoi(1)
	case "uuid":
		l.Phys, l.Order, l.Len = FLBA, OrderBytes, 16
	case "time":
		switch parts[1] {
		case "ms":
			l.Phys, l.Order, l.Bits = Int32, OrderSigned, 32
		default:
			l.Phys, l.Order, l.Bits = Int64, OrderSigned, 64
		}
	case "ts":
		l.Phys, l.Order, l.Bits = Int64, OrderSigned, 64
	case "dec32": // dec32:precision:scale
		l.Phys, l.Order, l.Bits = Int32, OrderSigned, 32
	case "dec64":
		l.Phys, l.Order, l.Bits = Int64, OrderSigned, 64
	case "decflba": // decflba:len:precision:scale
		l.Phys, l.Order, l.Len = FLBA, OrderDecBytes, atoi(1)
	case "decbytes":
		l.Phys, l.Order = ByteArr, OrderDecBytes
	default:
		panic("ref: unknown leaf id " + id)
	}
	if id == "time:ms" {
		l.Phys, l.Bits = Int32, 32
	}
	return l
}

// IsBytes reports whether values of the leaf live in V.B.
func (l Leaf) IsBytes() bool { return l.Phys == ByteArr || l.Phys == FLBA || l.Phys == Int96 }

// V is a node of a value tree. Which members are meaningful is decided by the
// schema node it is paired with: leaves use I (bool, ints, float bits) or B
// (byte arrays, FLBA, INT96 as 12 bytes); groups use F (one per field, schema
// order); lists use L (elements); maps use L of entries whose F is [key,value];
// repeated nodes use L. Null marks an absent optional value.
type V struct {
	Null bool   `json:"n,omitempty"`
	I    int64  `json:"i,omitempty"`
	B    []byte `json:"b,omitempty"`
	L    []V    `json:"l,omitempty"`
	F    []V    `json:"f,omitempty"`
	X    int    `json:"x,omitempty"` // compact long lists: L is repeated cyclically to X elements (see Materialize)
}

// Materialize expands the compact long-list form (X) recursively.
func Materialize(v V) V {
	out := V{Null: v.Null, I: v.I, B: v.B}
	if len(v.F) > 0 {
		out.F = make([]V, len(v.F))
		for i := range v.F {
			out.F[i] = Materialize(v.F[i])
		}
	}
	n := len(v.L)
	if v.X > n && n > 0 {
		n = v.X
	}
	if n > 0 {
		out.L = make([]V, n)
		for i := range out.L {
			out.L[i] = Materialize(v.L[i%len(v.L)])
		}
	}
	return out
}

// Node is the abstract schema tree.
type Node struct {
	Name     string `json:"name"`
	Rep      string `json:"rep"`            // "req" | "opt" | "rep"
	Kind     string `json:"kind"`           // "leaf" | "group" | "list" | "map"
	Leaf     string `json:"leaf,omitempty"` // leaf id
	Children []Node `json:"ch,omitempty"`   // group: fields; list: [element]; map: [key, value]
	Enc      string `json:"enc,omitempty"`  // per-leaf encoding override
	Codec    string `json:"codec,omitempty"`
}

// Column is a leaf column of the flattened schema.
type Column struct {
	Path   []string
	Leaf   Leaf
	MaxRep int
	MaxDef int
	Node   *Node
}

// LV is one entry of a Dremel column stream.
type LV struct {
	Null bool
	I    int64
	B    []byte
	Rep  int
	Def  int
}

func (a LV) Equal(b LV) bool {
	return a.Null == b.Null && a.Rep == b.Rep && a.Def == b.Def && (a.Null || (a.I == b.I && bytes.Equal(a.B, b.B)))
}

func (a LV) String() string {
	if a.Null {
		return fmt.Sprintf("null(r%d,d%d)", a.Rep, a.Def)
	}
	if a.B != nil {
		return fmt.Sprintf("%x(r%d,d%d)", a.B, a.Rep, a.Def)
	}
	return fmt.Sprintf("%d(r%d,d%d)", a.I, a.Rep, a.Def)
}

// Compare orders two non-null leaf values of the same leaf type. ok is false
// when the pair is unordered (NaN involved, or the type has no defined order).
func Compare(l Leaf, aI int64, aB []byte, bI int64, bB []byte) (c int, ok bool) {
	switch l.Order {
	case OrderBool, OrderSigned:
		// INT32 physical values are held sign-extended in I.
		return cmpInt(aI, bI), true
	case OrderUnsigned:
		ua, ub := uint64(aI), uint64(bI)
		if l.Phys == Int32 {
			ua, ub = uint64(uint32(aI)), uint64(uint32(bI))
		}
		switch {
		case ua < ub:
			return -1, true
		case ua > ub:
			return 1, true
		}
		return 0, true
	case OrderFloat:
		var fa, fb float64
		if l.Phys == Float {
			fa, fb = float64(math.Float32frombits(uint32(aI))), float64(math.Float32frombits(uint32(bI)))
		} else {
			fa, fb = math.Float64frombits(uint64(aI)), math.Float64frombits(uint64(bI))
		}
		if fa != fa || fb != fb {
			return 0, false
		}
		switch {
		case fa < fb:
			return -1, true
		case fa > fb:
			return 1, true
		}
		return 0, true
	case OrderBytes:
		return bytes.Compare(aB, bB), true
	case OrderDecBytes:
		return cmpDecBytes(aB, bB), true
	}
	return 0, false
}

func cmpInt(a, b int64) int {
	switch {
	case a < b:
		return -1
	case a > b:
		return 1
	}
	return 0
}

// cmpDecBytes compares big-endian two's-complement integers of any lengths.
func cmpDecBytes(a, b []byte) int {
	neg := func(x []byte) bool { return len(x) > 0 && x[0]&0x80 != 0 }
	na, nb := neg(a), neg(b)
	if na != nb {
		if na {
			return -1
		}
		return 1
	}
	// sign-extend the shorter
	n := len(a)
	if len(b) > n {
		n = len(b)
	}
	ext := func(x []byte, neg bool) []byte {
		out := make([]byte, n)
		fill := byte(0)
		if neg {
			fill = 0xFF
		}
		for i := 0; i < n-len(x); i++ {
			out[i] = fill
		}
		copy(out[n-len(x):], x)
		return out
	}
	return bytes.Compare(ext(a, na), ext(b, nb))
}

// IsNaN reports whether the (float/double) leaf value is a NaN.
func IsNaN(l Leaf, i int64) bool {
	switch l.Phys {
	case Float:
		f := math.Float32frombits(uint32(i))
		return f != f
	case Double:
		f := math.Float64frombits(uint64(i))
		return f != f
	}
	return false
}

// Columns flattens the schema into its leaf columns in depth-first order,
// using the standard LIST (list.element) and MAP (key_value.key/value) layouts.
func Columns(root *Node) []Column {
	var out []Column
	var walk func(n *Node, path []string, rep, def int)
	walk = func(n *Node, path []string, rep, def int) {
		path = append(append([]string(nil), path...), n.Name)
		switch n.Rep {
		case "opt":
			def++
		case "rep":
			rep++
			def++
		}
		switch n.Kind {
		case "leaf":
			out = append(out, Column{Path: path, Leaf: ParseLeaf(n.Leaf), MaxRep: rep, MaxDef: def, Node: n})
		case "group":
			for i := range n.Children {
				walk(&n.Children[i], path, rep, def)
			}
		case "list":
			// <rep> group name (LIST) { repeated group list { <element> } }
			p := append(append([]string(nil), path...), "list")
			el := n.Children[0]
			el.Name = "element"
			walkChild(&el, &n.Children[0], p, rep+1, def+1, walk)
		case "map":
			p := append(append([]string(nil), path...), "key_value")
			k, v := n.Children[0], n.Children[1]
			k.Name, v.Name = "key", "value"
			walkChild(&k, &n.Children[0], p, rep+1, def+1, walk)
			walkChild(&v, &n.Children[1], p, rep+1, def+1, walk)
		}
	}
	for i := range root.Children {
		walk(&root.Children[i], nil, 0, 0)
	}
	return out
}

func walkChild(renamed, orig *Node, path []string, rep, def int, walk func(*Node, []string, int, int)) {
	walk(renamed, path, rep, def)
}
