package gen

import (
	"fmt"
	"math"

	"pgregory.net/rapid"

	"verifharness/ref"
)

// SchemaOpts bounds the schema generator.
type SchemaOpts struct {
	MaxDepth     int
	MaxLeaves    int
	LeafIDs      []string
	Flat         bool // only top-level leaves (required/optional[/repeated])
	NoRepeated   bool // no repeated / list / map anywhere
	PerLeafEnc   bool // draw per-leaf encodings
	PerLeafCodec bool
	EncFor       func(phys int) []string // valid encoding names per physical type (incl. "")
	Codecs       []string
}

type schemaGen struct {
	t      *rapid.T
	o      SchemaOpts
	leaves int
}

// Schema draws a root group. Field names are c0,c1,... so that the
// alphabetical order parquet.Group imposes equals declaration order.
func Schema(t *rapid.T, o SchemaOpts) ref.Node {
	if o.MaxDepth == 0 {
		o.MaxDepth = 3
	}
	if o.MaxLeaves == 0 {
		o.MaxLeaves = 6
	}
	if o.LeafIDs == nil {
		o.LeafIDs = AllLeafIDs
	}
	g := &schemaGen{t: t, o: o}
	root := ref.Node{Name: "root", Rep: "req", Kind: "group"}
	n := rapid.IntRange(1, 5).Draw(t, "nfields")
	for i := 0; i < n && g.leaves < o.MaxLeaves; i++ {
		root.Children = append(root.Children, g.node(fmt.Sprintf("c%d", i), 1, false))
	}
	return root
}

func (g *schemaGen) leaf(name, rep string) ref.Node {
	g.leaves++
	n := ref.Node{Name: name, Rep: rep, Kind: "leaf", Leaf: LeafID(g.t, g.o.LeafIDs, "leaf")}
	l := ref.ParseLeaf(n.Leaf)
	if g.o.PerLeafEnc && g.o.EncFor != nil && rapid.IntRange(0, 2).Draw(g.t, "hasenc") == 0 {
		encs := g.o.EncFor(l.Phys)
		n.Enc = encs[rapid.IntRange(0, len(encs)-1).Draw(g.t, "enc")]
	}
	if g.o.PerLeafCodec && len(g.o.Codecs) > 0 && rapid.IntRange(0, 3).Draw(g.t, "hascodec") == 0 {
		n.Codec = g.o.Codecs[rapid.IntRange(0, len(g.o.Codecs)-1).Draw(g.t, "codec")]
	}
	return n
}

func (g *schemaGen) rep(allowRep bool) string {
	k := rapid.IntRange(0, 5).Draw(g.t, "rep")
	switch {
	case k <= 1:
		return "req"
	case k <= 4 || !allowRep || g.o.NoRepeated:
		return "opt"
	}
	return "rep"
}

// node draws a field. inMapKey forces a required leaf.
func (g *schemaGen) node(name string, depth int, mapKey bool) ref.Node {
	if mapKey {
		n := g.leaf(name, "req")
		return n
	}
	kind := 0 // leaf
	if !g.o.Flat && depth < g.o.MaxDepth && g.leaves+1 < g.o.MaxLeaves {
		k := rapid.IntRange(0, 9).Draw(g.t, "kind")
		switch {
		case k <= 4:
			kind = 0
		case k <= 6:
			kind = 1 // group
		case k <= 8:
			kind = 2 // list
		default:
			kind = 3 // map
		}
		if g.o.NoRepeated && kind >= 2 {
			kind = 1
		}
	}
	switch kind {
	case 0:
		return g.leaf(name, g.rep(true))
	case 1:
		n := ref.Node{Name: name, Rep: g.rep(true), Kind: "group"}
		k := rapid.IntRange(1, 3).Draw(g.t, "gfields")
		for i := 0; i < k && (i == 0 || g.leaves < g.o.MaxLeaves); i++ {
			n.Children = append(n.Children, g.node(fmt.Sprintf("c%d", i), depth+1, false))
		}
		return n
	case 2:
		n := ref.Node{Name: name, Rep: g.rep(false), Kind: "list"}
		el := g.node("element", depth+1, false)
		if el.Rep == "rep" {
			el.Rep = "opt"
		}
		n.Children = []ref.Node{el}
		return n
	default:
		n := ref.Node{Name: name, Rep: g.rep(false), Kind: "map"}
		key := g.node("key", depth+1, true)
		val := g.node("value", depth+1, false)
		if val.Rep == "rep" {
			val.Rep = "opt"
		}
		n.Children = []ref.Node{key, val}
		return n
	}
}

// ValueOpts tunes value-tree generation.
type ValueOpts struct {
	Leaf     Opts
	Style    Style
	NullProb int // percent chance an optional node is null (0..100)
	MaxList  int // max elements of repeated/list/map (default 4)
	// LongLists > 0 lets roughly one list in LongLists be extended (compact form
	// V.X) to a length around the 512-value dictionary chunk and the 1024-value
	// copy batch.
	LongLists int
	longLeft  *int // extensions still allowed in the current row (at most one, never nested)
}

func hasX(v ref.V) bool {
	if v.X > 0 {
		return true
	}
	for i := range v.L {
		if hasX(v.L[i]) {
			return true
		}
	}
	for i := range v.F {
		if hasX(v.F[i]) {
			return true
		}
	}
	return false
}

var longLens = []int{511, 512, 513, 600, 1023, 1024, 1025, 1100, 2100}

func extend(t *rapid.T, v *ref.V, o ValueOpts) {
	if o.LongLists > 0 && o.longLeft != nil && *o.longLeft > 0 && len(v.L) > 0 && !hasX(*v) && rapid.IntRange(0, o.LongLists-1).Draw(t, "long?") == 0 {
		v.X = longLens[rapid.IntRange(0, len(longLens)-1).Draw(t, "longlen")]
		*o.longLeft--
	}
}

// Value draws a value tree for the node (handling its repetition).
func Value(t *rapid.T, n *ref.Node, o ValueOpts) ref.V {
	switch n.Rep {
	case "opt":
		if o.NullProb > 0 && rapid.IntRange(0, 99).Draw(t, "null") < o.NullProb {
			return ref.V{Null: true}
		}
		return content(t, n, o)
	case "rep":
		k := listLen(t, o)
		v := ref.V{}
		for i := 0; i < k; i++ {
			v.L = append(v.L, content(t, n, o))
		}
		extend(t, &v, o)
		return v
	}
	return content(t, n, o)
}

func listLen(t *rapid.T, o ValueOpts) int {
	max := o.MaxList
	if max == 0 {
		max = 4
	}
	k := rapid.IntRange(0, 9).Draw(t, "len")
	switch {
	case k <= 2:
		return 0
	case k <= 5:
		return 1
	case k <= 7:
		return 2
	default:
		return rapid.IntRange(0, max).Draw(t, "lenN")
	}
}

func content(t *rapid.T, n *ref.Node, o ValueOpts) ref.V {
	switch n.Kind {
	case "leaf":
		return LeafV(t, ref.ParseLeaf(n.Leaf), o.Style, o.Leaf, "v")
	case "group":
		v := ref.V{}
		for i := range n.Children {
			v.F = append(v.F, Value(t, &n.Children[i], o))
		}
		return v
	case "list":
		k := listLen(t, o)
		v := ref.V{}
		for i := 0; i < k; i++ {
			v.L = append(v.L, Value(t, &n.Children[0], o))
		}
		extend(t, &v, o)
		return v
	case "map":
		k := listLen(t, o)
		v := ref.V{}
		for i := 0; i < k; i++ {
			key := Value(t, &n.Children[0], o)
			val := Value(t, &n.Children[1], o)
			v.L = append(v.L, ref.V{F: []ref.V{key, val}})
		}
		return v
	}
	panic("gen: bad kind")
}

// RunLens are the run lengths that matter to the 64-row bitmap scanner, the
// 8-element fill kernels and the 1024-value copy batches.
var RunLens = []int{1, 1, 2, 3, 7, 8, 9, 31, 32, 33, 62, 63, 64, 65, 66, 127, 128, 129}

// RowPlan is a compact description of a long row sequence: a small pool of
// distinct rows and a run-length sequence of pool indexes.
type RowPlan struct {
	Pool []ref.V  `json:"pool"`
	Runs [][2]int `json:"runs"`           // (pool index, repeat count)
	Uniq bool     `json:"uniq,omitempty"` // see ExpandWith
}

// Expand materialises the rows.
func (p RowPlan) Expand() []ref.V {
	var out []ref.V
	pool := make([]ref.V, len(p.Pool))
	for i := range p.Pool {
		pool[i] = ref.Materialize(p.Pool[i])
	}
	for _, r := range p.Runs {
		for k := 0; k < r[1]; k++ {
			out = append(out, pool[r[0]])
		}
	}
	return out
}

// NumRows returns the expanded length.
func (p RowPlan) NumRows() int {
	n := 0
	for _, r := range p.Runs {
		n += r[1]
	}
	return n
}

// Rows draws a row plan: a pool of rows drawn with alternating null
// probabilities (so all-null and no-null rows both exist) and runs whose
// lengths come from RunLens or are 1.
func Rows(t *rapid.T, root *ref.Node, maxPool, maxRows int, o ValueOpts) RowPlan {
	var p RowPlan
	np := rapid.IntRange(1, maxPool).Draw(t, "npool")
	if rapid.IntRange(0, 19).Draw(t, "emptyfile") == 0 {
		np = 0
	}
	for i := 0; i < np; i++ {
		oo := o
		switch rapid.IntRange(0, 3).Draw(t, "nullmode") {
		case 0:
			oo.NullProb = 0
		case 1:
			oo.NullProb = 100
		default:
			oo.NullProb = 30
		}
		row := ref.V{}
		left := 1
		oo.longLeft = &left
		for c := range root.Children {
			row.F = append(row.F, Value(t, &root.Children[c], oo))
		}
		p.Pool = append(p.Pool, row)
	}
	if np == 0 {
		return p
	}
	total := 0
	nruns := rapid.IntRange(1, 12).Draw(t, "nruns")
	for i := 0; i < nruns && total < maxRows; i++ {
		idx := rapid.IntRange(0, np-1).Draw(t, "ri")
		n := 1
		if rapid.IntRange(0, 1).Draw(t, "long") == 0 {
			n = RunLens[rapid.IntRange(0, len(RunLens)-1).Draw(t, "rl")]
		}
		if total+n > maxRows {
			n = maxRows - total
		}
		if n <= 0 {
			break
		}
		p.Runs = append(p.Runs, [2]int{idx, n})
		total += n
	}
	return p
}

// RowsAtLeast is Rows with extra runs appended until the plan has at least
// min rows (used by checks that need several pages).
func RowsAtLeast(t *rapid.T, root *ref.Node, maxPool, min, maxRows int, o ValueOpts) RowPlan {
	p := Rows(t, root, maxPool, maxRows, o)
	if len(p.Pool) == 0 {
		return p
	}
	for p.NumRows() < min {
		idx := rapid.IntRange(0, len(p.Pool)-1).Draw(t, "xi")
		n := RunLens[rapid.IntRange(3, len(RunLens)-1).Draw(t, "xl")]
		p.Runs = append(p.Runs, [2]int{idx, n})
	}
	return p
}

// ExpandWith materialises the rows; when the plan is marked Uniq every row is
// made distinct by folding its index into the leaf values (many distinct
// values per column: dictionary growth and fallback, bloom filter load, ...).
func (p RowPlan) ExpandWith(root *ref.Node) []ref.V {
	rows := p.Expand()
	if !p.Uniq {
		return rows
	}
	for i := range rows {
		row := ref.V{F: make([]ref.V, len(rows[i].F))}
		for c := range root.Children {
			if c < len(rows[i].F) {
				row.F[c] = uniqNode(&root.Children[c], rows[i].F[c], i)
			}
		}
		rows[i] = row
	}
	return rows
}

func uniqNode(n *ref.Node, v ref.V, i int) ref.V {
	if v.Null {
		return v
	}
	if n.Rep == "rep" {
		out := ref.V{L: make([]ref.V, len(v.L))}
		for k := range v.L {
			out.L[k] = uniqContent(n, v.L[k], i*4099+k)
		}
		return out
	}
	return uniqContent(n, v, i)
}

func uniqContent(n *ref.Node, v ref.V, i int) ref.V {
	switch n.Kind {
	case "leaf":
		return uniqLeaf(ref.ParseLeaf(n.Leaf), v, i)
	case "group":
		out := ref.V{F: make([]ref.V, len(v.F))}
		for k := range v.F {
			if k < len(n.Children) {
				out.F[k] = uniqNode(&n.Children[k], v.F[k], i)
			}
		}
		return out
	case "list":
		out := ref.V{L: make([]ref.V, len(v.L))}
		for k := range v.L {
			out.L[k] = uniqNode(&n.Children[0], v.L[k], i*4099+k)
		}
		return out
	case "map":
		out := ref.V{L: make([]ref.V, len(v.L))}
		for k := range v.L {
			e := v.L[k]
			if len(e.F) == 2 {
				out.L[k] = ref.V{F: []ref.V{uniqNode(&n.Children[0], e.F[0], i), uniqNode(&n.Children[1], e.F[1], i)}}
			} else {
				out.L[k] = e
			}
		}
		return out
	}
	return v
}

func uniqLeaf(l ref.Leaf, v ref.V, i int) ref.V {
	id := l.ID
	switch {
	case l.Phys == ref.Int32 && (id == "int32" || id == "uint32" || id == "date"):
		return ref.V{I: int64(int32(v.I + int64(i)))}
	case l.Phys == ref.Int64 && (id == "int64" || id == "uint64" || len(id) > 2 && id[:2] == "ts"):
		return ref.V{I: v.I + int64(i)}
	case l.Phys == ref.Float:
		f := math.Float32frombits(uint32(v.I))
		if f == f && !math.IsInf(float64(f), 0) && f > -1e6 && f < 1e6 {
			return ref.V{I: int64(int32(math.Float32bits(f + float32(i))))}
		}
	case l.Phys == ref.Double:
		f := math.Float64frombits(uint64(v.I))
		if f == f && !math.IsInf(f, 0) && f > -1e12 && f < 1e12 {
			return ref.V{I: int64(math.Float64bits(f + float64(i)))}
		}
	case l.Phys == ref.ByteArr && l.Order == ref.OrderBytes:
		return ref.V{B: append(append([]byte{}, v.B...), []byte(fmt.Sprintf("#%d", i))...)}
	case (l.Phys == ref.FLBA && l.Order == ref.OrderBytes && l.Len >= 2) || l.Phys == ref.Int96:
		b := append([]byte{}, v.B...)
		if len(b) >= 2 {
			b[len(b)-1] ^= byte(i)
			b[len(b)-2] ^= byte(i >> 8)
		}
		return ref.V{B: b}
	}
	return v
}

// LeadEmpty rewrites the rows so that every variable-length byte array leaf is
// the empty string in the first k rows and non-empty afterwards (a stretch of
// pages holding only empty values followed by pages without any: chunk-level
// aggregation across pages starts from an empty, non-nil bound).
func LeadEmpty(root *ref.Node, rows []ref.V, k int) {
	for i := range rows {
		rows[i] = CloneV(rows[i]) // rows expanded from one pool entry share their slices
		for c := range root.Children {
			if c < len(rows[i].F) {
				leadNode(&root.Children[c], &rows[i].F[c], i < k)
			}
		}
	}
}

func leadNode(n *ref.Node, v *ref.V, empty bool) {
	if v.Null {
		return
	}
	if n.Rep == "rep" {
		for i := range v.L {
			leadContent(n, &v.L[i], empty)
		}
		return
	}
	leadContent(n, v, empty)
}

func leadContent(n *ref.Node, v *ref.V, empty bool) {
	switch n.Kind {
	case "leaf":
		l := ref.ParseLeaf(n.Leaf)
		if !l.IsBytes() || l.Phys == ref.FLBA || l.Phys == ref.Int96 {
			return
		}
		if empty {
			v.B = []byte{}
		} else if len(v.B) == 0 {
			v.B = []byte("a")
		}
	case "group":
		for i := range n.Children {
			if i < len(v.F) {
				leadNode(&n.Children[i], &v.F[i], empty)
			}
		}
	case "list":
		for i := range v.L {
			leadNode(&n.Children[0], &v.L[i], empty)
		}
	case "map":
		for i := range v.L {
			// keys stay as generated (distinct keys per map)
			if len(v.L[i].F) > 1 {
				leadNode(&n.Children[1], &v.L[i].F[1], empty)
			}
		}
	}
}

// Carry rewrites every variable-length byte array leaf (map keys excepted) as a
// function of the row index so that the column is ascending (descending when
// desc) and alternates between short keys K(c) and long values K(c)+0xFF…+tail
// that sort just below K(c+1): the upper bound obtained by truncating such a
// long value to a size limit inside the 0xFF run and incrementing it carries
// into the key and overshoots the short key that follows.
func Carry(root *ref.Node, rows []ref.V, klen, ff, period int, desc bool) {
	n := len(rows)
	vals := make([][]byte, n)
	c, tail := 0, 0
	for k := 0; k < n; k++ {
		// a new short key about once per period, at irregular distances
		h := uint32(k+1) * 2654435761
		h ^= h >> 15
		short := k == 0 || int(h%uint32(period)) == 0
		if short {
			c, tail = c+1, 0
		} else {
			tail++
		}
		b := make([]byte, klen, klen+ff+2)
		for j, x := klen-1, c; j >= 0; j-- {
			b[j] = byte(x)
			x >>= 8
		}
		if !short {
			for j := 0; j < ff; j++ {
				b = append(b, 0xFF)
			}
			b = append(b, byte(tail>>8), byte(tail))
		}
		vals[k] = b
	}
	for i := range rows {
		k := i
		if desc {
			k = n - 1 - i
		}
		rows[i] = CloneV(rows[i]) // rows expanded from one pool entry share their slices
		for ci := range root.Children {
			if ci < len(rows[i].F) {
				carryNode(&root.Children[ci], &rows[i].F[ci], vals[k])
			}
		}
	}
}

func carryNode(n *ref.Node, v *ref.V, b []byte) {
	if v.Null {
		return
	}
	if n.Rep == "rep" {
		for i := range v.L {
			carryContent(n, &v.L[i], b)
		}
		return
	}
	carryContent(n, v, b)
}

func carryContent(n *ref.Node, v *ref.V, b []byte) {
	switch n.Kind {
	case "leaf":
		l := ref.ParseLeaf(n.Leaf)
		if !l.IsBytes() || l.Phys == ref.FLBA || l.Phys == ref.Int96 || l.Order != ref.OrderBytes {
			return
		}
		v.B = append([]byte(nil), b...)
	case "group":
		for i := range n.Children {
			if i < len(v.F) {
				carryNode(&n.Children[i], &v.F[i], b)
			}
		}
	case "list":
		for i := range v.L {
			carryNode(&n.Children[0], &v.L[i], b)
		}
	case "map":
		for i := range v.L {
			if len(v.L[i].F) > 1 {
				carryNode(&n.Children[1], &v.L[i].F[1], b)
			}
		}
	}
}

// CloneV returns a deep copy of a value tree.
func CloneV(v ref.V) ref.V {
	out := v
	if v.B != nil {
		out.B = append([]byte{}, v.B...)
	}
	if v.L != nil {
		out.L = make([]ref.V, len(v.L))
		for i := range v.L {
			out.L[i] = CloneV(v.L[i])
		}
	}
	if v.F != nil {
		out.F = make([]ref.V, len(v.F))
		for i := range v.F {
			out.F[i] = CloneV(v.F[i])
		}
	}
	return out
}

// Mono rewrites the full-range numeric leaves (int32, uint32, int64, uint64,
// float, double) as a function of the row index: an arithmetic progression
// that wraps around in the width of the type, started at 0 (mode 0), at the
// smallest signed value (mode 1) or just below a boundary (mode 2), rotated by
// rot rows. Depending on the start the sequence is monotone in the signed order
// and not in the unsigned one, or the reverse, so an order claimed with the
// comparator of the wrong signedness is false.
func Mono(root *ref.Node, rows []ref.V, mode, fine, rot int, desc bool) {
	n := len(rows)
	if n == 0 {
		return
	}
	for i := range rows {
		k := (i + rot) % n
		if desc {
			k = n - 1 - k
		}
		rows[i] = CloneV(rows[i])
		for ci := range root.Children {
			if ci < len(rows[i].F) {
				monoNode(&root.Children[ci], &rows[i].F[ci], k, n, mode, fine)
			}
		}
	}
}

func monoValue(l ref.Leaf, k, n, mode, fine int) (int64, bool) {
	switch l.ID {
	case "int32", "uint32":
		step := uint32(1<<32/uint64(n+1)) + 1
		if fine > 0 {
			step = uint32(fine)
		}
		start := []uint32{0, 1 << 31, 1<<31 - uint32(n/2)*step}[mode%3]
		return int64(int32(start + uint32(k)*step)), true
	case "int64", "uint64":
		step := uint64(1<<63/uint64(n+1))*2 + 1
		if fine > 0 {
			step = uint64(fine)
		}
		start := []uint64{0, 1 << 63, 1<<63 - uint64(n/2)*step}[mode%3]
		return int64(start + uint64(k)*step), true
	case "float":
		// ascending floats from negative to positive: their bit patterns are not monotone as integers
		f := float32(k-[]int{0, n / 2, n}[mode%3]) * 1.5
		if fine == 0 {
			f *= 1e30
		}
		return int64(int32(math.Float32bits(f))), true
	case "double":
		f := float64(k-[]int{0, n / 2, n}[mode%3]) * 1.5
		if fine == 0 {
			f *= 1e300
		}
		return int64(math.Float64bits(f)), true
	}
	return 0, false
}

func monoNode(nd *ref.Node, v *ref.V, k, n, mode, fine int) {
	if v.Null {
		return
	}
	if nd.Rep == "rep" {
		for i := range v.L {
			monoContent(nd, &v.L[i], k, n, mode, fine)
		}
		return
	}
	monoContent(nd, v, k, n, mode, fine)
}

func monoContent(nd *ref.Node, v *ref.V, k, n, mode, fine int) {
	switch nd.Kind {
	case "leaf":
		if x, ok := monoValue(ref.ParseLeaf(nd.Leaf), k, n, mode, fine); ok {
			v.I = x
		}
	case "group":
		for i := range nd.Children {
			if i < len(v.F) {
				monoNode(&nd.Children[i], &v.F[i], k, n, mode, fine)
			}
		}
	case "list":
		for i := range v.L {
			monoNode(&nd.Children[0], &v.L[i], k, n, mode, fine)
		}
	case "map":
		for i := range v.L {
			if len(v.L[i].F) > 1 {
				monoNode(&nd.Children[1], &v.L[i].F[1], k, n, mode, fine)
			}
		}
	}
}
