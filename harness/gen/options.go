package gen

import (
	"pgregory.net/rapid"

	"verifharness/ref"
)

// BloomCol requests a split-block bloom filter on a leaf column.
type BloomCol struct {
	Col  int `json:"col"`
	Bits int `json:"bits"`
}

// WriterOpts is the serialisable description of a writer configuration.
// Zero values mean "library default".
type WriterOpts struct {
	PageVersion     int               `json:"pv,omitempty"`       // 1 | 2
	PageBuf         int               `json:"pagebuf,omitempty"`  // PageBufferSize
	MaxRows         int64             `json:"maxrows,omitempty"`  // MaxRowsPerRowGroup
	WriteBuf        int               `json:"writebuf,omitempty"` // -1 → WriteBufferSize(0); >0 → that size
	Codec           string            `json:"codec,omitempty"`
	DictMax         int64             `json:"dictmax,omitempty"`
	DefaultEnc      map[string]string `json:"defenc,omitempty"`    // physical type name → encoding name
	PageStats       int               `json:"pagestats,omitempty"` // 1 on, 2 off
	DeprecatedStats bool              `json:"depstats,omitempty"`
	SkipBounds      []int             `json:"skipbounds,omitempty"`
	SkipStats       []int             `json:"skipstats,omitempty"`
	IndexLimit      int               `json:"ixlimit,omitempty"`
	Bloom           []BloomCol        `json:"bloom,omitempty"`
	BloomCodec      string            `json:"bloomcodec,omitempty"`
	DeferBloom      bool              `json:"deferbloom,omitempty"`
	KV              [][2]string       `json:"kv,omitempty"`
	Pool            string            `json:"pool,omitempty"` // "" | "chunk" | "file"
}

// PhysNames maps physical type numbers to the names used in DefaultEnc.
var PhysNames = []string{"BOOLEAN", "INT32", "INT64", "INT96", "FLOAT", "DOUBLE", "BYTE_ARRAY", "FIXED_LEN_BYTE_ARRAY"}

// OptsBias selects which parts of the option space a check wants.
type OptsBias struct {
	SmallPages bool // strongly prefer tiny page buffers
	NoBloom    bool
	NoDict     bool
	Codecs     []string
	EncFor     func(phys int) []string
}

func pickInt(t *rapid.T, xs []int, label string) int {
	return xs[rapid.IntRange(0, len(xs)-1).Draw(t, label)]
}

// WriterOptions draws a writer configuration valid for the given columns.
func WriterOptions(t *rapid.T, cols []ref.Column, b OptsBias) WriterOpts {
	var o WriterOpts
	o.PageVersion = pickInt(t, []int{0, 1, 2, 1, 2}, "pv")
	if b.SmallPages {
		o.PageBuf = pickInt(t, []int{32, 48, 64, 100, 128, 256, 512, 4096}, "pagebuf")
	} else {
		o.PageBuf = pickInt(t, []int{0, 0, 32, 64, 128, 256, 512, 4096}, "pagebuf")
	}
	o.MaxRows = int64(pickInt(t, []int{0, 0, 0, 1, 2, 3, 7, 64, 65, 100}, "maxrows"))
	o.WriteBuf = pickInt(t, []int{0, 0, -1, 64, 1000}, "writebuf")
	codecs := b.Codecs
	if codecs == nil {
		codecs = []string{"", "", "none", "snappy", "gzip", "zstd", "brotli", "lz4"}
	}
	o.Codec = codecs[rapid.IntRange(0, len(codecs)-1).Draw(t, "codec")]
	if !b.NoDict {
		o.DictMax = int64(pickInt(t, []int{0, 0, 0, 1, 16, 64, 1024}, "dictmax"))
	}
	if b.EncFor != nil && rapid.IntRange(0, 1).Draw(t, "hasdefenc") == 0 {
		seen := map[int]bool{}
		for _, c := range cols {
			if seen[c.Leaf.Phys] {
				continue
			}
			seen[c.Leaf.Phys] = true
			if rapid.IntRange(0, 1).Draw(t, "defenc?") == 0 {
				encs := b.EncFor(c.Leaf.Phys)
				e := encs[rapid.IntRange(0, len(encs)-1).Draw(t, "defenc")]
				if b.NoDict && e == "dict" {
					e = ""
				}
				if e != "" {
					if o.DefaultEnc == nil {
						o.DefaultEnc = map[string]string{}
					}
					o.DefaultEnc[PhysNames[c.Leaf.Phys]] = e
				}
			}
		}
	}
	o.PageStats = pickInt(t, []int{0, 0, 1, 2}, "pagestats")
	o.DeprecatedStats = rapid.IntRange(0, 4).Draw(t, "depstats") == 0
	for i := range cols {
		switch rapid.IntRange(0, 11).Draw(t, "skip") {
		case 0:
			o.SkipBounds = append(o.SkipBounds, i)
		case 1:
			o.SkipStats = append(o.SkipStats, i)
		}
	}
	o.IndexLimit = pickInt(t, []int{0, 0, 1, 2, 16, 64, 1 << 20}, "ixlimit")
	if !b.NoBloom {
		for i := range cols {
			if rapid.IntRange(0, 4).Draw(t, "bloom?") == 0 {
				o.Bloom = append(o.Bloom, BloomCol{Col: i, Bits: pickInt(t, []int{1, 10, 32}, "bits")})
			}
		}
		if len(o.Bloom) > 0 {
			if rapid.IntRange(0, 2).Draw(t, "bloomgz") == 0 {
				o.BloomCodec = "gzip"
			}
			o.DeferBloom = rapid.IntRange(0, 2).Draw(t, "defer") == 0
		}
	}
	nkv := pickInt(t, []int{0, 0, 1, 2}, "nkv")
	for i := 0; i < nkv; i++ {
		o.KV = append(o.KV, [2]string{"k" + string(rune('0'+i)), rapid.StringMatching("[a-z]{0,6}").Draw(t, "kv")})
	}
	o.Pool = []string{"", "", "", "chunk", "file"}[rapid.IntRange(0, 4).Draw(t, "pool")]
	return o
}

// Op is one step of a write history.
type Op struct {
	Kind string `json:"k"`           // "w" write N rows | "f" flush
	N    int    `json:"n,omitempty"` // rows for "w"
}

// WriteOps splits total rows into write batches interleaved with flushes.
func WriteOps(t *rapid.T, total int) []Op {
	var ops []Op
	left := total
	for left > 0 {
		var n int
		switch rapid.IntRange(0, 4).Draw(t, "bk") {
		case 0:
			n = left
		case 1:
			n = 1
		case 2:
			n = pickInt(t, []int{2, 3, 63, 64, 65, 100, 128}, "bn")
		default:
			n = rapid.IntRange(1, left).Draw(t, "bn")
		}
		if n > left {
			n = left
		}
		ops = append(ops, Op{Kind: "w", N: n})
		left -= n
		if rapid.IntRange(0, 5).Draw(t, "flush") == 0 {
			ops = append(ops, Op{Kind: "f"})
		}
	}
	if total == 0 && rapid.Bool().Draw(t, "flush0") {
		ops = append(ops, Op{Kind: "f"})
	}
	return ops
}
