// Package gen holds the rapid generators shared by the property checks.
// Every random choice goes through rapid so cases shrink and replay.
package gen

import (
	"math"
	"math/big"
	"strconv"
	"strings"

	"pgregory.net/rapid"

	"verifharness/ref"
)

// Style biases leaf value generation.
type Style int

const (
	Mixed    Style = iota // boundaries + small domain + random
	SmallDom              // few distinct values (dictionary hits, duplicates)
	Wide                  // mostly random / boundaries
)

// BiasedInt draws an int64 in [lo,hi] with boundary bias.
func BiasedInt(t *rapid.T, lo, hi int64, st Style, label string) int64 {
	k := rapid.IntRange(0, 9).Draw(t, label+"k")
	if st == SmallDom {
		if k < 8 {
			k = 0
		}
	}
	switch {
	case k <= 2: // small domain near zero (clamped into range)
		v := int64(rapid.IntRange(-3, 8).Draw(t, label))
		if v < lo {
			v = lo
		}
		if v > hi {
			v = hi
		}
		return v
	case k <= 5: // boundaries
		c := []int64{lo, hi, lo + 1, hi - 1, 0, -1, 1, lo / 2, hi / 2}
		v := c[rapid.IntRange(0, len(c)-1).Draw(t, label+"b")]
		if v < lo || v > hi {
			return lo
		}
		return v
	default:
		return rapid.Int64Range(lo, hi).Draw(t, label)
	}
}

var float32Specials = []uint32{
	0, 0x80000000, 0x7f800000, 0xff800000, // ±0 ±Inf
	0x7fc00000, 0xffc00000, 0x7f800001, 0x7fffffff, 0xffc12345, // NaNs
	1, 0x80000001, 0x007fffff, // subnormals
	0x00800000, 0x7f7fffff, 0xff7fffff, // min normal, ±max
	0x3f800000, 0xbf800000, 0x40000000, 0x40400000, // ±1, 2, 3
}

var float64Specials = []uint64{
	0, 0x8000000000000000, 0x7ff0000000000000, 0xfff0000000000000,
	0x7ff8000000000000, 0xfff8000000000000, 0x7ff0000000000001, 0x7fffffffffffffff, 0xfff8000000012345,
	1, 0x8000000000000001, 0x000fffffffffffff,
	0x0010000000000000, 0x7fefffffffffffff, 0xffefffffffffffff,
	0x3ff0000000000000, 0xbff0000000000000, 0x4000000000000000, 0x4008000000000000,
}

// Opts restricts leaf values.
type Opts struct {
	NoNaN     bool // keep NaN out (sort keys)
	NoNegZero bool
	MaxBytes  int // cap byte-array lengths (0 = default 40; thorough callers raise it)
}

// LeafV draws one non-null value of the leaf type.
func LeafV(t *rapid.T, l ref.Leaf, st Style, o Opts, label string) ref.V {
	switch l.Phys {
	case ref.Boolean:
		return ref.V{I: int64(rapid.IntRange(0, 1).Draw(t, label))}
	case ref.Int32:
		return ref.V{I: int32Like(t, l, st, label)}
	case ref.Int64:
		return ref.V{I: int64Like(t, l, st, label)}
	case ref.Float:
		for {
			var b uint32
			k := rapid.IntRange(0, 9).Draw(t, label+"k")
			switch {
			case st == SmallDom && k < 8, k <= 2:
				b = math.Float32bits(float32(rapid.IntRange(-3, 8).Draw(t, label)) / 2)
			case k <= 5:
				b = float32Specials[rapid.IntRange(0, len(float32Specials)-1).Draw(t, label+"s")]
			default:
				b = rapid.Uint32().Draw(t, label)
			}
			f := math.Float32frombits(b)
			if o.NoNaN && f != f {
				b = 0x3f800000
			}
			if o.NoNegZero && b == 0x80000000 {
				b = 0
			}
			return ref.V{I: int64(int32(b))}
		}
	case ref.Double:
		var b uint64
		k := rapid.IntRange(0, 9).Draw(t, label+"k")
		switch {
		case st == SmallDom && k < 8, k <= 2:
			b = math.Float64bits(float64(rapid.IntRange(-3, 8).Draw(t, label)) / 2)
		case k <= 5:
			b = float64Specials[rapid.IntRange(0, len(float64Specials)-1).Draw(t, label+"s")]
		default:
			b = rapid.Uint64().Draw(t, label)
		}
		f := math.Float64frombits(b)
		if o.NoNaN && f != f {
			b = 0x3ff0000000000000
		}
		if o.NoNegZero && b == 0x8000000000000000 {
			b = 0
		}
		return ref.V{I: int64(b)}
	case ref.Int96:
		return ref.V{B: fixedBytes(t, 12, st, label)}
	case ref.FLBA:
		if l.Order == ref.OrderDecBytes {
			return ref.V{B: decimalBytes(t, l, st, label)}
		}
		return ref.V{B: fixedBytes(t, l.Len, st, label)}
	case ref.ByteArr:
		if l.Order == ref.OrderDecBytes {
			return ref.V{B: decimalBytes(t, l, st, label)}
		}
		return ref.V{B: varBytes(t, st, o, label)}
	}
	panic("gen: bad leaf")
}

func pow10(p int) int64 {
	v := int64(1)
	for i := 0; i < p; i++ {
		v *= 10
	}
	return v
}

func leafParts(l ref.Leaf) []string { return strings.Split(l.ID, ":") }

func int32Like(t *rapid.T, l ref.Leaf, st Style, label string) int64 {
	p := leafParts(l)
	switch p[0] {
	case "dec32":
		prec, _ := strconv.Atoi(p[1])
		m := pow10(prec) - 1
		return BiasedInt(t, -m, m, st, label)
	case "time":
		return BiasedInt(t, 0, 86400000-1, st, label)
	}
	if l.Unsigned {
		hi := int64(1)<<uint(l.Bits) - 1
		u := BiasedInt(t, 0, hi, st, label)
		return int64(int32(uint32(u)))
	}
	bits := l.Bits
	if bits == 0 {
		bits = 32
	}
	lo := -(int64(1) << uint(bits-1))
	hi := int64(1)<<uint(bits-1) - 1
	return BiasedInt(t, lo, hi, st, label)
}

func int64Like(t *rapid.T, l ref.Leaf, st Style, label string) int64 {
	p := leafParts(l)
	switch p[0] {
	case "dec64":
		prec, _ := strconv.Atoi(p[1])
		m := pow10(prec) - 1
		return BiasedInt(t, -m, m, st, label)
	case "time":
		switch p[1] {
		case "us":
			return BiasedInt(t, 0, 86400000000-1, st, label)
		default:
			return BiasedInt(t, 0, 86400000000000-1, st, label)
		}
	}
	if l.Unsigned {
		k := rapid.IntRange(0, 3).Draw(t, label+"u")
		if k == 0 && st != SmallDom {
			// upper half of the unsigned range
			return int64(rapid.Uint64Range(1<<63, math.MaxUint64).Draw(t, label))
		}
		return BiasedInt(t, 0, math.MaxInt64, st, label)
	}
	return BiasedInt(t, math.MinInt64, math.MaxInt64, st, label)
}

func fixedBytes(t *rapid.T, n int, st Style, label string) []byte {
	b := make([]byte, n)
	k := rapid.IntRange(0, 11).Draw(t, label+"k")
	switch {
	case k >= 10:
		// shared zero prefix, one byte at any position on either side of the sign bit, zero tail:
		// values that differ first in the middle of a machine word
		if n > 0 {
			b[rapid.IntRange(0, n-1).Draw(t, label+"p")] = []byte{0x00, 0x01, 0x7f, 0x80, 0xff}[rapid.IntRange(0, 4).Draw(t, label)]
		}
	case st == SmallDom && k < 8, k <= 2:
		// small domain: only the last byte varies
		if n > 0 {
			b[n-1] = byte(rapid.IntRange(0, 5).Draw(t, label))
		}
	case k == 3:
		for i := range b {
			b[i] = 0xFF
		}
	case k == 4:
		// shared 0xFF prefix then a small tail
		for i := range b {
			b[i] = 0xFF
		}
		if n > 0 {
			b[n-1] = byte(rapid.IntRange(0, 255).Draw(t, label))
		}
	case k == 5:
		// zero, or high bit set
		if n > 0 && rapid.Bool().Draw(t, label+"h") {
			b[0] = 0x80
		}
	default:
		for i := range b {
			b[i] = rapid.Byte().Draw(t, label)
		}
	}
	return b
}

var byteLens = []int{0, 1, 2, 3, 7, 8, 9, 15, 16, 17, 31, 32, 33, 63, 64, 65}

func varBytes(t *rapid.T, st Style, o Opts, label string) []byte {
	maxLen := o.MaxBytes
	if maxLen == 0 {
		maxLen = 40
	}
	k := rapid.IntRange(0, 11).Draw(t, label+"k")
	if st == SmallDom && k < 10 {
		k = 0
	}
	switch {
	case k <= 2: // small domain of short strings
		return []byte([]string{"", "a", "b", "ab", "abc", "b\x00", "\xff", "aa"}[rapid.IntRange(0, 7).Draw(t, label)])
	case k <= 4: // boundary lengths, random content
		n := byteLens[rapid.IntRange(0, len(byteLens)-1).Draw(t, label+"n")]
		if n > maxLen {
			n = maxLen
		}
		b := make([]byte, n)
		for i := range b {
			b[i] = rapid.Byte().Draw(t, label)
		}
		return b
	case k <= 6: // long 0xFF prefix with optional tail
		n := rapid.IntRange(1, maxLen).Draw(t, label+"n")
		b := make([]byte, n)
		for i := range b {
			b[i] = 0xFF
		}
		if rapid.Bool().Draw(t, label+"t") {
			b[n-1] = rapid.Byte().Draw(t, label)
		}
		return b
	case k <= 8: // shared prefix + short suffix
		pre := []string{"prefix/common/", "aaaaaaaaaaaaaaaaaaaa", "\x00\x00\x00\x00"}[rapid.IntRange(0, 2).Draw(t, label+"p")]
		suf := rapid.SliceOfN(rapid.Byte(), 0, 4).Draw(t, label)
		b := append([]byte(pre), suf...)
		if len(b) > maxLen {
			b = b[:maxLen]
		}
		return b
	default:
		n := rapid.IntRange(0, maxLen).Draw(t, label+"n")
		b := make([]byte, n)
		for i := range b {
			b[i] = rapid.Byte().Draw(t, label)
		}
		return b
	}
}

// decimalBytes draws a big-endian two's-complement integer with |v| < 10^p.
// FLBA: exactly l.Len bytes. BYTE_ARRAY: minimal-or-padded length 1..16.
func decimalBytes(t *rapid.T, l ref.Leaf, st Style, label string) []byte {
	p := leafParts(l)
	var n, prec int
	if l.Phys == ref.FLBA {
		n, _ = strconv.Atoi(p[1])
		prec, _ = strconv.Atoi(p[2])
	} else {
		prec, _ = strconv.Atoi(p[1])
		n = rapid.IntRange(1, 16).Draw(t, label+"len")
	}
	// magnitude bound: min(10^prec - 1, 2^(8n-1) - 1)
	lim := new(big.Int).Exp(big.NewInt(10), big.NewInt(int64(prec)), nil)
	lim.Sub(lim, big.NewInt(1))
	cap := new(big.Int).Lsh(big.NewInt(1), uint(8*n-1))
	cap.Sub(cap, big.NewInt(1))
	if lim.Cmp(cap) > 0 {
		lim = cap
	}
	var mag *big.Int
	k := rapid.IntRange(0, 9).Draw(t, label+"k")
	switch {
	case st == SmallDom && k < 8, k <= 3:
		mag = big.NewInt(int64(rapid.IntRange(0, 6).Draw(t, label)))
	case k <= 5:
		mag = new(big.Int).Set(lim)
		if rapid.Bool().Draw(t, label+"m1") {
			mag.Sub(mag, big.NewInt(1))
		}
	default:
		raw := rapid.SliceOfN(rapid.Byte(), n, n).Draw(t, label)
		mag = new(big.Int).SetBytes(raw)
		mag.Mod(mag, new(big.Int).Add(lim, big.NewInt(1)))
	}
	if mag.Cmp(lim) > 0 {
		mag.Set(lim)
	}
	if mag.Sign() < 0 {
		mag.SetInt64(0)
	}
	neg := rapid.Bool().Draw(t, label+"neg")
	v := mag
	if neg {
		v = new(big.Int).Neg(mag)
	}
	// two's complement on n bytes
	mod := new(big.Int).Lsh(big.NewInt(1), uint(8*n))
	if v.Sign() < 0 {
		v = new(big.Int).Add(mod, v)
	}
	raw := v.Bytes()
	out := make([]byte, n)
	copy(out[n-len(raw):], raw)
	return out
}

// OrderedLeafIDs lists leaf types with a defined sort order (usable as search
// / sort keys and in bounds checks).
var OrderedLeafIDs = []string{
	"bool", "int32", "int64", "int8", "int16", "uint8", "uint16", "uint32", "uint64",
	"float", "double", "bytes", "string", "flba:1", "flba:3", "flba:4", "flba:8", "flba:16", "flba:20", "flba:40", "uuid",
	"date", "ts:ms", "ts:us", "ts:ns", "time:ms", "time:us", "time:ns",
	"dec32:9:2", "dec32:4:0", "dec64:18:4", "dec64:12:3", "decflba:5:10:3", "decflba:16:38:6", "decflba:2:4:1", "decbytes:20:5",
	"json", "enum", "bson",
}

// AllLeafIDs adds the types without a defined order.
var AllLeafIDs = append(append([]string{}, OrderedLeafIDs...), "int96")

// LeafID draws a leaf type id.
func LeafID(t *rapid.T, ids []string, label string) string {
	return ids[rapid.IntRange(0, len(ids)-1).Draw(t, label)]
}
