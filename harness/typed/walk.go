// Package typed holds the catalogue of Go struct types used for the typed
// (generic) front ends, the derivation of the abstract schema from a Go type
// per the documented struct tags, the reflective filler from value trees to Go
// values and back, and the documented Go-mapping normal form.
package typed

import (
	"encoding/hex"
	"fmt"
	"math"
	"reflect"
	"strconv"
	"strings"
	"time"

	"verifharness/ref"
)

// tagInfo is the parsed `parquet:"name,opt,..."` tag.
type tagInfo struct {
	name string
	opts []string
}

func parseTag(f reflect.StructField, key string) (tagInfo, bool) {
	s, ok := f.Tag.Lookup(key)
	if !ok {
		return tagInfo{name: f.Name}, false
	}
	parts := splitTag(s)
	ti := tagInfo{name: parts[0], opts: parts[1:]}
	if ti.name == "" {
		ti.name = f.Name
	}
	return ti, true
}

// splitTag splits on commas that are not inside parentheses.
func splitTag(s string) []string {
	var out []string
	depth, start := 0, 0
	for i, r := range s {
		switch r {
		case '(':
			depth++
		case ')':
			depth--
		case ',':
			if depth == 0 {
				out = append(out, s[start:i])
				start = i + 1
			}
		}
	}
	return append(out, s[start:])
}

func (t tagInfo) has(opt string) bool {
	for _, o := range t.opts {
		if o == opt {
			return true
		}
	}
	return false
}

func (t tagInfo) arg(prefix string) (string, bool) {
	for _, o := range t.opts {
		if strings.HasPrefix(o, prefix+"(") && strings.HasSuffix(o, ")") {
			return o[len(prefix)+1 : len(o)-1], true
		}
	}
	return "", false
}

var byteSliceType = reflect.TypeOf([]byte(nil))

// NodeOf derives the abstract schema of a Go struct type following the
// documented mapping (struct → group, pointer → optional, slice → repeated or
// LIST, map → MAP, `optional` tag).
func NodeOf(t reflect.Type) ref.Node {
	root := ref.Node{Name: t.Name(), Rep: "req", Kind: "group"}
	root.Children = structFields(t)
	return root
}

// flatFields lists the fields of a struct the way the library maps them:
// exported fields in declaration order, with the fields of anonymous (embedded)
// structs promoted in place.
func flatFields(t reflect.Type) []reflect.StructField {
	var out []reflect.StructField
	var walk func(t reflect.Type, index []int)
	walk = func(t reflect.Type, index []int) {
		for i := 0; i < t.NumField(); i++ {
			f := t.Field(i)
			f.Index = append(append([]int(nil), index...), i)
			if f.Anonymous && f.Type.Kind() == reflect.Struct {
				walk(f.Type, f.Index)
				continue
			}
			if !f.IsExported() || f.Tag.Get("parquet") == "-" {
				continue
			}
			out = append(out, f)
		}
	}
	walk(t, nil)
	return out
}

var (
	timeType     = reflect.TypeOf(time.Time{})
	durationType = reflect.TypeOf(time.Duration(0))
)

func structFields(t reflect.Type) []ref.Node {
	var out []ref.Node
	for _, f := range flatFields(t) {
		ti, _ := parseTag(f, "parquet")
		out = append(out, fieldNode(ti, f, f.Type))
	}
	return out
}

func fieldNode(ti tagInfo, f reflect.StructField, t reflect.Type) ref.Node {
	optional := ti.has("optional")
	switch {
	case t.Kind() == reflect.Ptr:
		n := fieldNode(tagInfo{name: ti.name, opts: without(ti.opts, "optional")}, f, t.Elem())
		n.Rep = "opt"
		return n
	case t.Kind() == reflect.Slice && ((t != byteSliceType && t.Elem().Kind() != reflect.Uint8) || ti.has("list")):
		if ti.has("list") {
			n := ref.Node{Name: ti.name, Rep: "req", Kind: "list"}
			if optional {
				n.Rep = "opt"
			}
			eti, _ := parseTag(f, "parquet-element")
			eti.name = "element"
			if _, ok := f.Tag.Lookup("parquet-element"); !ok {
				eti.opts = nil
			}
			if et := t.Elem(); et.Kind() == reflect.Slice && et.Elem().Kind() != reflect.Uint8 && !eti.has("list") {
				eti.opts = append(eti.opts, "list") // slices nested in a LIST are LISTs too
			}
			n.Children = []ref.Node{fieldNode(eti, reflect.StructField{}, t.Elem())}
			return n
		}
		// bare slice: repeated element; "optional" applies to the elements
		n := fieldNode(tagInfo{name: ti.name, opts: without(ti.opts, "optional")}, f, t.Elem())
		n.Rep = "rep"
		return n
	case t.Kind() == reflect.Map:
		n := ref.Node{Name: ti.name, Rep: "req", Kind: "map"}
		if optional {
			n.Rep = "opt"
		}
		kti, _ := parseTag(f, "parquet-key")
		kti.name = "key"
		if _, ok := f.Tag.Lookup("parquet-key"); !ok {
			kti.opts = nil
		}
		vti, _ := parseTag(f, "parquet-value")
		vti.name = "value"
		if _, ok := f.Tag.Lookup("parquet-value"); !ok {
			vti.opts = nil
		}
		n.Children = []ref.Node{fieldNode(kti, reflect.StructField{}, t.Key()), fieldNode(vti, reflect.StructField{}, t.Elem())}
		return n
	case t.Kind() == reflect.Struct && t != timeType:
		n := ref.Node{Name: ti.name, Rep: "req", Kind: "group", Children: structFields(t)}
		if optional {
			n.Rep = "opt"
		}
		return n
	}
	n := ref.Node{Name: ti.name, Rep: "req", Kind: "leaf", Leaf: leafID(ti, t)}
	if optional {
		n.Rep = "opt"
	}
	return n
}

func without(opts []string, x string) []string {
	var out []string
	for _, o := range opts {
		if o != x {
			out = append(out, o)
		}
	}
	return out
}

func leafID(ti tagInfo, t reflect.Type) string {
	if a, ok := ti.arg("decimal"); ok {
		p := strings.Split(a, ":") // scale:precision
		switch t.Kind() {
		case reflect.Int32:
			return "dec32:" + p[1] + ":" + p[0]
		case reflect.Int64:
			return "dec64:" + p[1] + ":" + p[0]
		case reflect.Array:
			return fmt.Sprintf("decflba:%d:%s:%s", t.Len(), p[1], p[0])
		case reflect.Slice:
			// []byte with a decimal tag: FIXED_LEN_BYTE_ARRAY sized by the precision
			prec, _ := strconv.Atoi(p[1])
			size := int(math.Ceil((math.Log10(2) + float64(prec)) / math.Log10(256)))
			return fmt.Sprintf("decflba:%d:%s:%s", size, p[1], p[0])
		}
	}
	if ti.has("date") {
		return "date"
	}
	if a, ok := ti.arg("time"); (ok || ti.has("time")) && (t == durationType || t.Kind() == reflect.Int32 || t.Kind() == reflect.Int64) {
		switch strings.Split(a, ":")[0] {
		case "millisecond":
			return "time:ms"
		case "microsecond":
			return "time:us"
		case "nanosecond":
			return "time:ns"
		}
		if t == durationType {
			return "time:ns" // documented default for time.Duration
		}
		return "time:ms"
	}
	if t == timeType && !ti.has("timestamp") {
		if _, ok := ti.arg("timestamp"); !ok {
			return "ts:ns" // a bare time.Time is TIMESTAMP(NANOS)
		}
	}
	if a, ok := ti.arg("timestamp"); ok || ti.has("timestamp") {
		switch strings.Split(a, ":")[0] {
		case "microsecond":
			return "ts:us"
		case "nanosecond":
			return "ts:ns"
		}
		return "ts:ms"
	}
	if ti.has("uuid") {
		return "uuid"
	}
	if a, ok := ti.arg("int"); ok {
		return "int" + a
	}
	if a, ok := ti.arg("uint"); ok {
		return "uint" + a
	}
	switch t.Kind() {
	case reflect.Bool:
		return "bool"
	case reflect.Int8:
		return "int8"
	case reflect.Int16:
		return "int16"
	case reflect.Int32:
		return "int32"
	case reflect.Int, reflect.Int64:
		return "int64"
	case reflect.Uint8:
		return "uint8"
	case reflect.Uint16:
		return "uint16"
	case reflect.Uint32:
		return "uint32"
	case reflect.Uint, reflect.Uint64, reflect.Uintptr:
		return "uint64"
	case reflect.Float32:
		return "float"
	case reflect.Float64:
		return "double"
	case reflect.String:
		switch {
		case ti.has("enum"):
			return "enum"
		case ti.has("json"):
			return "json"
		case ti.has("bytes"):
			return "bytes"
		}
		return "string"
	case reflect.Slice:
		if ti.has("string") {
			return "string"
		}
		return "bytes"
	case reflect.Array:
		return "flba:" + strconv.Itoa(t.Len())
	}
	panic("typed: unsupported Go type " + t.String())
}

// ---- filling Go values from value trees ------------------------------------------

// Fill sets rv (addressable, of the node's Go type) from the value tree.
func Fill(rv reflect.Value, n *ref.Node, v ref.V) {
	t := rv.Type()
	if t.Kind() == reflect.Ptr {
		if v.Null {
			rv.Set(reflect.Zero(t))
			return
		}
		p := reflect.New(t.Elem())
		inner := *n
		inner.Rep = "req"
		Fill(p.Elem(), &inner, v)
		rv.Set(p)
		return
	}
	if n.Rep == "opt" && v.Null {
		rv.Set(reflect.Zero(t))
		return
	}
	if n.Rep == "rep" {
		if len(v.L) == 0 {
			rv.Set(reflect.Zero(t))
			return
		}
		s := reflect.MakeSlice(t, len(v.L), len(v.L))
		inner := *n
		inner.Rep = "req"
		for i := range v.L {
			Fill(s.Index(i), &inner, v.L[i])
		}
		rv.Set(s)
		return
	}
	switch n.Kind {
	case "leaf":
		fillLeaf(rv, ref.ParseLeaf(n.Leaf), v)
	case "group":
		for fi, f := range flatFields(t) {
			var fv ref.V
			if fi < len(v.F) {
				fv = v.F[fi]
			} else {
				fv = defaultV(&n.Children[fi])
			}
			Fill(rv.FieldByIndex(f.Index), &n.Children[fi], fv)
		}
	case "list":
		// Null (optional list) was handled above; an empty list is a non-nil
		// empty slice so that "empty" and "null" stay distinguishable.
		s := reflect.MakeSlice(t, len(v.L), len(v.L))
		for i := range v.L {
			Fill(s.Index(i), &n.Children[0], v.L[i])
		}
		rv.Set(s)
	case "map":
		m := reflect.MakeMapWithSize(t, len(v.L))
		for _, e := range v.L {
			k := reflect.New(t.Key()).Elem()
			val := reflect.New(t.Elem()).Elem()
			Fill(k, &n.Children[0], e.F[0])
			Fill(val, &n.Children[1], e.F[1])
			m.SetMapIndex(k, val)
		}
		rv.Set(m)
	}
}

func defaultV(n *ref.Node) ref.V {
	if n.Rep == "opt" {
		return ref.V{Null: true}
	}
	return ref.V{}
}

// NilForZeroFixed makes Fill hand a nil slice to []byte fields mapped to a
// FIXED_LEN_BYTE_ARRAY column when the value is all zeros. Only the typed write
// path accepts that (it stores a zero placeholder); the reflection paths reject
// a slice of the wrong length, so checks comparing paths leave this off and
// checks of the typed path alone (C17) switch it on.
var NilForZeroFixed = false

// unitNanos returns the number of nanoseconds per unit of a ts:/time: leaf id.
func unitNanos(id string) int64 {
	switch {
	case strings.HasSuffix(id, ":ms"):
		return 1e6
	case strings.HasSuffix(id, ":us"):
		return 1e3
	}
	return 1
}

// fillTime maps a generated integer onto a time.Time inside the range where
// the documented conversions are defined (UnixNano / Sub do not overflow:
// 1824..2116); dates are midnights UTC.
func fillTime(l ref.Leaf, i int64) time.Time {
	if l.ID == "date" {
		return time.Unix((i%50000)*86400, 0).UTC()
	}
	u := unitNanos(l.ID)
	i %= (1 << 62) / u
	// a fraction finer than the column's unit (instants before 1970 with such a
	// fraction are where truncation and the documented flooring differ)
	frac := int64(0)
	if u > 1 {
		frac = (i*7919 + 13) % u
		if frac < 0 {
			frac = -frac
		}
	}
	return time.Unix(0, i*u+frac).UTC()
}

// timeValue is the documented mapping: days since the epoch for DATE,
// UnixMilli / UnixMicro / UnixNano (which floor) for TIMESTAMP.
func timeValue(l ref.Leaf, t time.Time) int64 {
	if l.ID == "date" {
		return t.Unix() / 86400
	}
	n, u := t.UnixNano(), unitNanos(l.ID)
	q := n / u
	if n%u < 0 {
		q--
	}
	return q
}

func fillLeaf(rv reflect.Value, l ref.Leaf, v ref.V) {
	switch rv.Type() {
	case timeType:
		rv.Set(reflect.ValueOf(fillTime(l, v.I)))
		return
	case durationType:
		if strings.HasPrefix(l.ID, "time:") {
			u := unitNanos(l.ID)
			i := v.I % (86400e9 / u) // time of day
			if i < 0 {
				i = -i
			}
			rv.SetInt(i * u)
			return
		}
	}
	switch rv.Kind() {
	case reflect.Bool:
		rv.SetBool(v.I != 0)
	case reflect.Int8, reflect.Int16, reflect.Int32, reflect.Int64, reflect.Int:
		rv.SetInt(v.I)
	case reflect.Uint8, reflect.Uint16, reflect.Uint32:
		rv.SetUint(uint64(uint32(v.I)))
	case reflect.Uint64, reflect.Uint, reflect.Uintptr:
		rv.SetUint(uint64(v.I))
	case reflect.Float32:
		rv.SetFloat(float64(math.Float32frombits(uint32(v.I))))
		// SetFloat goes through float64: signalling NaN payloads may be quieted;
		// write the exact bits instead.
		*(*uint32)(rv.Addr().UnsafePointer()) = uint32(v.I)
	case reflect.Float64:
		*(*uint64)(rv.Addr().UnsafePointer()) = uint64(v.I)
	case reflect.String:
		if l.ID == "uuid" {
			// a string field mapped to the UUID logical type holds the textual form
			b := make([]byte, 16)
			copy(b, v.B)
			rv.SetString(fmt.Sprintf("%x-%x-%x-%x-%x", b[0:4], b[4:6], b[6:8], b[8:10], b[10:16]))
			return
		}
		rv.SetString(string(v.B))
	case reflect.Slice:
		if l.Phys == ref.FLBA && NilForZeroFixed {
			// a fixed-size column fed from a slice: nil stands for the all-zero value
			zero := true
			for _, x := range v.B {
				zero = zero && x == 0
			}
			if zero {
				rv.Set(reflect.Zero(rv.Type()))
				return
			}
		}
		b := make([]byte, len(v.B))
		copy(b, v.B)
		rv.SetBytes(b)
	case reflect.Array:
		for i := 0; i < rv.Len() && i < len(v.B); i++ {
			rv.Index(i).SetUint(uint64(v.B[i]))
		}
	default:
		panic("typed: cannot fill " + rv.Type().String())
	}
}

// ---- extracting value trees from Go values ------------------------------------------

// Extract is the inverse of Fill; the result is in the documented normal form
// of Norm (a nil slice under an optional list is Null, zero optional
// non-pointer values are Null, ...).
func Extract(rv reflect.Value, n *ref.Node) ref.V { return extract(rv, n, false) }

// ExtractLax is Extract with the Go-level equivalence "nil and empty slices
// and maps are the same" applied: an empty slice or map under an optional node
// is reported as null, like a nil one.
func ExtractLax(rv reflect.Value, n *ref.Node) ref.V { return extract(rv, n, true) }

func extract(rv reflect.Value, n *ref.Node, lax bool) ref.V {
	t := rv.Type()
	if t.Kind() == reflect.Ptr {
		if rv.IsNil() {
			return ref.V{Null: true}
		}
		inner := *n
		inner.Rep = "req"
		return extract(rv.Elem(), &inner, lax)
	}
	if n.Rep == "opt" && rv.IsZero() {
		return ref.V{Null: true}
	}
	if lax && n.Rep == "opt" && (t.Kind() == reflect.Slice || t.Kind() == reflect.Map) && rv.Len() == 0 {
		return ref.V{Null: true}
	}
	if n.Rep == "rep" {
		out := ref.V{}
		inner := *n
		inner.Rep = "req"
		for i := 0; i < rv.Len(); i++ {
			out.L = append(out.L, extract(rv.Index(i), &inner, lax))
		}
		return out
	}
	switch n.Kind {
	case "leaf":
		return extractLeaf(rv, ref.ParseLeaf(n.Leaf))
	case "group":
		out := ref.V{}
		for fi, f := range flatFields(t) {
			out.F = append(out.F, extract(rv.FieldByIndex(f.Index), &n.Children[fi], lax))
		}
		return out
	case "list":
		out := ref.V{}
		for i := 0; i < rv.Len(); i++ {
			out.L = append(out.L, extract(rv.Index(i), &n.Children[0], lax))
		}
		return out
	case "map":
		out := ref.V{}
		it := rv.MapRange()
		for it.Next() {
			out.L = append(out.L, ref.V{F: []ref.V{extract(it.Key(), &n.Children[0], lax), extract(it.Value(), &n.Children[1], lax)}})
		}
		return out
	}
	panic("typed: bad kind")
}

func extractLeaf(rv reflect.Value, l ref.Leaf) ref.V {
	switch rv.Type() {
	case timeType:
		return ref.V{I: timeValue(l, rv.Interface().(time.Time))}
	case durationType:
		if strings.HasPrefix(l.ID, "time:") {
			return ref.V{I: rv.Int() / unitNanos(l.ID)}
		}
	}
	switch rv.Kind() {
	case reflect.Bool:
		if rv.Bool() {
			return ref.V{I: 1}
		}
		return ref.V{}
	case reflect.Int8, reflect.Int16, reflect.Int32, reflect.Int64, reflect.Int:
		return ref.V{I: rv.Int()}
	case reflect.Uint8, reflect.Uint16, reflect.Uint32:
		return ref.V{I: int64(int32(uint32(rv.Uint())))}
	case reflect.Uint64, reflect.Uint, reflect.Uintptr:
		return ref.V{I: int64(rv.Uint())}
	case reflect.Float32:
		if rv.CanAddr() {
			return ref.V{I: int64(int32(*(*uint32)(rv.Addr().UnsafePointer())))}
		}
		return ref.V{I: int64(int32(math.Float32bits(float32(rv.Float()))))}
	case reflect.Float64:
		return ref.V{I: int64(math.Float64bits(rv.Float()))}
	case reflect.String:
		if l.ID == "uuid" {
			b, err := hex.DecodeString(strings.ReplaceAll(rv.String(), "-", ""))
			if err != nil || len(b) != 16 {
				b = make([]byte, 16)
			}
			return ref.V{B: b}
		}
		return ref.V{B: []byte(rv.String())}
	case reflect.Slice:
		if l.Phys == ref.FLBA && rv.Len() == 0 {
			return ref.V{B: make([]byte, l.Len)}
		}
		return ref.V{B: append([]byte{}, rv.Bytes()...)}
	case reflect.Array:
		b := make([]byte, rv.Len())
		for i := range b {
			b[i] = byte(rv.Index(i).Uint())
		}
		return ref.V{B: b}
	}
	panic("typed: cannot extract " + rv.Type().String())
}
