package typed

import (
	"bytes"
	"errors"
	"fmt"
	"io"
	"reflect"
	"sort"
	"time"

	"github.com/parquet-go/parquet-go"

	"verifharness/gen"
	"verifharness/ref"
)

// ---- the catalogue: Go types covering the documented tags ---------------------------

type Inner struct {
	X int32  `parquet:"x,optional"`
	S string `parquet:"s"`
}

type Scalars struct {
	B   bool    `parquet:"b"`
	I8  int8    `parquet:"i8"`
	I16 int16   `parquet:"i16"`
	I32 int32   `parquet:"i32"`
	I64 int64   `parquet:"i64"`
	I   int     `parquet:"i"`
	U8  uint8   `parquet:"u8"`
	U16 uint16  `parquet:"u16"`
	U32 uint32  `parquet:"u32"`
	U64 uint64  `parquet:"u64"`
	F32 float32 `parquet:"f32"`
	F64 float64 `parquet:"f64"`
	S   string  `parquet:"s"`
	By  []byte  `parquet:"by"`
	Fx  [5]byte `parquet:"fx"`
}

type OptScalars struct {
	B   bool     `parquet:"b,optional"`
	I32 int32    `parquet:"i32,optional"`
	I64 int64    `parquet:"i64,optional"`
	U32 uint32   `parquet:"u32,optional"`
	U64 uint64   `parquet:"u64,optional"`
	F32 float32  `parquet:"f32,optional"`
	F64 float64  `parquet:"f64,optional"`
	S   string   `parquet:"s,optional"`
	By  []byte   `parquet:"by,optional"`
	Fx  [3]byte  `parquet:"fx,optional"`
	U   [16]byte `parquet:"u,optional,uuid"`
}

type OptInt32 struct {
	A int32 `parquet:"a,optional"`
}

type OptPair struct {
	A int64  `parquet:"a,optional"`
	B string `parquet:"b,optional,dict"`
}

type Pointers struct {
	B   *bool    `parquet:"b"`
	I32 *int32   `parquet:"i32"`
	I64 *int64   `parquet:"i64"`
	F64 *float64 `parquet:"f64"`
	S   *string  `parquet:"s"`
	G   *Inner   `parquet:"g"`
}

type Encoded struct {
	D32 int32   `parquet:"d32,delta"`
	D64 int64   `parquet:"d64,delta,optional"`
	DS  string  `parquet:"ds,delta"`
	Di  string  `parquet:"di,dict"`
	Sp  float64 `parquet:"sp,split"`
	Sf  float32 `parquet:"sf,split,optional"`
	Z   string  `parquet:"z,zstd"`
	Sn  []byte  `parquet:"sn,snappy,optional"`
	Gz  int64   `parquet:"gz,gzip,dict"`
}

type Logical struct {
	Dt  int32    `parquet:"dt,date"`
	Tms int64    `parquet:"tms,timestamp"`
	Tus int64    `parquet:"tus,timestamp(microsecond),optional"`
	D32 int32    `parquet:"d32,decimal(2:9)"`
	D64 int64    `parquet:"d64,decimal(4:18),optional"`
	U   [16]byte `parquet:"u,uuid"`
	E   string   `parquet:"e,enum"`
	J   string   `parquet:"j,json,optional"`
}

type Lists struct {
	L  []int32   `parquet:"l,list"`
	OL []int64   `parquet:"ol,optional,list"`
	R  []string  `parquet:"r"`
	LS []string  `parquet:"ls,list"`
	LL [][]int32 `parquet:"ll,list"`
	LB [][]byte  `parquet:"lb,list"`
}

type Nested struct {
	ID int64   `parquet:"id"`
	G  Inner   `parquet:"g"`
	PG *Inner  `parquet:"pg"`
	LG []Inner `parquet:"lg,list"`
	RG []Inner `parquet:"rg"`
}

type ListPtr struct {
	LP []*Inner `parquet:"lp,list"`
	LI []*int32 `parquet:"li,list"`
}

type OptGroup struct {
	ID int32 `parquet:"id"`
	OG Inner `parquet:"og,optional"`
}

type Maps struct {
	M  map[string]int32  `parquet:"m"`
	MI map[int64]string  `parquet:"mi,optional"`
	MG map[string]Inner  `parquet:"mg"`
	MP map[string]*int64 `parquet:"mp"`
}

// DictLists: dictionary-encoded list elements of every value class (long
// lists reach the chunked dictionary insert paths).
type DictLists struct {
	U [][16]byte `parquet:"u,list" parquet-element:",uuid,dict"`
	S []string   `parquet:"s,list" parquet-element:",dict"`
	I []int64    `parquet:"i,list" parquet-element:",dict"`
	R []int32    `parquet:"r,dict"`
	F [][7]byte  `parquet:"f,list" parquet-element:",dict"`
	D []float64  `parquet:"d,list" parquet-element:",dict"`
	B []bool     `parquet:"b,list"`
}

// Embedded: anonymous structs two levels deep, the first level not at offset
// zero (promoted fields are addressed by accumulated offsets on the typed path
// and by index paths on the reflection paths).
type EmbInner struct {
	C int32   `parquet:"c"`
	D *string `parquet:"d"`
}

type EmbMiddle struct {
	B int64 `parquet:"b"`
	EmbInner
	F []int32 `parquet:"f,list"`
}

type Embedded struct {
	A int32 `parquet:"a"`
	EmbMiddle
	E float64 `parquet:"e,optional"`
}

// Times: the documented time.Time / time.Duration mappings (specialised write
// paths on both the typed and the reflection side).
type Times struct {
	T   time.Time      `parquet:"t"`
	Tms time.Time      `parquet:"tms,timestamp"`
	Tus time.Time      `parquet:"tus,timestamp(microsecond)"`
	D   time.Time      `parquet:"d,date"`
	OT  time.Time      `parquet:"ot,optional"`
	PT  *time.Time     `parquet:"pt,timestamp(millisecond)"`
	Du  time.Duration  `parquet:"du,time"`
	Dms time.Duration  `parquet:"dms,time(millisecond)"`
	PD  *time.Duration `parquet:"pd,time(microsecond)"`
	LT  []time.Time    `parquet:"lt,list"`
	N   int64          `parquet:"n"`
}

// NestedTimes: time.Time / time.Duration fields (optional and required) inside
// an optional group, a repeated group and a required group.
type TimeInner struct {
	OT time.Time     `parquet:"ot,optional,timestamp(millisecond)"`
	T  time.Time     `parquet:"t,timestamp(microsecond)"`
	OD time.Duration `parquet:"od,optional,time(microsecond)"`
	D  time.Time     `parquet:"d,date"`
}

type NestedTimes struct {
	ID int64       `parquet:"id"`
	P  *TimeInner  `parquet:"p"`
	L  []TimeInner `parquet:"l"`
	G  TimeInner   `parquet:"g"`
}

// TagMix: Go types whose size or form differs from the column they are tagged
// for: a string holding the text of a UUID, 8/16-bit integers in 64-bit columns.
type TagMix struct {
	ID  int64  `parquet:"id"`
	U   string `parquet:"u,uuid"`
	S8  int8   `parquet:"s8,int(64)"`
	U8  uint8  `parquet:"u8,uint(64)"`
	S16 int16  `parquet:"s16,int(64)"`
	U16 uint16 `parquet:"u16,uint(64)"`
	OS8 int8   `parquet:"os8,optional,int(64)"`
	OU  string `parquet:"ou,uuid,optional"`
	N64 int64  `parquet:"n64,int(32)"`
	NI  int    `parquet:"ni,int(32)"`
	NU  uint64 `parquet:"nu,uint(32)"`
}

// ByteList: a slice of bytes that the list tag turns into a LIST of 8-bit
// integers, next to one that stays a byte array.
type ByteList struct {
	ID int64   `parquet:"id"`
	N  []uint8 `parquet:"n,list"`
	B  []byte  `parquet:"b"`
	O  []uint8 `parquet:"o,list,optional"`
}

// BoolMaps: maps whose key kind has no specialised entry reader on the typed
// path (the generic reflect-based scratch buffer: key and value strides differ).
type BoolMaps struct {
	ID int64             `parquet:"id"`
	B  map[bool]int64    `parquet:"b"`
	S  map[bool]string   `parquet:"s"`
	F  map[bool]bool     `parquet:"f"`
	A  map[[4]byte]int32 `parquet:"a"`
}

// PtrTag: a field written through the value-level writer (the text of a UUID)
// below an optional pointer group and inside list elements: when the pointer is
// nil or the list empty the writer is handed an empty array and owes a null.
type TagInner struct {
	A int32  `parquet:"a"`
	U string `parquet:"u,uuid"`
}

type PtrTag struct {
	ID int64      `parquet:"id"`
	G  *TagInner  `parquet:"g"`
	L  []TagInner `parquet:"l"`
}

// OptElems: list elements and map values made optional by their own tags
// (non-pointer element types: a zero element stands for null).
type OptElems struct {
	ID int64            `parquet:"id"`
	L  []int32          `parquet:"l,list" parquet-element:",optional"`
	LS []string         `parquet:"ls,list" parquet-element:",optional"`
	M  map[int32]string `parquet:"m" parquet-value:",optional"`
}

// NestedMaps: maps whose values are maps (the reader rebuilds them through a
// scratch key/value pair reused from one entry to the next).
type NestedMaps struct {
	ID int32                       `parquet:"id"`
	MM map[string]map[string]int32 `parquet:"mm"`
	MO map[int32]map[string]*int64 `parquet:"mo,optional"`
}

// SliceDecimals: []byte fields mapped to FIXED_LEN_BYTE_ARRAY columns by a
// decimal tag (the typed path copies them through a pooled scratch buffer; nil
// slices stand for the zero value).
type SliceDecimals struct {
	N  int32  `parquet:"n"`
	D  []byte `parquet:"d,decimal(2:29)"`
	D2 []byte `parquet:"d2,decimal(0:9)"`
}

type Deep struct {
	A []struct {
		B []struct {
			C []int32 `parquet:"c,list"`
			D *string `parquet:"d"`
		} `parquet:"b,list"`
		E int64 `parquet:"e,optional"`
	} `parquet:"a,list"`
}

// ---- type-erased operations --------------------------------------------------------------

// Entry is a catalogue type with its generic operations bound.
type Entry struct {
	Name   string
	GoType reflect.Type
	Node   ref.Node // abstract schema derived from the Go type
	Schema *parquet.Schema
	HasMap bool

	// New builds a []T from value trees.
	New func(vs []ref.V) any
	// Trees extracts the normal-form value trees of a []T.
	Trees func(rows any) []ref.V
	// LaxTrees is Trees under the Go-level equivalence nil ≡ empty slice/map.
	LaxTrees func(rows any) []ref.V
	// Len / Slice on []T.
	Len   func(rows any) int
	Slice func(rows any, i, j int) any
	// GenericWrite writes through GenericWriter[T].Write following the history.
	GenericWrite func(w io.Writer, rows any, opts []parquet.WriterOption, ops []gen.Op) error
	// AnyWrite writes row by row through Writer.Write(any).
	AnyWrite func(w io.Writer, rows any, opts []parquet.WriterOption) error
	// GenericBuffer writes through GenericBuffer[T].Write in the given batches.
	GenericBuffer func(rows any, batches []int, opts []parquet.RowGroupOption) (parquet.RowGroup, error)
	// AnyBuffer writes row by row through Buffer.Write(any).
	AnyBuffer func(rows any, opts []parquet.RowGroupOption) (parquet.RowGroup, error)
	// RowBuf writes through RowBuffer[T].Write.
	RowBuf func(rows any, batches []int, opts []parquet.RowGroupOption) (parquet.RowGroup, error)
	// Deconstruct shreds through Schema.Deconstruct.
	Deconstruct func(rows any) []parquet.Row
	// Reconstruct rebuilds a T from a row through Schema.Reconstruct and returns its tree.
	Reconstruct func(row parquet.Row) (ref.V, error)
	// SortBuffer writes the rows into a GenericBuffer[T] in batches, sorts it and returns its rows.
	SortBuffer func(rows any, batches []int, sorting []parquet.SortingColumn) ([]parquet.Row, error)
	// OpenBufferReader fills a GenericBuffer[T] / RowBuffer[T] and reads it back through GenericReader[T].
	OpenBufferReader func(kind string, rows any) (*Reader, error)
	// ReadAll reads the file through GenericReader[T].Read with the batch size.
	// (reuse: the same destination slice is passed to every call and the rows are copied out shallowly)
	ReadAll func(data []byte, batch int, reuse bool) (any, error)
	// ReuseWrite writes a prior file on a GenericWriter[T] (closed, abandoned
	// without Close, or failing at sink offset failAt), then Reset(s) it onto a
	// new buffer and writes rows; it returns the second file.
	ReuseWrite func(prior any, priorOps []gen.Op, priorMode string, failAt int, rows any, opts []parquet.WriterOption, ops []gen.Op) ([]byte, error)
	// OpenReader opens an incremental GenericReader[T].
	OpenReader func(data []byte, opts ...parquet.FileOption) (*Reader, error)
	// ReadFunc reads the file through parquet.Read[T].
	ReadFunc func(data []byte) (any, error)
	// ReaderRead reads the file row by row through Reader.Read(&T).
	// (reuse: the same variable is passed to every call)
	ReaderRead func(data []byte, reuse bool) (any, error)
}

// Catalogue lists the registered types by name.
var Catalogue []*Entry

// ByName finds an entry.
func ByName(name string) *Entry {
	for _, e := range Catalogue {
		if e.Name == name {
			return e
		}
	}
	return nil
}

func hasMap(n *ref.Node) bool {
	if n.Kind == "map" {
		return true
	}
	for i := range n.Children {
		if hasMap(&n.Children[i]) {
			return true
		}
	}
	return false
}

func register[T any](name string) {
	var zero T
	t := reflect.TypeOf(zero)
	node := NodeOf(t)
	node.Name = name
	e := &Entry{Name: name, GoType: t, Node: node, Schema: parquet.SchemaOf(zero)}
	e.HasMap = hasMap(&e.Node)
	e.New = func(vs []ref.V) any {
		out := make([]T, len(vs))
		for i := range vs {
			Fill(reflect.ValueOf(&out[i]).Elem(), &e.Node, vs[i])
		}
		return out
	}
	e.Trees = func(rows any) []ref.V {
		rs := rows.([]T)
		out := make([]ref.V, len(rs))
		for i := range rs {
			out[i] = Extract(reflect.ValueOf(&rs[i]).Elem(), &e.Node)
		}
		return out
	}
	e.LaxTrees = func(rows any) []ref.V {
		rs := rows.([]T)
		out := make([]ref.V, len(rs))
		for i := range rs {
			out[i] = ExtractLax(reflect.ValueOf(&rs[i]).Elem(), &e.Node)
		}
		return out
	}
	e.Len = func(rows any) int { return len(rows.([]T)) }
	e.Slice = func(rows any, i, j int) any { return rows.([]T)[i:j] }
	e.GenericWrite = func(w io.Writer, rows any, opts []parquet.WriterOption, ops []gen.Op) error {
		rs := rows.([]T)
		gw := parquet.NewGenericWriter[T](w, opts...)
		i := 0
		write := func(n int) error {
			if i+n > len(rs) {
				n = len(rs) - i
			}
			k, err := gw.Write(rs[i : i+n])
			if err != nil {
				return &WriteError{fmt.Errorf("Write(%d rows at %d): %w", n, i, err)}
			}
			if k != n {
				return fmt.Errorf("Write(%d rows at %d) returned %d, nil", n, i, k)
			}
			i += n
			return nil
		}
		for _, op := range ops {
			switch op.Kind {
			case "w":
				if err := write(op.N); err != nil {
					return err
				}
			case "wr": // the same rows, deconstructed, through WriteRows of the same writer
				n := op.N
				if i+n > len(rs) {
					n = len(rs) - i
				}
				prs := make([]parquet.Row, n)
				for k := range prs {
					prs[k] = e.Schema.Deconstruct(nil, &rs[i+k])
				}
				k, err := gw.WriteRows(prs)
				if err != nil {
					return &WriteError{fmt.Errorf("WriteRows(%d rows at %d): %w", n, i, err)}
				}
				if k != n {
					return fmt.Errorf("WriteRows(%d rows at %d) returned %d, nil", n, i, k)
				}
				i += n
			case "f":
				if err := gw.Flush(); err != nil {
					return &WriteError{fmt.Errorf("Flush: %w", err)}
				}
			}
		}
		if i < len(rs) {
			if err := write(len(rs) - i); err != nil {
				return err
			}
		}
		if err := gw.Close(); err != nil {
			return &WriteError{fmt.Errorf("Close: %w", err)}
		}
		return nil
	}
	e.ReuseWrite = func(prior any, priorOps []gen.Op, priorMode string, failAt int, rows any, opts []parquet.WriterOption, ops []gen.Op) ([]byte, error) {
		var first bytes.Buffer
		var sink io.Writer = &first
		if priorMode == "failed" {
			sink = &FailingWriter{W: &first, Limit: failAt}
		}
		gw := parquet.NewGenericWriter[T](sink, opts...)
		drive := func(rs []T, ops []gen.Op, must bool) error {
			i := 0
			for _, op := range ops {
				switch op.Kind {
				case "w":
					n := op.N
					if i+n > len(rs) {
						n = len(rs) - i
					}
					if _, err := gw.Write(rs[i : i+n]); err != nil {
						return err
					}
					i += n
				case "f":
					if err := gw.Flush(); err != nil {
						return err
					}
				}
			}
			if i < len(rs) {
				if _, err := gw.Write(rs[i:]); err != nil {
					return err
				}
			}
			return nil
		}
		perr := drive(prior.([]T), priorOps, false)
		if priorMode != "abandoned" {
			if cerr := gw.Close(); perr == nil {
				perr = cerr
			}
		}
		if perr != nil && priorMode != "failed" {
			return nil, &WriteError{fmt.Errorf("prior file: %w", perr)}
		}
		var second bytes.Buffer
		gw.Reset(&second)
		if err := drive(rows.([]T), ops, true); err != nil {
			return nil, &WriteError{err}
		}
		if err := gw.Close(); err != nil {
			return nil, &WriteError{err}
		}
		return second.Bytes(), nil
	}
	e.AnyWrite = func(w io.Writer, rows any, opts []parquet.WriterOption) error {
		rs := rows.([]T)
		pw := parquet.NewWriter(w, append([]parquet.WriterOption{e.Schema}, opts...)...)
		for i := range rs {
			if err := pw.Write(&rs[i]); err != nil {
				return &WriteError{fmt.Errorf("Write(row %d): %w", i, err)}
			}
		}
		if err := pw.Close(); err != nil {
			return &WriteError{fmt.Errorf("Close: %w", err)}
		}
		return nil
	}
	e.GenericBuffer = func(rows any, batches []int, opts []parquet.RowGroupOption) (parquet.RowGroup, error) {
		rs := rows.([]T)
		b := parquet.NewGenericBuffer[T](opts...)
		i := 0
		for _, n := range append(append([]int{}, batches...), len(rs)) {
			if i+n > len(rs) {
				n = len(rs) - i
			}
			if n <= 0 {
				continue
			}
			k, err := b.Write(rs[i : i+n])
			if err != nil {
				return nil, &WriteError{err}
			}
			if k != n {
				return nil, fmt.Errorf("GenericBuffer.Write(%d) returned %d, nil", n, k)
			}
			i += n
		}
		return b, nil
	}
	e.AnyBuffer = func(rows any, opts []parquet.RowGroupOption) (parquet.RowGroup, error) {
		rs := rows.([]T)
		b := parquet.NewBuffer(append([]parquet.RowGroupOption{e.Schema}, opts...)...)
		for i := range rs {
			if err := b.Write(&rs[i]); err != nil {
				return nil, &WriteError{err}
			}
		}
		return b, nil
	}
	e.RowBuf = func(rows any, batches []int, opts []parquet.RowGroupOption) (parquet.RowGroup, error) {
		rs := rows.([]T)
		b := parquet.NewRowBuffer[T](opts...)
		i := 0
		for _, n := range append(append([]int{}, batches...), len(rs)) {
			if i+n > len(rs) {
				n = len(rs) - i
			}
			if n <= 0 {
				continue
			}
			k, err := b.Write(rs[i : i+n])
			if err != nil {
				return nil, &WriteError{err}
			}
			if k != n {
				return nil, fmt.Errorf("RowBuffer.Write(%d) returned %d, nil", n, k)
			}
			i += n
		}
		return b, nil
	}
	e.Deconstruct = func(rows any) []parquet.Row {
		rs := rows.([]T)
		out := make([]parquet.Row, len(rs))
		for i := range rs {
			out[i] = e.Schema.Deconstruct(nil, &rs[i])
		}
		return out
	}
	e.Reconstruct = func(row parquet.Row) (ref.V, error) {
		var v T
		if err := e.Schema.Reconstruct(&v, row); err != nil {
			return ref.V{}, err
		}
		return Extract(reflect.ValueOf(&v).Elem(), &e.Node), nil
	}
	e.ReadAll = func(data []byte, batch int, reuse bool) (any, error) {
		f, err := parquet.OpenFile(bytes.NewReader(data), int64(len(data)))
		if err != nil {
			return nil, err
		}
		r := parquet.NewGenericReader[T](f)
		defer r.Close()
		var out []T
		if batch <= 0 {
			batch = 10
		}
		zero := 0
		var buf []T
		for {
			if buf == nil || !reuse {
				buf = make([]T, batch)
			}
			n, err := r.Read(buf)
			out = append(out, buf[:n]...)
			if err != nil {
				if errors.Is(err, io.EOF) {
					return out, nil
				}
				return out, err
			}
			if n == 0 {
				if zero++; zero > 3 {
					return out, fmt.Errorf("Read returned 0, nil repeatedly")
				}
			} else {
				zero = 0
			}
		}
	}
	e.OpenReader = func(data []byte, opts ...parquet.FileOption) (*Reader, error) {
		f, err := parquet.OpenFile(bytes.NewReader(data), int64(len(data)), opts...)
		if err != nil {
			return nil, err
		}
		r := parquet.NewGenericReader[T](f)
		out := &Reader{
			Seek:    r.SeekToRow,
			Close:   r.Close,
			NumRows: r.NumRows(),
		}
		var dst []T
		out.Read = func(n int) (any, error) {
			if out.ReuseDst {
				if len(dst) < n {
					dst = append(dst, make([]T, n-len(dst))...)
				}
				k, err := r.Read(dst[:n])
				return append([]T(nil), dst[:k]...), err
			}
			buf := make([]T, n)
			k, err := r.Read(buf)
			return buf[:k], err
		}
		return out, nil
	}
	e.SortBuffer = func(rows any, batches []int, sorting []parquet.SortingColumn) ([]parquet.Row, error) {
		rs := rows.([]T)
		b := parquet.NewGenericBuffer[T](parquet.SortingRowGroupConfig(parquet.SortingColumns(sorting...)))
		i := 0
		for _, n := range append(append([]int{}, batches...), len(rs)) {
			if i+n > len(rs) {
				n = len(rs) - i
			}
			if n <= 0 {
				continue
			}
			if _, err := b.Write(rs[i : i+n]); err != nil {
				return nil, &WriteError{err}
			}
			i += n
		}
		sort.Sort(b)
		r := b.Rows()
		defer r.Close()
		var out []parquet.Row
		buf := make([]parquet.Row, 64)
		for {
			n, err := r.ReadRows(buf)
			for _, row := range buf[:n] {
				out = append(out, row.Clone())
			}
			if err != nil {
				if err == io.EOF {
					return out, nil
				}
				return out, err
			}
			if n == 0 {
				return out, fmt.Errorf("no progress")
			}
		}
	}
	e.OpenBufferReader = func(kind string, rows any) (*Reader, error) {
		rs := rows.([]T)
		var rg parquet.RowGroup
		var reset func()
		var write func([]T) (int, error)
		switch kind {
		case "RowBuffer":
			b := parquet.NewRowBuffer[T]()
			rg, reset, write = b, b.Reset, b.Write
		default:
			b := parquet.NewGenericBuffer[T]()
			rg, reset, write = b, b.Reset, b.Write
		}
		if _, err := write(rs); err != nil {
			return nil, &WriteError{err}
		}
		r := parquet.NewGenericRowGroupReader[T](rg)
		out := &Reader{NumRows: int64(len(rs))}
		var dst []T
		out.Read = func(n int) (any, error) {
			if out.ReuseDst {
				if len(dst) < n {
					dst = append(dst, make([]T, n-len(dst))...)
				}
				k, err := r.Read(dst[:n])
				return append([]T(nil), dst[:k]...), err
			}
			buf := make([]T, n)
			k, err := r.Read(buf)
			return buf[:k], err
		}
		out.Seek = func(i int64) error { return r.SeekToRow(i) }
		out.Close = func() error { return r.Close() }
		out.Rewrite = func(rows any) error {
			r.Close()
			reset()
			if _, err := write(rows.([]T)); err != nil {
				return &WriteError{err}
			}
			r = parquet.NewGenericRowGroupReader[T](rg)
			return nil
		}
		return out, nil
	}
	e.ReadFunc = func(data []byte) (any, error) {
		rows, err := parquet.Read[T](bytes.NewReader(data), int64(len(data)))
		return rows, err
	}
	e.ReaderRead = func(data []byte, reuse bool) (any, error) {
		f, err := parquet.OpenFile(bytes.NewReader(data), int64(len(data)))
		if err != nil {
			return nil, err
		}
		r := parquet.NewReader(f, e.Schema)
		defer r.Close()
		var out []T
		var v T
		for {
			if !reuse {
				var zero T
				v = zero
			}
			err := r.Read(&v)
			if err != nil {
				if errors.Is(err, io.EOF) {
					return out, nil
				}
				return out, err
			}
			out = append(out, v)
		}
	}
	Catalogue = append(Catalogue, e)
}

// FailingWriter accepts Limit bytes then fails (short count + error, as the
// io.Writer contract requires).
type FailingWriter struct {
	W     io.Writer
	Limit int
	N     int
}

var ErrSink = errors.New("verif: injected sink failure")

func (f *FailingWriter) Write(p []byte) (int, error) {
	room := f.Limit - f.N
	if room >= len(p) {
		n, err := f.W.Write(p)
		f.N += n
		return n, err
	}
	if room < 0 {
		room = 0
	}
	n, _ := f.W.Write(p[:room])
	f.N += n
	return n, ErrSink
}

// Reader is a type-erased GenericReader[T].
type Reader struct {
	// Rewrite (buffer-backed readers only) resets the buffer the rows were
	// read from, writes other rows into it and starts reading it again.
	Rewrite func(rows any) error
	// ReuseDst makes Read pass the same destination slice to every call and
	// return a shallow copy of the rows read (the batch loop of the documentation)
	ReuseDst bool
	Read     func(n int) (any, error)
	Seek     func(int64) error
	Close    func() error
	NumRows  int64
}

// WriteError marks an error returned by the library's write path.
type WriteError struct{ Err error }

func (e *WriteError) Error() string { return e.Err.Error() }
func (e *WriteError) Unwrap() error { return e.Err }

func init() {
	register[Scalars]("Scalars")
	register[OptScalars]("OptScalars")
	register[OptInt32]("OptInt32")
	register[OptPair]("OptPair")
	register[Pointers]("Pointers")
	register[Encoded]("Encoded")
	register[Logical]("Logical")
	register[Lists]("Lists")
	register[Nested]("Nested")
	register[ListPtr]("ListPtr")
	register[OptGroup]("OptGroup")
	register[Maps]("Maps")
	register[Deep]("Deep")
	register[DictLists]("DictLists")
	register[Embedded]("Embedded")
	register[Times]("Times")
	register[SliceDecimals]("SliceDecimals")
	register[NestedMaps]("NestedMaps")
	register[NestedTimes]("NestedTimes")
	register[TagMix]("TagMix")
	register[OptElems]("OptElems")
	register[PtrTag]("PtrTag")
	register[ByteList]("ByteList")
	register[BoolMaps]("BoolMaps")
}
