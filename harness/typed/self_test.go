package typed

import (
	"strings"
	"testing"

	"verifharness/ref"
)

// TestSelfSchema checks that the harness's derivation of the abstract schema
// from Go types agrees with the schema the library derives (paths, physical
// kind, max levels). A disagreement is a harness misunderstanding, not a finding.
func TestSelfSchema(t *testing.T) {
	for _, e := range Catalogue {
		cols := ref.Columns(&e.Node)
		paths := e.Schema.Columns()
		if len(cols) != len(paths) {
			t.Fatalf("%s: %d columns derived, library has %d\n%v", e.Name, len(cols), len(paths), e.Schema)
		}
		for i, c := range cols {
			if strings.Join(c.Path, ".") != strings.Join(paths[i], ".") {
				t.Errorf("%s col %d: path %v vs %v", e.Name, i, c.Path, paths[i])
			}
			leaf, ok := e.Schema.Lookup(paths[i]...)
			if !ok {
				t.Fatalf("%s: lookup %v", e.Name, paths[i])
			}
			if leaf.MaxRepetitionLevel != c.MaxRep || leaf.MaxDefinitionLevel != c.MaxDef {
				t.Errorf("%s col %v: levels (%d,%d) vs library (%d,%d)", e.Name, c.Path, c.MaxRep, c.MaxDef, leaf.MaxRepetitionLevel, leaf.MaxDefinitionLevel)
			}
			if int(leaf.Node.Type().Kind()) != c.Leaf.Phys {
				t.Errorf("%s col %v: physical %d vs library %v", e.Name, c.Path, c.Leaf.Phys, leaf.Node.Type().Kind())
			}
			if c.Leaf.Phys == ref.FLBA && leaf.Node.Type().Length() != c.Leaf.Len {
				t.Errorf("%s col %v: flba len", e.Name, c.Path)
			}
		}
	}
}
