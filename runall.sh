#!/bin/bash
# developer tool: runs every claimed check's quick tier on the current tree (refreshes evidence/)
cd "$(dirname "$(readlink -f "$0")")"
for id in $(python3 -c "import json;print(' '.join(c['property_id'] for c in json.load(open('MANIFEST.json'))['checks']))"); do
  ./check $id --tier ${1:-quick} 2>&1 | grep -a "quick:\|thorough:\|VIOLATION\|INCONCLUSIVE\|HARNESS" | head -4
done
