import json, sys, shutil
fid, prop, commit, sig, src = sys.argv[1:6]
what = " ".join(sys.argv[6:])
d = json.load(open("/verif/known_findings.json"))
d["findings"] = [f for f in d["findings"] if f["id"] != fid]
e={"id": fid, "property": prop, "status": "fixed", "commit": commit, "signature": sig, "what": f"fixed: property={prop} {commit} {what}"}
if src != "-":
    shutil.copy(src, f"/verif/findings/{fid}.json"); e["replay"]=f"findings/{fid}.json"
d["findings"].append(e)
json.dump(d, open("/verif/known_findings.json", "w"), indent=1)
print("recorded", fid)
